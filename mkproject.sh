#!/bin/bash
# assemble coq/_CoqProject from coq/project.d/*.list (one fragment per property group)
cd "$(dirname "$0")/coq"
{
  echo "-Q . PV"
  echo "-arg -w -arg -notation-overridden,-deprecated-hint-without-locality,-deprecated-instance-without-locality,-extraction-reserved-identifier"
  cat project.d/*.list | grep -v '^#' | grep -v '^$' | awk '!seen[$0]++'
} > _CoqProject.new
if ! cmp -s _CoqProject.new _CoqProject; then mv _CoqProject.new _CoqProject; coq_makefile -f _CoqProject -o Makefile >/dev/null; else rm _CoqProject.new; fi
