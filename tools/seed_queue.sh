#!/bin/bash
# evaluate seeded changes (scratch worktrees under /tmp) with the checks of THIS tree (a vp-run snapshot)
cd "$(dirname "$0")/.."
mkdir -p /verif/build
run() { python3 tools/seed_eval.py "$@" > /verif/build/seed_$2.out 2>&1; }
run /tmp/wt21 C01b-rigid-rotation-term-transposed C01 C06 C07
run /tmp/wt22 C02b-zero-volume-grains-skipped C02 C03
run /tmp/wt23 C03b-yielding-smoothing-about-arithmetic-mean C03 C02
run /tmp/wt24 C06b-inplace-division-aliases-caller-L C06 C05 C01
run /tmp/wt25 C07b-get-regime-applied-one-step-late C07 C01
run /tmp/wt26 C09b-gbs-reference-taken-per-solver-step C09 C01
run /tmp/wt17 C12-pairing-sign-from-wrong-eigenvector C12
run /tmp/wt11 C06-zero-strain-rate-freezes-F C06 C07 C01
run /tmp/wt4 C09-gbs-skipped-in-static-volume-regimes C09 C01 C07
run /tmp/wt13 C10-cached-stiffness-tensors C10
run /tmp/wt9 C01-seed-zero-not-reproducible C01
echo ALLDONE > /verif/build/seed_queue2.done
