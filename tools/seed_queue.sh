#!/bin/bash
# evaluate the seeded changes (scratch worktrees under /tmp) with the checks of THIS tree (a vp-run snapshot),
# so that the shared /verif/coq build is not disturbed; results go to /verif/seeded/<name>/ and /verif/build/seed_*.out
cd "$(dirname "$0")/.."
mkdir -p /verif/build
run() { python3 tools/seed_eval.py "$@" > /verif/build/seed_$2.out 2>&1; }
run /tmp/wt4 C09-gbs-skipped-in-static-volume-regimes C09 C01 C07
run /tmp/wt14 C15-zero-volume-slice-offset C15
run /tmp/wt16 C19-falsy-values-replaced-by-defaults C19
run /tmp/wt15 C17-sanitised-postfix-collisions C17
run /tmp/wt11 C06-zero-strain-rate-freezes-F C06 C07 C01
run /tmp/wt13 C10-cached-stiffness-tensors C10
run /tmp/wt12 C07-stale-rhs-buffer-after-flow-stops C07 C06
run /tmp/wt9 C01-seed-zero-not-reproducible C01
run /tmp/wt10 C05-allclose-memo-not-scale-free C05
run /tmp/wt1 C02-yielding-energy-damped-twice C02 C03
run /tmp/wt7 C13-diagonal-scatter-shortcut C13
run /tmp/wt6 C11-rotate-identity-fastpath C11 C10
run /tmp/wt8 C16-bool-in-integer-column C16
run /tmp/wt20 C20-schmidt-count-not-folded C20
# later seeds (C12, C14, C18) are appended by hand when their worktrees are ready
echo ALLDONE > /verif/build/seed_queue.done
