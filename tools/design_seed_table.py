#!/usr/bin/env python3
"""Rewrite the table between <!-- SEED-TABLE-BEGIN --> and <!-- SEED-TABLE-END --> in DESIGN.md from seeded/*/meta.json and
seeded/*/rerun*.json:  tools/design_seed_table.py d e f g"""
import subprocess
import sys

rounds = sys.argv[1:] or ["d", "e", "f", "g"]
tab = subprocess.run([sys.executable, "/verif/tools/seed_table.py"] + rounds, stdout=subprocess.PIPE, text=True).stdout
s = open("/verif/DESIGN.md").read()
a, b = s.index("<!-- SEED-TABLE-BEGIN -->"), s.index("<!-- SEED-TABLE-END -->")
s = s[:a] + "<!-- SEED-TABLE-BEGIN -->\n" + tab + s[b:]
open("/verif/DESIGN.md", "w").write(s)
print(tab.count("\n") - 2, "rows")
