#!/bin/bash
# evaluate round-4 seeded changes (scratch worktrees under /tmp/s4) with the checks of THIS tree (a vp-run snapshot)
cd "$(dirname "$0")/.."
mkdir -p /verif/build
run() { python3 tools/seed_eval.py --tests "$@" > /verif/build/seed_$2.out 2>&1; }
case "$1" in
1) run /tmp/s4/wC09 C09d-static-update-skips-gbs C09 C07 C01
   run /tmp/s4/wC03 C03d-scratch-buffer-noslip-inherits C03 C02 ;;
2) run /tmp/s4/wC06 C06d-steady-flow-three-sample-fastpath C06 C05 C01
   run /tmp/s4/wC07 C07d-crss-validation-after-early-exit C07 C02 C03 ;;
3) run /tmp/s4/wC01 "$2" C01 C09
   run /tmp/s4/wC02 "$3" C02 C03 ;;
esac
echo ALLDONE > /verif/build/seed_queue4_$1.done
