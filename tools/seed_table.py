#!/usr/bin/env python3
"""Print the markdown table of seeded changes for DESIGN.md 0.6 from seeded/<name>/meta.json (first-run verdict, written by
seed_eval.py when the change arrived) and seeded/<name>/rerun.json (verdict of the current checks, written by seed_rerun.py).
  tools/seed_table.py [suffix-letter ...]      e.g.  tools/seed_table.py d e   (rounds 5 and 6)"""
import glob
import json
import os
import sys

rounds = sys.argv[1:]


def verdict(res):
    out = []
    for k, x in res.items():
        out.append(f"{k} " + ("with replay" if x.get("with_failing_input") else ("no input" if x.get("caught") else "**missed**")))
    return "; ".join(out)


print("| seeded change | needs | first run | current checks |")
print("|---|---|---|---|")
for d in sorted(glob.glob("/verif/seeded/*")):
    name = os.path.basename(d)
    tag = name.split("-")[0]
    letter = tag[3:] or "a"
    if rounds and letter not in rounds:
        continue
    try:
        m = json.load(open(os.path.join(d, "meta.json")))
    except Exception:  # noqa: BLE001
        continue
    first = verdict(m.get("verif_run", {}).get("results", {}))
    cur = ""
    # newest of rerun.json / rerun_<branch>.json (verdict files have a "results" key; replay copies do not)
    cands = [f for f in glob.glob(os.path.join(d, "rerun*.json")) if "_replay_" not in os.path.basename(f)]
    merged, commits = {}, []
    for rp in sorted(cands, key=os.path.getmtime):
        r = json.load(open(rp))
        if "results" in r:
            merged.update(r["results"])
            commits.append(r.get("verif_commit", "?"))
    if merged:
        r = {"results": merged, "verif_commit": commits[-1]}
        cur = verdict(r.get("results", {})) + f" (@{r.get('verif_commit', '?')})"
    needs = " ".join(m.get("needs_to_manifest", "").split())[:170].replace("|", "/")
    print(f"| {name} | {needs} | {first} | {cur} |")
