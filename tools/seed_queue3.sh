#!/bin/bash
# evaluate round-3 seeded changes (scratch worktrees under /tmp/s3) with the checks of THIS tree (a vp-run snapshot)
# usage: tools/seed_queue3.sh <queue-number>
cd "$(dirname "$0")/.."
mkdir -p /verif/build
run() { python3 tools/seed_eval.py --tests "$@" > /verif/build/seed_$2.out 2>&1; }
case "$1" in
1) run /tmp/s3/wC05 C05c-steady-flow-fastpath-allclose C05 C06
   run /tmp/s3/wC16 C16c-whitespace-only-rows-dropped C16
   run /tmp/s3/wC17 C17c-resave-discards-suffix-postfixes C17 ;;
2) run /tmp/s3/wC19 C19c-shared-default-parameters-table C19
   run /tmp/s3/wC08 C08c-zero-volume-fraction-freezes-texture C08 C07
   run /tmp/s3/wC15 C15c-float32-variates-hit-zero C15 ;;
3) run /tmp/s3/wC10 C10c-cached-elastic-tensors C10
   run /tmp/s3/wC12 C12c-hexagonal-percent-stale-isotropic-buffer C12
   run /tmp/s3/wC18 C18c-pathline-memo-keyed-by-id C18 ;;
4) run /tmp/s3/wC04 "$2" C04 C02
   run /tmp/s3/wC11 "$3" C11 C10
   run /tmp/s3/wC13 "$4" C13 ;;
5) run /tmp/s3/wC14 "$2" C14
   run /tmp/s3/wC20 "$3" C20 ;;
esac
echo ALLDONE > /verif/build/seed_queue3_$1.done
