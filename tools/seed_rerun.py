#!/usr/bin/env python3
"""Re-run the checks of THIS tree (the /verif tree or a worktree of it: the directory this file lives in) against
every seeded change under /verif/seeded/<name>/ and record the verdicts.

  tools/seed_rerun.py [--slot K --of N] [name ...]

For each selected seed: a scratch worktree of /repo is created under /tmp/sr<K>/<name>, patch.diff is applied, every check
named in meta.json (verif_run.results keys, else the property id) is run with PYDREX_REPO pointing at it, the outcome is
written to /verif/seeded/<name>/rerun.json (exit status, VIOLATION lines, replay copied next to it) and the worktree is
removed.  Nothing is committed and /repo itself is never modified.  --slot K --of N processes every N-th seed (for running
several copies of the project in parallel, each with its own build directory)."""
import json
import os
import shutil
import subprocess
import sys

HERE = os.path.dirname(os.path.dirname(os.path.abspath(__file__)))
SEEDED = "/verif/seeded"
args = sys.argv[1:]
slot, of = 0, 1
if "--slot" in args:
    i = args.index("--slot"); slot = int(args[i + 1]); del args[i:i + 2]
if "--of" in args:
    i = args.index("--of"); of = int(args[i + 1]); del args[i:i + 2]
names = args or sorted(d for d in os.listdir(SEEDED) if os.path.exists(os.path.join(SEEDED, d, "patch.diff")))
names = [n for k, n in enumerate(names) if k % of == slot]


def sh(cmd, **kw):
    return subprocess.run(cmd, shell=True, stdout=subprocess.PIPE, stderr=subprocess.STDOUT, text=True, **kw)


base = f"/tmp/sr{slot}"
os.makedirs(base, exist_ok=True)
for name in names:
    d = os.path.join(SEEDED, name)
    meta = json.load(open(os.path.join(d, "meta.json")))
    ids = list(meta.get("verif_run", {}).get("results", {}).keys()) or [meta["property"]]
    wt = os.path.join(base, name)
    sh(f"git -C /repo worktree remove --force {wt}")
    r = sh(f"git -C /repo worktree add --detach {wt} HEAD && git -C {wt} apply {d}/patch.diff")
    if r.returncode != 0:
        json.dump({"error": "patch does not apply", "log": r.stdout[-2000:]}, open(os.path.join(d, "rerun.json"), "w"), indent=1)
        print(name, "PATCH-FAILED", flush=True)
        continue
    res = {}
    for pid in ids:
        p = sh(f"./check {pid}", cwd=HERE, env=dict(os.environ, PYDREX_REPO=wt), timeout=5400)
        lines = [ln for ln in p.stdout.split("\n") if ln.startswith("VIOLATION")]
        res[pid] = {"exit": p.returncode, "lines": [ln[:300] for ln in lines],
                    "caught": p.returncode == 1 and bool(lines),
                    "with_failing_input": any("no-failing-input-found" not in ln for ln in lines)}
        for ln in lines:
            if "replay=" in ln and "no-failing-input-found" not in ln:
                rp = ln.split("replay=")[1].split()[0]
                if os.path.exists(rp):
                    shutil.copy(rp, os.path.join(d, f"replay_{pid}_" + os.path.basename(rp)))
                    break
    head = sh("git rev-parse --short HEAD", cwd=HERE).stdout.strip()
    json.dump({"verif_commit": head, "results": res}, open(os.path.join(d, "rerun.json"), "w"), indent=1)
    sh(f"git -C /repo worktree remove --force {wt}")
    print(name, {k: ("replay" if v["with_failing_input"] else ("no-input" if v["caught"] else "MISSED")) for k, v in res.items()}, flush=True)
