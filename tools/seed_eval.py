#!/usr/bin/env python3
"""Evaluate a seeded change: tools/seed_eval.py <worktree> <name> <ID> [<ID> ...]
 - confirms the demonstration fails with the change and passes without it,
 - stores patch.diff / demo.py / meta.json under /verif/seeded/<name>/,
 - runs the named checks against the changed tree (PYDREX_REPO=<worktree>) and records the outcome."""
import json
import os
import shutil
import subprocess
import sys

args = [a for a in sys.argv[1:] if a != "--tests"]
RUN_TESTS = "--tests" in sys.argv[1:]     # also re-run the pinned suite on the changed tree (13-15 min)
wt, name, ids = args[0], args[1], args[2:]
out = os.path.join(wt, "out")
HERE = os.path.dirname(os.path.dirname(os.path.abspath(__file__)))   # the /verif tree (or snapshot) whose checks run
dst = os.path.join("/verif/seeded", name)
os.makedirs(dst, exist_ok=True)
env = dict(os.environ, PYTHONPATH=os.path.join(wt, "src"), PYTHONHASHSEED="0")


def sh(cmd, **kw):
    return subprocess.run(cmd, shell=True, stdout=subprocess.PIPE, stderr=subprocess.STDOUT, text=True, **kw)


def demo():
    return sh(f"/venv/bin/python {out}/demo.py", env=env, cwd="/tmp", timeout=1800).returncode


# the worktree is expected WITH the patch applied
r_with = demo()
sh(f"git -C {wt} apply -R {out}/patch.diff")
r_without = demo()
sh(f"git -C {wt} apply {out}/patch.diff")
for f in ("patch.diff", "demo.py", "meta.json"):
    if os.path.exists(os.path.join(out, f)):
        shutil.copy(os.path.join(out, f), os.path.join(dst, f))
meta = json.load(open(os.path.join(dst, "meta.json"))) if os.path.exists(os.path.join(dst, "meta.json")) else {}
meta["confirmed"] = {"demo_exit_with_change": r_with, "demo_exit_without_change": r_without,
                     "tests": meta.get("tests", "see agent report")}
if RUN_TESTS:
    t = sh("/venv/bin/python -m pytest -q -p no:cacheprovider --timeout=900 2>&1 | tail -3", env=env, cwd=wt, timeout=7200)
    meta["confirmed"]["tests_rerun_by_seed_eval"] = t.stdout.strip().split("\n")[-1][:200]
res = {}
for pid in ids:
    p = sh(f"./check {pid}", cwd=HERE, env=dict(os.environ, PYDREX_REPO=wt), timeout=3600)
    lines = [ln for ln in p.stdout.split("\n") if ln.startswith(("VIOLATION", "KNOWN-FINDING"))]
    res[pid] = {"exit": p.returncode, "lines": [ln[:300] for ln in lines if ln.startswith("VIOLATION")],
                "caught": p.returncode == 1 and any(ln.startswith("VIOLATION") for ln in lines),
                "with_failing_input": any(ln.startswith("VIOLATION") and "no-failing-input-found" not in ln for ln in lines)}
    for ln in lines:
        if ln.startswith("VIOLATION") and "replay=" in ln:
            rp = ln.split("replay=")[1].split()[0]
            if os.path.exists(rp):
                shutil.copy(rp, os.path.join(dst, f"replay_{pid}_" + os.path.basename(rp)))
                break
meta["verif_run"] = {"command": "PYDREX_REPO=<scratch worktree with the change> ./check <ID>", "results": res}
json.dump(meta, open(os.path.join(dst, "meta.json"), "w"), indent=1)
print(json.dumps({"demo": [r_with, r_without], "results": {k: (v["exit"], v["caught"], v["with_failing_input"]) for k, v in res.items()}}))
