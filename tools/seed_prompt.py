#!/usr/bin/env python3
"""tools/seed_prompt.py <ID> <worktree>: the text handed to a seeding sub-agent (property text, scratch worktree, the
one-line summaries of the ideas already used for that property -- nothing else from /verif)."""
import glob
import json
import os
import sys

pid, wt = sys.argv[1], sys.argv[2]
prop = next(json.loads(l) for l in open("/verif/properties.jsonl") if json.loads(l)["id"] == pid)
used = []
for d in sorted(glob.glob("/verif/seeded/*/meta.json")):
    m = json.load(open(d))
    if m.get("property") == pid:
        used.append("- " + (m.get("summary") or "")[:230].replace("\n", " "))
print(f"""You are helping to evaluate a verification effort for the Python package PyDRex (seismic-anisotropy/PyDRex, a numba/NumPy
implementation of the D-Rex model of crystallographic preferred orientation). Your scratch git worktree of the repository is
{wt} (work ONLY there; never touch /repo or /verif, do not read /verif). Python: /venv/bin/python (run your code with
PYTHONPATH={wt}/src PYTHONHASHSEED=0 so that the worktree's sources are the ones imported; check with
`python -c "import pydrex; print(pydrex.__file__)"`). There is no network.

Here is a semantic property of the package that users rely on:

  id: {pid}
  title: {prop['title']}
  statement: {prop['statement']}
  quantified over: {prop['quantifier']['text']}
  code it is anchored in: {json.dumps(prop['anchors'].get('files'))}; mechanisms: {json.dumps([m['name'] + ' @ ' + m['where'] for m in prop['anchors'].get('mechanism', [])])}

TASK. Write ONE realistic change to the package's source (under {wt}/src/pydrex) -- the kind of edit a maintainer could plausibly
make and a reviewer could plausibly accept: a refactor, an optimisation, a 'robustness' tweak, a new option, a tidy-up -- that
BREAKS this property (some clause of it) while
  (a) the package still imports and the existing pinned test-suite still passes completely
      (cd {wt} && PYTHONPATH={wt}/src /venv/bin/python -m pytest -q -p no:cacheprovider --timeout=900 ; expect 74 passed, 23 skipped; this takes
      about 6-14 minutes, so run it once when you think you are done, and again only if you change the patch), and
  (b) the breakage needs something SPECIFIC to manifest: an unusual but legal input, a boundary value, a particular multi-step
      sequence of calls, state carried between calls, a particular representation of an input (dtype, memory layout, container
      type, enum vs int), or two cooperating code sites that each look fine alone. It must NOT be something that ordinary use or a
      generic random test of the public API would expose at once.
Choose a clause, mechanism and code site DIFFERENT from these ideas, which were already used for this property:
{chr(10).join(used)}

Do not edit the tests. Do not add environment-variable guards. Keep the diff small (typically 5-40 lines).

DELIVERABLES, all in the directory {wt}/out/ (create it; it is not part of the patch):
  patch.diff  - `git -C {wt} diff -- src > {wt}/out/patch.diff` (the worktree must be left WITH the change applied)
  demo.py     - a small stand-alone program (run as `/venv/bin/python demo.py` with PYTHONPATH={wt}/src) that exits 1 (printing what went wrong)
                with the change and exits 0 without it (verify both: `git -C {wt} apply -R out/patch.diff` and `git -C {wt} apply out/patch.diff`; NEVER use git stash: the stash is shared by all worktrees of the repository and other agents work in sibling worktrees)
  meta.json   - {{"property": "{pid}", "summary": "<what was changed and why it breaks the property>", "needs_to_manifest": "<the specific
                input / sequence / state needed>", "files_touched": [...], "tests": "<N passed / M failed / K skipped with the change>",
                "demo": "exit 1 with the change / exit 0 without"}}
Finish by reporting, in a few lines: the idea, what it needs to manifest, the test-suite result with the change, and the two demo exit codes.""")
