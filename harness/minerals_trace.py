"""Trace recording around Mineral.update_orientations (no change to /repo: LSODA and the
user callables are wrapped from outside) + scenario generators shared by C01, C04-C09."""
from __future__ import annotations

import itertools

import numpy as np
from scipy.integrate import LSODA as _LSODA
from scipy import linalg as la

import common
import gen_core as G
from common import hx


# tie T for the glue (docs/glue-tie.md): coq/gen/Gen_minerals.v is regenerated from
# pydrex.utils.extract_vars / apply_gbs and the closures of Mineral.update_orientations by
# translator/specs_minerals.py; the Inst_minerals*.v lemmas tie it to Model_minerals.v.  Every
# property whose statements rest on Model_minerals builds these files as obligations, so that an
# edit of the glue source breaks a proof (or the translator fails closed), not only a differential run.
GLUE_TIE_FILES = ["gen/Gen_minerals.v", "Inst_core.v", "Inst_minerals.v", "Inst_minerals_rhs1.v",
                  "Inst_minerals_rhs2.v", "Inst_minerals_rhs3.v",
                  # round 5: the driver around the integrator (LSODA's constructor arguments, solver loop and its
                  # failure branch, get_regime, update_all, __post_init__) and the theorems about its model
                  "Inst_minerals_drv.v", "Inst_minerals_rhs_gr.v", "Proofs_driver.v"]
GLUE_TIE_GEN = ("core", "minerals")
GLUE_TIE_TRUSTED = (
    "glue tie T: translator/specs_minerals.py (GlueProxy/GArr array semantics: clip, boolean-mask stores, "
    "non-raising array division, 3x3 matmul; LSODA stand-ins that capture eval_rhs / replay one step; "
    "oracle stubs for eigvalsh and polar_decompose; apply_gbs traced on copies with write-back at the call site; "
    "round 5: LSODA stand-ins that record the constructor call / take m steps with independent symbolic state vectors / "
    "fail at a chosen step, a Rotation.random stand-in (oracle) for __post_init__, the real update_all on stand-in solvers; "
    "translator/srcguard.py: fail closed on unlisted callee kernels and on new integer literals > 3 in traced functions)")


class Trace:
    """What one update_orientations call did."""

    def __init__(self):
        self.rhs_calls = []      # dict(t, y, out): first evaluations
        self.rhs_tail = []       # last evaluations of the update
        self.step_ys = []        # solver.y after each step (copy, before the GBS write-back)
        self.y_start = None
        self.ctor = None
        self.start = None
        self.error = None
        self.F_returned = None


class Recorder:
    """Install with `with Recorder(mineral_module) as rec:`; rec.current is filled by
    wrapped callables while an update runs."""

    def __init__(self):
        import pydrex.minerals as pm
        self.pm = pm
        self.current = None
        self.traces = []

    def __enter__(self):
        rec = self

        class RecLSODA(_LSODA):
            def __init__(self, fun, t0, y0, t_bound, **kw):
                tr = rec.current
                if tr is not None:
                    tr.y_start = np.array(y0, dtype=float).copy()
                    tr.ctor = dict(t0=t0, t_bound=t_bound, kw=dict(kw))     # what LSODA was constructed with

                def fun2(t, y):
                    out = fun(t, y)
                    if tr is not None:
                        call = dict(t=float(t), y=np.array(y, dtype=float).copy(),
                                    out=None if out is None else np.array(out, dtype=float).copy())
                        if len(tr.rhs_calls) < rec.max_rhs:
                            tr.rhs_calls.append(call)          # the first evaluations ...
                        else:
                            tr.rhs_tail.append(call)           # ... and the last ones (ring buffer)
                            if len(tr.rhs_tail) > rec.max_rhs:
                                tr.rhs_tail.pop(0)
                    return out

                super().__init__(fun2, t0, y0, t_bound, **kw)

            def step(self):
                msg = super().step()
                tr = rec.current
                if tr is not None:
                    tr.step_ys.append(np.array(self.y, dtype=float).copy())
                return msg

        self._orig = self.pm.LSODA
        self.pm.LSODA = RecLSODA
        self.max_rhs = 5
        return self

    def __exit__(self, *a):
        self.pm.LSODA = self._orig

    def update(self, mineral, params, F, get_L, pathline, **kw):
        """Run one update under recording. Returns (trace, F_new or None)."""
        tr = Trace()
        self.current = tr
        try:        # what the update starts from (for validate_problems)
            tr.start = dict(F=np.array(F, dtype=float).copy(), o=np.array(mineral.orientations[-1], dtype=float).copy(),
                            f=np.array(mineral.fractions[-1], dtype=float).copy(),
                            t0=float(pathline[0]), t1=float(pathline[1]), user_kw=sorted(k for k in kw if k != "get_regime"))
        except Exception:  # noqa: BLE001  (malformed arguments of a negative test)
            tr.start = None
        try:
            Fn = mineral.update_orientations(params, F, get_L, pathline, **kw)
            tr.F_returned = np.array(Fn, dtype=float).copy()
        except Exception as e:  # noqa: BLE001
            tr.error = e
            Fn = None
        finally:
            self.current = None
        self.traces.append(tr)
        return tr, Fn


# --------------------------------------------------------------------------
# scenarios
# --------------------------------------------------------------------------
NICE_PERIODS = (0.25, 0.375, 0.5, 0.625, 0.75, 1.0)     # dimensionless update lengths with few mantissa bits: the partition
#                                                         times k T, their midpoints and t / T are exact in binary64 at rate 1
COINCIDENT_FLOWS = ["cos_period", "cos_pulsed", "pulse", "zones", "loop"]


def _zone(w):
    """two smooth deformation zones inside (0, 1/2) and (1/2, 1): exactly 0 at w = 0, 1/2, 1; maximum ~0.93"""
    s = w * (w - 0.5) * (w - 1.0)
    return 400.0 * s * s


def make_coincident(rng, kind, scale, T):
    """Velocity gradients that take EXACTLY the same value at the start, the midpoint and the end of every update of
    (dimensionless) length T but vary in between -- what any 'is the flow steady?' test on a few samples cannot tell
    from a constant (seeded change C06d).  u = t * scale / T counts updates.
      cos_period  L0 cos(4 pi m u): whole periods per half update, net strain zero (sample value L0)
      cos_pulsed  L1 cos(4 pi m u) + L0^T (1 - cos(4 pi m u)): non-commuting in time (sample value L1)
      pulse       two deformation pulses strictly inside each half of the update (sample value 0)
      zones       the same as a function of POSITION: two shear zones crossed along a straight pathline, rigid material
                  at the three sampled positions (sample value 0)
      loop        position-dependent L on a closed pathline that returns to the same point at the three sample times
    At rate 1 with T in NICE_PERIODS the coincidence is exact in binary64 (cos(fl(2 pi m)) = 1.0; the polynomial zone
    profile is exactly 0 at w = 0, 1/2, 1); at other rates fl(fl(T / k) k) may miss T by an ulp, so the coincidence of
    pulse / zones (not of the cosine families) can hold in one of two runs that differ only by the rate."""
    L0 = G.velocity_gradient(rng, ("simple", "general", "trace")[int(rng.integers(3))])
    L1 = G.velocity_gradient(rng, ("general", "pure", "simple")[int(rng.integers(3))])
    m = int(rng.integers(1, 3))
    desc = dict(kind=kind, period=T, harmonics=m, coincident=True)

    def u(t):
        return (t * scale) / T
    if kind == "cos_period":
        return (lambda t, x: scale * L0 * np.cos(4 * np.pi * m * u(t))), desc
    if kind == "cos_pulsed":
        return (lambda t, x: scale * (L1 * np.cos(4 * np.pi * m * u(t)) + L0.T * (1 - np.cos(4 * np.pi * m * u(t))))), desc
    if kind == "pulse":
        return (lambda t, x: scale * L1 * _zone(u(t) - np.floor(u(t)))), desc
    if kind == "zones":
        a = np.zeros(3)
        a[int(rng.integers(3))] = 1.0
        desc["get_x"] = lambda t: a * u(t)          # one unit of a coordinate per update

        def get_zones(t, x):
            xi = float(np.dot(a, x))
            return scale * L1 * _zone(xi - np.floor(xi))
        return get_zones, desc
    if kind == "loop":
        r, c0 = float(rng.uniform(0.3, 1.0)), float(rng.normal())
        # the offset 20 r absorbs r sin(fl(2 pi m)) ~ -2.4e-16 m r: the three sampled positions are bit-identical
        desc["get_x"] = lambda t: np.array([c0 + r * np.cos(4 * np.pi * m * u(t)), 20 * r + r * np.sin(4 * np.pi * m * u(t)), 0.0])
        return (lambda t, x: scale * (L0 + L1 * float(np.tanh(x[0] - c0)) + L0.T * float(np.tanh(x[1] - 20 * r)))), desc
    raise ValueError(kind)


L_PRESENTATIONS = ["L_view", "L_readonly", "L_fortran"]     # + "shared": the same C-contiguous array object on every call
ID_SPELLINGS = ("enum", "np.uint8", "np.int64")              # how phase / fabric / regime reach Mineral(...) and come back from get_regime


def spell_id(kind, enum_cls, v):
    """an ordinal in another legal spelling: the enum member (what fresh Minerals carry), numpy integers (what Mineral.load() /
    model-output arrays yield)"""
    if kind == "enum":
        return enum_cls(int(v))
    if kind and kind.startswith("np."):
        return getattr(np, kind[3:])(int(v))
    return int(v)


PLANAR_FLOWS = ["planar_xz", "uniaxial_z", "planar", "uniaxial"]


def planar_gradient(rng, kind):
    """Velocity gradient EXACTLY confined to a coordinate plane (one row and one column exactly zero, the usual 2-D set-up) but
    with a NON-ZERO in-plane trace (compaction / dilation, uniaxial shortening): closed forms for 2-D incompressible flow
    (principal strain rates +-sqrt(Dxx^2 + Dxz^2), 0) are wrong here, and only here.  planar_xz / uniaxial_z: the x-z plane
    (PyDRex's own 2-D convention); planar / uniaxial: a random coordinate plane and in-plane axis.  Unit strain-rate scale."""
    j = 1 if kind in ("planar_xz", "uniaxial_z") else int(rng.integers(3))      # out-of-plane axis
    keep = [i for i in range(3) if i != j]
    L = np.zeros((3, 3))
    if kind.startswith("uniaxial"):
        a = 2 if kind == "uniaxial_z" else keep[int(rng.integers(2))]
        L[a, a] = -1.0 if rng.random() < 0.7 else 1.0
    else:
        B = rng.normal(size=(2, 2))
        sgn = 1.0 if rng.random() < 0.5 else -1.0
        if rng.random() < 0.6:      # both in-plane normal strain rates of the same sign (compaction / dilation with shear)
            B[0, 0], B[1, 1] = sgn * float(rng.uniform(0.3, 1.5)), sgn * float(rng.uniform(0.3, 1.5))
        else:                       # generic, trace clearly non-zero
            B += np.eye(2) * float(rng.uniform(0.4, 1.2)) * sgn
        for a in range(2):
            for b in range(2):
                L[keep[a], keep[b]] = B[a, b]
    s = float(np.abs(np.linalg.eigvalsh((L + L.T) / 2)).max())
    return L / s


def make_L(rng, kind, scale=1.0, period=None):
    """returns (get_L(t, x), description).  Families of the quantifier."""
    if kind in COINCIDENT_FLOWS:
        return make_coincident(rng, kind, scale, float(period))
    if kind in PLANAR_FLOWS:
        L0 = planar_gradient(rng, kind) * scale
        return (lambda t, x, L0=L0: L0.copy()), dict(kind=kind, L0=[hx(v) for v in L0.reshape(-1)])
    if kind in ("simple", "pure", "axisym", "general", "trace"):
        L0 = G.velocity_gradient(rng, kind) * scale
        return (lambda t, x, L0=L0: L0.copy()), dict(kind=kind, L0=[hx(v) for v in L0.reshape(-1)])
    if kind == "time":
        L0 = G.velocity_gradient(rng, "general") * scale
        L1 = G.velocity_gradient(rng, "simple") * scale
        w = float(rng.uniform(0.5, 3.0))
        return (lambda t, x: L0 * np.cos(w * t * scale) ** 2 + L1 * np.sin(w * t * scale) ** 2), dict(kind=kind)
    if kind == "shared":        # the callable hands back the SAME array object on every call (a cached L)
        L0 = G.velocity_gradient(rng, "general") * scale * float(rng.uniform(0.3, 3.0))
        buf = L0.copy()
        desc = dict(kind=kind, pristine=L0.copy(), mutated=False)

        def get_shared(t, x):
            if not np.array_equal(buf, L0):
                desc["mutated"] = True      # the library wrote into the caller's array
            return buf
        return get_shared, desc
    if kind in L_PRESENTATIONS:
        # the callable hands back caller-owned storage in another presentation: a non-contiguous VIEW of a table the caller keeps,
        # a READ-ONLY array (an in-place write raises), a Fortran-ordered array; constant in time, strain-rate scale != 1
        L0 = G.velocity_gradient(rng, ("general", "trace", "simple")[int(rng.integers(3))]) * scale * float(rng.uniform(0.3, 3.0))
        desc = dict(kind=kind, pristine=L0.copy(), mutated=False)
        if kind == "L_view":
            table = np.zeros((4, 6, 6))
            table[2, ::2, ::2] = L0
            buf = table[2, ::2, ::2]
        elif kind == "L_readonly":
            buf = L0.copy()
            buf.setflags(write=False)
        else:
            buf = np.asfortranarray(L0.copy())

        def get_presented(t, x):
            if not np.array_equal(buf, L0):
                desc["mutated"] = True
            return buf
        return get_presented, desc
    if kind == "spin":          # purely rotational velocity gradient: zero strain rate, F still rotates
        w = rng.normal(size=3) * scale
        W = np.array([[0.0, -w[2], w[1]], [w[2], 0.0, -w[0]], [-w[1], w[0], 0.0]])
        return (lambda t, x, W=W: W.copy()), dict(kind=kind)
    if kind == "shear_then_spin":   # strain for a while, then rigid rotation only
        L0 = G.velocity_gradient(rng, "simple") * scale
        w = rng.normal(size=3) * scale
        W = np.array([[0.0, -w[2], w[1]], [w[2], 0.0, -w[0]], [-w[1], w[0], 0.0]])
        ts = float(rng.uniform(0.05, 0.3)) / max(scale, 1e-300)
        return (lambda t, x: L0.copy() if t < ts else W.copy()), dict(kind=kind, t_stop=ts)
    if kind == "stopping":      # the flow stops (exactly zero velocity gradient) part-way through
        L0 = G.velocity_gradient(rng, "simple") * scale
        ts = float(rng.uniform(0.05, 0.3)) / max(scale, 1e-300)
        return (lambda t, x: L0.copy() if t < ts else np.zeros((3, 3))), dict(kind=kind, t_stop=ts)
    if kind == "position":
        L0 = G.velocity_gradient(rng, "general") * scale
        L1 = G.velocity_gradient(rng, "pure") * scale
        return (lambda t, x: L0 + L1 * float(np.tanh(x[0]))), dict(kind=kind)
    raise ValueError(kind)


L_FAMILIES = ["simple", "pure", "axisym", "general", "trace", "time", "position", "stopping", "spin", "shear_then_spin", "shared"]


def init_texture(rng, n, kind):
    if kind == "random":
        O = G.rand_rot(rng, n)
        f = np.full(n, 1.0 / n)
    elif kind == "clustered":
        from scipy.spatial.transform import Rotation
        base = G.rand_rot(rng, 1)[0]
        pert = Rotation.from_rotvec(rng.normal(size=(n, 3)) * 0.2).as_matrix()
        O = np.einsum("ij,njk->nik", base, pert)
        f = rng.dirichlet(np.ones(n) * 2)
    elif kind == "single":
        O = np.repeat(G.rand_rot(rng, 1), n, axis=0)
        f = np.full(n, 1.0 / n)
    elif kind == "nonuniform":
        O = G.rand_rot(rng, n)
        f = G.volumes(rng, n, "dominant")
    else:
        raise ValueError(kind)
    return O, f / f.sum()


T_KINDS = ["random", "clustered", "single", "nonuniform"]
ACCEPTED = [(0, 0), (0, 1), (0, 2), (0, 3), (0, 4), (1, 5)]


def scenario(rng, regime=None, pair=None, n=None, lkind=None, tkind=None, nupd=None, strain=None):
    pair = pair if pair is not None else ACCEPTED[rng.integers(6)]
    regime = int(regime if regime is not None else (4, 4, 4, 6, 0, 7)[rng.integers(6)])
    n = int(n if n is not None else rng.integers(2, 25))
    lkind = lkind or L_FAMILIES[rng.integers(len(L_FAMILIES))]
    tkind = tkind or T_KINDS[rng.integers(len(T_KINDS))]
    nupd = int(nupd if nupd is not None else rng.integers(1, 5))
    strain = float(strain if strain is not None else rng.uniform(0.1, 0.6))
    params = dict(stress_exponent=float(rng.uniform(1, 2)), deformation_exponent=float(rng.uniform(2, 5)),
                  gbm_mobility=float(rng.uniform(0, 200)), gbs_threshold=float(rng.uniform(0, 0.9)),
                  nucleation_efficiency=float(rng.uniform(0, 10)), number_of_grains=n)
    if rng.random() < 0.2:
        params["gbs_threshold"] = 0.0
    return dict(pair=pair, regime=regime, n=n, lkind=lkind, tkind=tkind, nupd=nupd, strain=strain,
                params=params, seed=int(rng.integers(0, 2**31 - 1)))


def coincident_scenarios(rng, tier="quick", regimes=(4, 6, 0, 7), kinds=None, reps=None, nmax=10):
    """One history per flow family of COINCIDENT_FLOWS (x reps): the velocity gradient seen along the pathline coincides
    exactly at the start, midpoint and end of EVERY update and varies in between; the update length is sc["period"]."""
    kinds = list(kinds if kinds is not None else COINCIDENT_FLOWS)
    reps = reps if reps is not None else (1 if tier == "quick" else 6)
    out = []
    for r in range(reps):
        for i, kind in enumerate(kinds):
            sc = scenario(rng, regime=int(regimes[(i + r) % len(regimes)]), n=int(rng.integers(2, nmax + 1)), lkind=kind,
                          nupd=int(rng.integers(1, 4)))
            sc["period"] = float(NICE_PERIODS[int(rng.integers(len(NICE_PERIODS)))])
            out.append(sc)
    return out


BLOCK_N_QUICK = (63, 64, 65, 127, 128, 129, 255, 256, 257, 512, 1000, 1024)
BLOCK_N_THOROUGH = BLOCK_N_QUICK + (192, 384, 511, 513, 640, 768, 896, 1023, 1025, 2000, 2047, 2048, 2049, 4096)


def block_scenarios(rng, tier="quick", regimes=(4, 6), sizes=None, nupd=1):
    """Histories whose grain count sits on a block boundary (powers of two and neighbours, multiples of
    64 / 128 / 256 / 1000 / 1024): a size-dependent path of the rate kernel (seeded change C03d: block-wise
    sum wrong for multiples of 128) is invisible at the 2..24 grains of the ordinary scenarios.  One update of
    a 1024-grain aggregate costs ~0.1 s."""
    sizes = sizes if sizes is not None else (BLOCK_N_QUICK if tier == "quick" else BLOCK_N_THOROUGH)
    out = []
    for i, n in enumerate(sizes):
        sc = scenario(rng, regime=int(regimes[i % len(regimes)]), n=int(n), nupd=nupd,
                      lkind=("simple", "general", "time", "pure")[i % 4], tkind=T_KINDS[i % len(T_KINDS)],
                      strain=float(rng.uniform(0.1, 0.4)))
        sc["params"]["gbm_mobility"] = float(rng.uniform(20, 200))     # the volume block must move
        sc["block_size_family"] = True
        out.append(sc)
    return out


def build(sc, assemblage=None, fractions=None):
    """Instantiate mineral, params dict, L callable and position callable of a scenario."""
    import pydrex
    rng = np.random.default_rng(sc["seed"])
    O, f = init_texture(rng, sc["n"], sc["tkind"])
    sp = sc.get("spelling")
    m = pydrex.Mineral(phase=spell_id(sp, pydrex.MineralPhase, sc["pair"][0]), fabric=spell_id(sp, pydrex.MineralFabric, sc["pair"][1]),
                       regime=spell_id(sp, pydrex.DeformationRegime, sc["regime"]), n_grains=sc["n"],
                       fractions_init=f.copy(), orientations_init=O.copy())
    params = pydrex.DefaultParams().as_dict()
    params.update(sc["params"])
    if assemblage is None:
        assemblage, fractions = (pydrex.MineralPhase(sc["pair"][0]),), (1.0,)
    params["phase_assemblage"] = tuple(assemblage)
    params["phase_fractions"] = tuple(fractions)
    rng_flow = np.random.default_rng(sc.get("flow_seed", sc["seed"] + 1))   # independent of the texture
    get_L, desc = make_L(rng_flow, sc["lkind"], scale=sc.get("rate", 1.0), period=sc.get("period"))
    v = rng_flow.normal(size=3)

    def get_x(t, v=v, r=sc.get("rate", 1.0)):
        return v * t * r

    if "get_x" in desc:          # flow families that come with their own pathline (zones, loop)
        get_x = desc.pop("get_x")
    return m, params, get_L, get_x, desc


def oracle_values(get_L, get_x, t, y):
    """Recompute, with the same library routines on the same inputs, the oracle values that
    eval_rhs obtained: L, s = |eigvalsh(D)|.max(), Sd = polar_decompose(L @ F)[1]."""
    from pydrex import tensors as _t
    L = np.asarray(get_L(t, get_x(t)), dtype=float)
    D = (L + L.T) / 2
    s = float(np.abs(la.eigvalsh(D)).max())
    F = y[:9].reshape(3, 3)
    Sd = _t.polar_decompose(L @ F)[1] if s != 0 else np.zeros((3, 3))
    return L, s, np.asarray(Sd, dtype=float)


def eigmax_closed_form(D):
    """Independent value of the largest |eigenvalue| of a symmetric 3x3 matrix
    (trigonometric solution of the characteristic cubic) -- residual check of the oracle."""
    D = (D + D.T) / 2
    q = np.trace(D) / 3
    B = D - q * np.eye(3)
    p2 = np.sum(B * B) / 6
    if p2 == 0:
        return abs(q)
    p = np.sqrt(p2)
    r = np.clip(np.linalg.det(B / p) / 2, -1, 1)
    phi = np.arccos(r) / 3
    e1 = q + 2 * p * np.cos(phi)
    e3 = q + 2 * p * np.cos(phi + 2 * np.pi / 3)
    return max(abs(e1), abs(e3))


def regime_given(sc, t):
    """what the get_regime callable of a scenario returns at time t: regime_at in the scenario's spelling of ordinals"""
    r = regime_at(sc, t)
    if sc.get("spelling"):
        import pydrex
        return spell_id(sc["spelling"], pydrex.DeformationRegime, r)
    return r


def regime_at(sc, t):
    """the regime eval_rhs uses at time t (constant, or switched by a get_regime callable)"""
    sw = sc.get("regime_switch")
    if not sw:
        return sc["regime"]
    r1, r2, ts = sw
    return r1 if t < ts else r2


def rhs_line(sc, params, L, s, Sd, y, t=None):
    ass = [int(p) for p in params["phase_assemblage"]]
    fl = ([float(x) for x in params["phase_fractions"]] + list(L.reshape(-1)) + [s] + list(Sd.reshape(-1))
          + [params["stress_exponent"], params["deformation_exponent"], params["nucleation_efficiency"],
             params["gbm_mobility"]] + list(y))
    regime = sc["regime"] if t is None else regime_at(sc, t)
    return common.model_line("rhs", [regime, sc["pair"][0], sc["pair"][1], sc["n"]] + ass, fl)


def update_line(sc, params, prev_o, y_last):
    fl = [params["gbs_threshold"]] + list(np.asarray(prev_o).reshape(-1)) + list(y_last)
    return common.model_line("update", [sc["n"]], fl)


def orthonormality_error(O):
    return float(np.abs(np.einsum("nij,nkj->nik", O, O) - np.eye(3)).max())


def snapshot_valid(O, f, n):
    """Runtime reading of C01's validity clauses for one stored snapshot (no drift bound)."""
    fails = []
    if O.shape != (n, 3, 3) or f.shape != (n,):
        fails.append(f"shape {O.shape} / {f.shape}")
        return fails
    if not (np.all(np.isfinite(O)) and np.all(np.isfinite(f))):
        fails.append("non-finite entries")
        return fails
    if f.min() < 0:
        fails.append(f"negative fraction {f.min():.3e}")
    if abs(f.sum() - 1) > 1e-12:
        fails.append(f"fractions sum to {f.sum()!r}")
    if np.abs(O).max() > 1:
        fails.append("orientation entry outside [-1, 1]")
    return fails


# --------------------------------------------------------------------------
# tie H for the problem instance handed to LSODA (round 5): the extracted Model_minerals.lsoda_problem_of must
# reproduce, bit for bit, the constructor call of every recorded update -- start vector, absolute tolerance
# vector, relative tolerance, first step, t0, t_bound; no further keyword.  (The generated k_lsoda_args_n{1,2,3}
# are tied to the same model by Inst_minerals_drv.lsoda_args_inst_*; this run covers every grain count.)
# --------------------------------------------------------------------------
def validate_problems(chk, hist, bad, user_kw=()):
    sc = hist["sc"]
    lines, meta = [], []
    for u in hist["updates"]:
        tr = u["trace"]
        st = getattr(tr, "start", None)
        if tr.ctor is None or st is None or st["user_kw"]:
            continue            # LSODA never constructed / caller supplied its own solver options
        n = int(st["f"].shape[0])
        if st["o"].shape != (n, 3, 3) or st["F"].shape != (3, 3):
            continue
        fl = list(st["F"].reshape(-1)) + list(st["o"].reshape(-1)) + list(st["f"]) + [st["t0"], st["t1"]]
        lines.append(common.model_line("problem", [n], fl))
        meta.append((u, tr))
    if not lines:
        return
    res = common.run_model(lines, "core")
    for (u, tr), r in zip(meta, res):
        kw = tr.ctor["kw"]
        chk.cov["lsoda_problems_compared"] = chk.cov.get("lsoda_problems_compared", 0) + 1
        extra = sorted(set(kw) - {"atol", "rtol", "first_step", "lband", "uband"} - set(user_kw))
        if extra:
            bad.append((sc, f"update {u.get('index')}: LSODA constructed with unmodelled keyword(s) {extra}"))
        if r[0] != "OK":
            bad.append((sc, f"update {u.get('index')}: problem model returned {r}"))
            continue
        try:
            impl = [float(tr.ctor["t0"])] + list(np.asarray(tr.y_start, dtype=float)) + [float(tr.ctor["t_bound"])] \
                + list(np.broadcast_to(np.asarray(kw["atol"], dtype=float), tr.y_start.shape)) \
                + [float(kw["rtol"]), float(kw["first_step"])]
        except Exception as e:  # noqa: BLE001
            bad.append((sc, f"update {u.get('index')}: LSODA constructor arguments not of the modelled form: {e}"))
            continue
        n = int(tr.start["f"].shape[0])
        if kw.get("lband") is not None or kw.get("uband") is not None:
            if n <= 4632:
                bad.append((sc, f"update {u.get('index')}: banded Jacobian requested for {n} grains"))
        if impl != r[1]:
            okc, idx = common.vec_close(impl, r[1], rtol=0.0, atol=0.0)
            if okc:             # NaN entries compare unequal as Python floats but are the same value
                continue
            names = "t0 / y0 / t_bound / atol / rtol / first_step"
            bad.append((sc, f"update {u.get('index')}: LSODA's constructor arguments ({names}) differ from the model at flat index "
                            f"{idx}: {impl[idx] if idx is not None and idx >= 0 else len(impl)!r} vs "
                            f"{r[1][idx] if idx is not None and idx >= 0 else len(r[1])!r}"))


# --------------------------------------------------------------------------
# the failure branch of the solver loop on the REAL code (round 5; the tie T for it is
# Inst_minerals_drv.update_loop_inst_*): scipy's LSODA is wrapped so that its step number `fail_step` reports
# failure (status "failed", a message) instead of integrating.  Required (C07 / C01): IterationError is raised,
# the stored history is byte-identical to the one before the call, the caller's F is untouched, and the mineral
# is as usable afterwards as a fresh one (the next, unforced update is bit-identical to a twin's).
# --------------------------------------------------------------------------
def failing_solver_probe(sc, fail_step):
    import pydrex.minerals as pm
    import pydrex.exceptions as perr
    fails = []
    m, params, get_L, get_x, _ = build(sc)
    twin, params2, get_L2, get_x2, _ = build(sc)
    F0 = np.eye(3) + 0.1 * np.arange(9.0).reshape(3, 3) / 9
    F_keep = F0.copy()
    before = [(o.tobytes(), f.tobytes()) for o, f in zip(m.orientations, m.fractions)]

    class FailingLSODA(_LSODA):
        nsteps = 0

        def step(self):
            self.nsteps += 1
            if self.nsteps == fail_step:
                self.status = "failed"
                return "forced failure of solver step %d (harness stand-in)" % fail_step
            return super().step()

    orig = pm.LSODA
    pm.LSODA = FailingLSODA
    raised = None
    try:
        try:
            m.update_orientations(params, F0, get_L, (0.0, 0.25, get_x))
        except Exception as e:  # noqa: BLE001
            raised = e
    finally:
        pm.LSODA = orig
    if raised is None:
        fails.append(f"a solver step that reports failure (step {fail_step}) did not make update_orientations raise")
    elif not isinstance(raised, perr.IterationError):
        fails.append(f"a failing solver step raised {type(raised).__name__} instead of IterationError")
    after = [(o.tobytes(), f.tobytes()) for o, f in zip(m.orientations, m.fractions)]
    if after != before:
        fails.append(f"a failed update (solver step {fail_step}) altered the stored history "
                     f"({len(before)} -> {len(after)} snapshots)")
    if not np.array_equal(F0, F_keep):
        fails.append("a failed update wrote into the caller's deformation gradient")
    if after == before:
        try:
            Fa = m.update_orientations(params, F0, get_L, (0.0, 0.25, get_x))
            Fb = twin.update_orientations(params2, F_keep.copy(), get_L2, (0.0, 0.25, get_x2))
            if not (np.array_equal(Fa, Fb) and np.array_equal(m.orientations[-1], twin.orientations[-1])
                    and np.array_equal(m.fractions[-1], twin.fractions[-1])):
                fails.append("after a failed update the mineral does not behave like a fresh one")
        except Exception as e:  # noqa: BLE001
            fails.append(f"update after a failed update raised {type(e).__name__}: {e}")
    return fails
