"""Input generators for pydrex.core.derivatives (shared by C02, C03, C04, C07)."""
from __future__ import annotations

import itertools
import math

import numpy as np
from scipy.spatial.transform import Rotation

VALID_PAIRS = [(0, 0), (0, 1), (0, 2), (0, 3), (0, 4), (1, 5)]


def signed_perms():
    out = []
    for perm in itertools.permutations(range(3)):
        for signs in itertools.product((1, -1), repeat=3):
            m = np.zeros((3, 3))
            for i, (p, s) in enumerate(zip(perm, signs)):
                m[i, p] = s
            if np.linalg.det(m) > 0:
                out.append(m)
    return out


SIGNED_PERMS = signed_perms()


def rand_rot(rng, n):
    return Rotation.random(n, random_state=rng.integers(0, 2**31 - 1)).as_matrix()


def velocity_gradient(rng, kind):
    L = np.zeros((3, 3))
    if kind == "simple":
        i, j = [(0, 1), (0, 2), (1, 0), (1, 2), (2, 0), (2, 1)][rng.integers(6)]
        L[i, j] = 2.0
    elif kind == "pure":
        i, j = [(0, 1), (0, 2), (1, 2)][rng.integers(3)]
        L[i, i], L[j, j] = 1.0, -1.0
    elif kind == "axisym":
        k = rng.integers(3)
        for i in range(3):
            L[i, i] = 1.0 if i == k else -0.5
    elif kind == "general":
        L = rng.normal(size=(3, 3))
        L -= np.eye(3) * np.trace(L) / 3
    elif kind == "trace":
        L = rng.normal(size=(3, 3))
    else:
        raise ValueError(kind)
    D = (L + L.T) / 2
    s = np.abs(np.linalg.eigvalsh(D)).max()
    if s > 0:
        L = L / s
    return L


L_KINDS = ["simple", "pure", "axisym", "general", "trace"]


def volumes(rng, n, kind):
    if kind == "uniform":
        return np.full(n, 1.0 / n)
    if kind == "dirichlet":
        f = rng.dirichlet(np.ones(n))
        return f / f.sum()
    if kind == "dominant":
        f = rng.dirichlet(np.ones(n)) * 1e-3
        f[rng.integers(n)] += 1.0
        return f / f.sum()
    if kind == "zeros":
        f = rng.dirichlet(np.ones(n))
        f[rng.random(n) < 0.3] = 0.0
        if f.sum() == 0:
            f[0] = 1.0
        return f / f.sum()
    raise ValueError(kind)


F_KINDS = ["uniform", "dirichlet", "dominant", "zeros"]


def orientations(rng, n, kind):
    if kind == "haar":
        return rand_rot(rng, n)
    if kind == "aligned":
        return np.array([SIGNED_PERMS[rng.integers(24)] for _ in range(n)])
    if kind == "near_aligned":
        base = np.array([SIGNED_PERMS[rng.integers(24)] for _ in range(n)])
        pert = Rotation.from_rotvec(rng.normal(size=(n, 3)) * 1e-3).as_matrix()
        return np.einsum("nij,njk->nik", base, pert)
    raise ValueError(kind)


O_KINDS = ["haar", "haar", "haar", "aligned", "near_aligned"]


def params(rng):
    return dict(
        p=float(rng.uniform(1, 2)), nexp=float(rng.uniform(2, 5)), lam=float(rng.uniform(0, 10)),
        M=float(rng.uniform(0, 200)), phi=float(rng.uniform(0.05, 1.0)),
    )


def case(rng, n_grains=None, pair=None, regime=None, okind=None, lkind=None, fkind=None):
    n = int(n_grains if n_grains is not None else rng.integers(1, 65))
    pair = pair if pair is not None else VALID_PAIRS[rng.integers(6)]
    regime = int(regime if regime is not None else (4, 6)[rng.integers(2)])
    okind = okind or O_KINDS[rng.integers(len(O_KINDS))]
    lkind = lkind or L_KINDS[rng.integers(len(L_KINDS))]
    fkind = fkind or F_KINDS[rng.integers(len(F_KINDS))]
    L = velocity_gradient(rng, lkind)
    c = dict(regime=regime, phase=pair[0], fabric=pair[1], ng=n,
             O=orientations(rng, n, okind), f=volumes(rng, n, fkind),
             L=L, D=(L + L.T) / 2, S=np.eye(3), kinds=(okind, lkind, fkind))
    c.update(params(rng))
    return c


def block_sizes(tier="quick", cap=None):
    """Grain counts at which a size-dependent code path (block / stride / chunk / slice-bound logic, `[-0:]`
    tails, power-of-two fast paths) changes behaviour: every power of two up to 2^14 (thorough: 2^16) with both
    neighbours, and multiples of 64 / 100 / 128 / 256 / 1000 / 1024.  Added after the seeded change C03d (mean strain
    energy summed in blocks of 128: wrong exactly when n_grains is a multiple of 128), which no generator
    reached -- sizes were 1..64 and round decimal numbers."""
    kmax = 14 if tier == "quick" else 16
    s = set()
    for k in range(kmax + 1):
        s |= {2 ** k - 1, 2 ** k, 2 ** k + 1}
    mult = {64: (1, 2, 3, 5), 100: (1, 2, 3, 5, 10), 128: (1, 2, 3, 5, 7), 256: (1, 3, 5), 1000: (1, 2, 3, 5, 10), 1024: (1, 2, 3, 5, 9)}
    if tier != "quick":
        mult = {64: range(1, 17), 100: range(1, 21), 128: range(1, 33), 256: range(1, 17), 1000: (1, 2, 3, 5, 10, 20, 50, 100),
                1024: range(1, 33)}
    for b, ks in mult.items():
        s |= {b * k for k in ks}
    return sorted(x for x in s if x >= 1 and (cap is None or x <= cap))


def block_cases(rng, tier="quick", cap=None, both_regimes_upto=2049):
    """one `derivatives` case per block-boundary size (both dislocation regimes up to `both_regimes_upto` grains,
    alternating above), phase/fabric pairs and volume families rotating, Haar orientations, M* > 0"""
    out = []
    for i, n in enumerate(block_sizes(tier, cap)):
        regimes = (4, 6) if n <= both_regimes_upto else ((4, 6)[i % 2],)
        for j, regime in enumerate(regimes):
            c = case(rng, n_grains=n, pair=VALID_PAIRS[(i + j) % 6], regime=regime, okind="haar",
                     lkind=L_KINDS[(i + 2 * j) % len(L_KINDS)], fkind=("dirichlet", "uniform", "dominant")[(i + j) % 3])
            c["M"] = max(c["M"], 1.0)
            c["kinds"] = c["kinds"] + ("block",)
            out.append(c)
    return out


def flat_inputs(c):
    return (list(c["O"].reshape(-1)) + list(c["f"]) + list(c["D"].reshape(-1))
            + list(c["L"].reshape(-1)) + list(c["S"].reshape(-1))
            + [c["p"], c["nexp"], c["lam"], c["M"], c["phi"]])


def call_impl(core, c):
    return core.derivatives(
        c["regime"], c["phase"], c["fabric"], c["ng"],
        np.ascontiguousarray(c["O"], dtype=float), np.ascontiguousarray(c["f"], dtype=float),
        np.ascontiguousarray(c["D"], dtype=float), np.ascontiguousarray(c["L"], dtype=float),
        np.ascontiguousarray(c["S"], dtype=float),
        c["p"], c["nexp"], c["lam"], c["M"], c["phi"])


CRSS = {(0, 0): [1, 2, 3, math.inf], (0, 1): [3, 2, 1, math.inf], (0, 2): [3, 2, math.inf, 1],
        (0, 3): [1, 1, 3, math.inf], (0, 4): [3, 1, 2, math.inf], (1, 5): [math.inf] * 3 + [1]}


def activities(c):
    """|I_s / tau_s| per grain, computed independently (for tie / degeneracy detection)."""
    A, D = c["O"], c["D"]
    inv = np.stack([
        np.einsum("ij,ni,nj->n", D, A[:, 0], A[:, 1]),
        np.einsum("ij,ni,nj->n", D, A[:, 0], A[:, 2]),
        np.einsum("ij,ni,nj->n", D, A[:, 2], A[:, 1]),
        np.einsum("ij,ni,nj->n", D, A[:, 2], A[:, 0])], axis=1)
    tau = np.array(CRSS.get((c["phase"], c["fabric"]), [1, 1, 1, 1]), dtype=float)
    return np.abs(inv / tau), inv


def tie_class(c, rel=1e-9):
    """How a case sits relative to the activity ties of the model:
      "none"          no grain within `rel` (relative) of a tie, no tiny activities
      "continuous"    near ties (gap > 0) only between the two or three MOST active systems of a grain.  The published model is
                      continuous there: swapping the softest system with an (almost) equally active one multiplies every relative
                      slip rate by 1/r and the fitted slip rate by r (|r| = 1 + O(gap)), so Schmid tensor x slip rate, the spin and
                      |slip rate| (strain energy) change by O(n gap); the intermediate and the minimum system obey the same formula.
                      Model and code may order such systems differently (rounding) yet must agree to O(n gap): compared at 1e-7.
      "discontinuous" a near tie involving the LEAST active system (it is switched off: a jump of |r|^n), activities in (0, 1e-12)
                      (exact-zero tests), enstatite at its 1e-15 threshold: excluded from value comparison and counted.
    Exact ties (gap = 0) are resolved identically by the stable sort in model and implementation and are compared as usual."""
    act, inv = activities(c)
    if c["phase"] == 1:
        a = np.abs(inv[:, 3])
        return "discontinuous" if bool(np.any((a > 0) & (np.abs(a - 1e-15) < 1e-17))) else "none"
    s = np.sort(act, axis=1)
    gaps = np.diff(s, axis=1)
    scale = np.maximum(s[:, 1:], 1e-300)
    tie = (gaps / scale < rel) & (s[:, 1:] > 0) & (gaps > 0)
    tiny = (act > 0) & (act < 1e-12)
    if bool(tie[:, 0].any() or tiny.any()):
        return "discontinuous"
    return "continuous" if bool(tie[:, 1:].any()) else "none"


# entry of the crystal-frame strain rate A D A^T that each slip invariant reads: I_1 = D'_01, I_2 = D'_02, I_3 = D'_21, I_4 = D'_20
INV_ENTRY = {0: (0, 1), 1: (0, 2), 2: (1, 2), 3: (0, 2)}
TIE_GAPS = (0.0, 1e-16, 3e-16, 1e-15, 1e-14, 1e-13, 1e-12, 1e-11, 1e-10, 5e-10)


def near_tie_case(rng, fabric, sa, sb, opposite, gap, regime=4, ngen=2, symmetric=False):
    """An olivine aggregate whose grain 0 has slip systems sa, sb (0-based, finite CRSS, different invariants) ALMOST equally
    active: |I_a / tau_a| = |I_b / tau_b| (1 + gap) up to rounding, invariants of OPPOSITE (or equal) sign; the third
    independent invariant mostly smaller (so that the tie is between the two most active systems), sometimes larger.
    The crystal-frame strain rate is prescribed and rotated into the external frame by the grain's (Haar, or for
    `symmetric` axis-aligned-times-rotation-about-a-crystal-axis) orientation: rounding of A^T D' A and of the invariants
    computed back from it turns gap = 0 into a near tie at the 1e-16 level.  ngen generic grains follow."""
    tau = CRSS[(0, fabric)]
    ea, eb = INV_ENTRY[sa], INV_ENTRY[sb]
    assert ea != eb and math.isfinite(tau[sa]) and math.isfinite(tau[sb])
    Dp = np.zeros((3, 3))
    sg = 1.0 if rng.random() < 0.5 else -1.0
    va, vb = sg * tau[sa] * (1.0 + gap), (-sg if opposite else sg) * tau[sb]
    Dp[ea] = Dp[ea[::-1]] = va
    Dp[eb] = Dp[eb[::-1]] = vb
    free = [e for e in ((0, 1), (0, 2), (1, 2)) if e not in (ea, eb)][0]
    tfree = min(tau[k] for k, e in INV_ENTRY.items() if e == free)
    if math.isfinite(tfree):
        rho = float(rng.uniform(0.05, 0.9)) if rng.random() < 0.75 else float(rng.uniform(1.1, 3.0))
        Dp[free] = Dp[free[::-1]] = tfree * rho * (1.0 if rng.random() < 0.5 else -1.0)
    else:
        Dp[free] = Dp[free[::-1]] = float(rng.normal())
    d = rng.normal(size=3) * 0.3
    Dp += np.diag(d - d.mean())
    if symmetric:
        A0 = SIGNED_PERMS[int(rng.integers(24))]
    else:
        A0 = rand_rot(rng, 1)[0]
    D = A0.T @ Dp @ A0
    D = (D + D.T) / 2
    w = rng.normal(size=3)
    L = D + np.array([[0.0, -w[2], w[1]], [w[2], 0.0, -w[0]], [-w[1], w[0], 0.0]])
    sc = float(np.abs(np.linalg.eigvalsh(D)).max())
    L, D = L / sc, D / sc
    n = 1 + ngen
    O = np.concatenate([A0[None], rand_rot(rng, ngen)]) if ngen else A0[None].copy()
    c = dict(regime=int(regime), phase=0, fabric=int(fabric), ng=n, O=O,
             f=volumes(rng, n, ("uniform", "dirichlet")[int(rng.integers(2))]), L=L, D=D, S=np.eye(3),
             kinds=("near_tie", f"sys{sa + 1}~sys{sb + 1}:{'opposite' if opposite else 'same'}:gap{gap:g}" + (":symmetric" if symmetric else ""), "tie"))
    c.update(params(rng))
    c["M"] = max(c["M"], 1.0)
    return c


def rotation_about_axis_case(rng, fabric, opposite, regime=4, ngen=1, delta=0.0):
    """The natural witness: a grain rotated about its [100] axis by the angle at which (010)[100] and (001)[100] are equally
    active in simple shear along [100] (45 degrees for D-type olivine), cos / sin evaluated in binary64 (they differ in the last
    bit), +- delta radians; opposite: the two invariants have opposite signs (rotation by +theta), else equal signs (-theta)."""
    tau = CRSS[(0, fabric)]
    t1, t2 = tau[0], min(tau[1], tau[3])
    th = math.atan2(t2, t1) + delta           # I_1 = cos th, I_2 = I_4 = -+ sin th
    if not opposite:
        th = -th
    cth, sth = math.cos(th), math.sin(th)
    A0 = np.array([[1.0, 0.0, 0.0], [0.0, cth, sth], [0.0, -sth, cth]])
    L = np.zeros((3, 3))
    L[0, 1] = 2.0
    n = 1 + ngen
    O = np.concatenate([A0[None], rand_rot(rng, ngen)]) if ngen else A0[None].copy()
    c = dict(regime=int(regime), phase=0, fabric=int(fabric), ng=n, O=O, f=volumes(rng, n, "uniform"), L=L, D=(L + L.T) / 2,
             S=np.eye(3), kinds=("near_tie", f"rotation about [100] by atan(tau2/tau1){delta:+g}:{'opposite' if opposite else 'same'}", "tie"))
    c.update(params(rng))
    c["M"] = max(c["M"], 1.0)
    return c


def near_tie_cases(seed, tier="quick"):
    """Near ties of slip-system activity (relative gap 0 .. 5e-10, NOT exact ties) for every olivine fabric, every pair of
    systems with finite CRSS and independent invariants, opposite and equal signs of the two invariants, both regimes."""
    rng = np.random.default_rng([int(seed), 0xC02D])
    out = []
    reps = 1 if tier == "quick" else 6
    for rep in range(reps):
        for fabric in range(5):
            tau = CRSS[(0, fabric)]
            fin = [k for k in range(4) if math.isfinite(tau[k])]
            pairs = [(a, b) for a in fin for b in fin if a != b and INV_ENTRY[a] != INV_ENTRY[b]]
            for i, (a, b) in enumerate(pairs):
                for opposite in (True, False):
                    gap = TIE_GAPS[int(rng.integers(len(TIE_GAPS)))]
                    out.append(near_tie_case(rng, fabric, a, b, opposite, gap, regime=(4, 6)[(i + rep + opposite) % 2],
                                             ngen=int(rng.integers(0, 4)), symmetric=bool(rng.random() < 0.25)))
            for opposite in (True, False):
                for delta in (0.0, float(rng.uniform(-1e-11, 1e-11)), float(rng.uniform(-2e-16, 2e-16))):
                    out.append(rotation_about_axis_case(rng, fabric, opposite, regime=(4, 6)[int(rng.integers(2))],
                                                        ngen=int(rng.integers(0, 3)), delta=delta))
    return out


def near_discontinuity(c, rel=1e-9):
    """the case sits at a DISCONTINUITY of the model (see tie_class): excluded from value comparison"""
    return tie_class(c, rel) == "discontinuous"
