"""Input generators for pydrex.core.derivatives (shared by C02, C03, C04, C07)."""
from __future__ import annotations

import itertools
import math

import numpy as np
from scipy.spatial.transform import Rotation

VALID_PAIRS = [(0, 0), (0, 1), (0, 2), (0, 3), (0, 4), (1, 5)]


def signed_perms():
    out = []
    for perm in itertools.permutations(range(3)):
        for signs in itertools.product((1, -1), repeat=3):
            m = np.zeros((3, 3))
            for i, (p, s) in enumerate(zip(perm, signs)):
                m[i, p] = s
            if np.linalg.det(m) > 0:
                out.append(m)
    return out


SIGNED_PERMS = signed_perms()


def rand_rot(rng, n):
    return Rotation.random(n, random_state=rng.integers(0, 2**31 - 1)).as_matrix()


def velocity_gradient(rng, kind):
    L = np.zeros((3, 3))
    if kind == "simple":
        i, j = [(0, 1), (0, 2), (1, 0), (1, 2), (2, 0), (2, 1)][rng.integers(6)]
        L[i, j] = 2.0
    elif kind == "pure":
        i, j = [(0, 1), (0, 2), (1, 2)][rng.integers(3)]
        L[i, i], L[j, j] = 1.0, -1.0
    elif kind == "axisym":
        k = rng.integers(3)
        for i in range(3):
            L[i, i] = 1.0 if i == k else -0.5
    elif kind == "general":
        L = rng.normal(size=(3, 3))
        L -= np.eye(3) * np.trace(L) / 3
    elif kind == "trace":
        L = rng.normal(size=(3, 3))
    else:
        raise ValueError(kind)
    D = (L + L.T) / 2
    s = np.abs(np.linalg.eigvalsh(D)).max()
    if s > 0:
        L = L / s
    return L


L_KINDS = ["simple", "pure", "axisym", "general", "trace"]


def volumes(rng, n, kind):
    if kind == "uniform":
        return np.full(n, 1.0 / n)
    if kind == "dirichlet":
        f = rng.dirichlet(np.ones(n))
        return f / f.sum()
    if kind == "dominant":
        f = rng.dirichlet(np.ones(n)) * 1e-3
        f[rng.integers(n)] += 1.0
        return f / f.sum()
    if kind == "zeros":
        f = rng.dirichlet(np.ones(n))
        f[rng.random(n) < 0.3] = 0.0
        if f.sum() == 0:
            f[0] = 1.0
        return f / f.sum()
    raise ValueError(kind)


F_KINDS = ["uniform", "dirichlet", "dominant", "zeros"]


def orientations(rng, n, kind):
    if kind == "haar":
        return rand_rot(rng, n)
    if kind == "aligned":
        return np.array([SIGNED_PERMS[rng.integers(24)] for _ in range(n)])
    if kind == "near_aligned":
        base = np.array([SIGNED_PERMS[rng.integers(24)] for _ in range(n)])
        pert = Rotation.from_rotvec(rng.normal(size=(n, 3)) * 1e-3).as_matrix()
        return np.einsum("nij,njk->nik", base, pert)
    raise ValueError(kind)


O_KINDS = ["haar", "haar", "haar", "aligned", "near_aligned"]


def params(rng):
    return dict(
        p=float(rng.uniform(1, 2)), nexp=float(rng.uniform(2, 5)), lam=float(rng.uniform(0, 10)),
        M=float(rng.uniform(0, 200)), phi=float(rng.uniform(0.05, 1.0)),
    )


def case(rng, n_grains=None, pair=None, regime=None, okind=None, lkind=None, fkind=None):
    n = int(n_grains if n_grains is not None else rng.integers(1, 65))
    pair = pair if pair is not None else VALID_PAIRS[rng.integers(6)]
    regime = int(regime if regime is not None else (4, 6)[rng.integers(2)])
    okind = okind or O_KINDS[rng.integers(len(O_KINDS))]
    lkind = lkind or L_KINDS[rng.integers(len(L_KINDS))]
    fkind = fkind or F_KINDS[rng.integers(len(F_KINDS))]
    L = velocity_gradient(rng, lkind)
    c = dict(regime=regime, phase=pair[0], fabric=pair[1], ng=n,
             O=orientations(rng, n, okind), f=volumes(rng, n, fkind),
             L=L, D=(L + L.T) / 2, S=np.eye(3), kinds=(okind, lkind, fkind))
    c.update(params(rng))
    return c


def block_sizes(tier="quick", cap=None):
    """Grain counts at which a size-dependent code path (block / stride / chunk / slice-bound logic, `[-0:]`
    tails, power-of-two fast paths) changes behaviour: every power of two up to 2^14 (thorough: 2^16) with both
    neighbours, and multiples of 64 / 100 / 128 / 256 / 1000 / 1024.  Added after the seeded change C03d (mean strain
    energy summed in blocks of 128: wrong exactly when n_grains is a multiple of 128), which no generator
    reached -- sizes were 1..64 and round decimal numbers."""
    kmax = 14 if tier == "quick" else 16
    s = set()
    for k in range(kmax + 1):
        s |= {2 ** k - 1, 2 ** k, 2 ** k + 1}
    mult = {64: (1, 2, 3, 5), 100: (1, 2, 3, 5, 10), 128: (1, 2, 3, 5, 7), 256: (1, 3, 5), 1000: (1, 2, 3, 5, 10), 1024: (1, 2, 3, 5, 9)}
    if tier != "quick":
        mult = {64: range(1, 17), 100: range(1, 21), 128: range(1, 33), 256: range(1, 17), 1000: (1, 2, 3, 5, 10, 20, 50, 100),
                1024: range(1, 33)}
    for b, ks in mult.items():
        s |= {b * k for k in ks}
    return sorted(x for x in s if x >= 1 and (cap is None or x <= cap))


def block_cases(rng, tier="quick", cap=None, both_regimes_upto=2049):
    """one `derivatives` case per block-boundary size (both dislocation regimes up to `both_regimes_upto` grains,
    alternating above), phase/fabric pairs and volume families rotating, Haar orientations, M* > 0"""
    out = []
    for i, n in enumerate(block_sizes(tier, cap)):
        regimes = (4, 6) if n <= both_regimes_upto else ((4, 6)[i % 2],)
        for j, regime in enumerate(regimes):
            c = case(rng, n_grains=n, pair=VALID_PAIRS[(i + j) % 6], regime=regime, okind="haar",
                     lkind=L_KINDS[(i + 2 * j) % len(L_KINDS)], fkind=("dirichlet", "uniform", "dominant")[(i + j) % 3])
            c["M"] = max(c["M"], 1.0)
            c["kinds"] = c["kinds"] + ("block",)
            out.append(c)
    return out


# --------------------------------------------------------------------------
# parameter values at special points, magnitudes of L, presentations of the arguments (round 6)
# --------------------------------------------------------------------------
N_SPECIAL = (2.0, 2.5, 3.0, 3.5, 4.0, 4.5, 5.0)          # range ends, integers, half-integers (n - 1 odd / even integer part)
P_SPECIAL = (1.0, 1.5, 2.0)


def special_params(rng, nexp=None, p=None):
    """exponents on the grid of integers / half-integers / range ends, the other parameters at range ends or inside"""
    return dict(p=float(p if p is not None else P_SPECIAL[int(rng.integers(3))]),
                nexp=float(nexp if nexp is not None else N_SPECIAL[int(rng.integers(len(N_SPECIAL)))]),
                lam=float((0.0, 10.0, rng.uniform(0, 10))[int(rng.integers(3))]),
                M=float((200.0, 1.0, rng.uniform(1, 200))[int(rng.integers(3))]),
                phi=float((1.0, rng.uniform(0.05, 1.0))[int(rng.integers(2))]))


def param_grid_cases(seed, tier="quick"):
    """every deformation exponent of N_SPECIAL x every valid (phase, fabric) pair x both regimes (stress exponent rotating over
    P_SPECIAL), 2-5 Haar grains with several active systems of either sign, straining flows: an exponent-dependent shortcut
    (integer / half-integer fast paths of the power law) is invisible to uniform draws from [2, 5]"""
    rng = np.random.default_rng([int(seed), 0xC04E])
    out = []
    for rep in range(1 if tier == "quick" else 4):
        for i, nexp in enumerate(N_SPECIAL):
            for j, pair in enumerate(VALID_PAIRS):
                c = case(rng, n_grains=int(rng.integers(2, 6)), pair=pair, regime=(4, 6)[(i + j + rep) % 2], okind="haar",
                         lkind=("general", "simple", "trace")[int(rng.integers(3))], fkind=("dirichlet", "uniform")[int(rng.integers(2))])
                c.update(special_params(rng, nexp=nexp, p=P_SPECIAL[(i + j) % 3]))
                c["kinds"] = tuple(c["kinds"]) + (f"param_grid:n={nexp:g}",)
                out.append(c)
    return out


MAGNITUDES = (1e-15, 1e-14, 1e-13, 1e-12, 1e-9, 1e-6, 1e-3, 1e3, 1e6, 1e9, 1e12)


def magnitude_cases(seed, tier="quick"):
    """velocity gradient and strain rate of magnitude 1e-15 .. 1e12 handed DIRECTLY to core.derivatives (the public function does
    not require them to be non-dimensional): absolute cut-offs on the outputs or inputs show only here.  Marked `relscale`:
    model and implementation are compared, and skewness is judged, RELATIVE to the size of the returned block."""
    rng = np.random.default_rng([int(seed), 0xC03E])
    out = []
    for rep in range(1 if tier == "quick" else 4):
        for i, mag in enumerate(MAGNITUDES):
            for pair in ((0, int(rng.integers(5))), (1, 5)):
                c = case(rng, n_grains=int(rng.integers(1, 6)), pair=pair, regime=(4, 6)[(i + rep) % 2], okind="haar",
                         lkind=L_KINDS[int(rng.integers(len(L_KINDS)))], fkind=("dirichlet", "uniform")[int(rng.integers(2))])
                c["L"], c["D"] = c["L"] * mag, c["D"] * mag
                c["M"] = max(c["M"], 1.0)
                c["relscale"] = True
                c["kinds"] = tuple(c["kinds"]) + (f"magnitude:{mag:g}",)
                out.append(c)
    return out


SPELLINGS = ("enum", "np.int64", "np.uint8", "np.int32", "mixed")


def spell_ids(kind, regime, phase, fabric):
    """the three ordinals in another legal spelling (enum members need valid ordinals)"""
    import pydrex
    if kind == "enum":
        return pydrex.DeformationRegime(regime), pydrex.MineralPhase(phase), pydrex.MineralFabric(fabric)
    if kind == "mixed":
        return pydrex.DeformationRegime(regime), int(phase), np.uint8(fabric)
    if kind.startswith("np."):
        t = getattr(np, kind[3:])
        return t(regime), t(phase), t(fabric)
    return int(regime), int(phase), int(fabric)


LAYOUTS = ("O:fortran", "O:strided", "O:readonly", "L:fortran", "L:readonly", "D:strided", "f:strided", "f:readonly", "S:fortran")


DTYPE_KINDS = {"int64": np.int64, "int32": np.int32, "int8": np.int8, "float32": np.float32, "float16": np.float16}


def relayout(a, how):
    """the same values in another memory presentation (layout) or another dtype -- a dtype only when every value is exactly
    representable in it (otherwise the float64 array is returned unchanged: e.g. the rotated partner of an integer-valued case)"""
    a = np.asarray(a, dtype=float)
    if how in DTYPE_KINDS:
        with np.errstate(all="ignore"):
            b = a.astype(DTYPE_KINDS[how])
        return b if np.array_equal(b.astype(float), a) else a
    if how == "fortran":
        return np.asfortranarray(a) if a.ndim > 1 else a
    if how == "strided":
        big = np.zeros(a.shape[:-1] + (2 * a.shape[-1],))
        v = big[..., ::2]
        v[...] = a
        return v
    if how == "readonly":
        b = a.copy()
        b.setflags(write=False)
        return b
    raise ValueError(how)


def call_presented(core, c, spelling="int", layout=None, keyword=False):
    """derivatives on the SAME values with the ordinals spelled differently, one array argument in another memory layout,
    positional or keyword arguments"""
    reg, ph, fa = spell_ids(spelling, c["regime"], c["phase"], c["fabric"])
    arr = dict(O=np.ascontiguousarray(c["O"], dtype=float), f=np.ascontiguousarray(c["f"], dtype=float),
               D=np.ascontiguousarray(c["D"], dtype=float), L=np.ascontiguousarray(c["L"], dtype=float),
               S=np.ascontiguousarray(c["S"], dtype=float))
    if layout:
        k, how = layout.split(":")
        for key in (list("OfDL") if k == "all" else list(k)):     # "O", "L", ... one argument; "OL", "all" (= O, f, D, L): several in the same presentation
            arr[key] = relayout(arr[key], how)
    if keyword:
        return core.derivatives(regime=reg, phase=ph, fabric=fa, n_grains=c["ng"], orientations=arr["O"], fractions=arr["f"],
                                strain_rate=arr["D"], velocity_gradient=arr["L"], deformation_gradient_spin=arr["S"],
                                stress_exponent=c["p"], deformation_exponent=c["nexp"], nucleation_efficiency=c["lam"],
                                gbm_mobility=c["M"], volume_fraction=c["phi"])
    return core.derivatives(reg, ph, fa, c["ng"], arr["O"], arr["f"], arr["D"], arr["L"], arr["S"],
                            c["p"], c["nexp"], c["lam"], c["M"], c["phi"])


def presentation_plan(seed, tier="quick"):
    """(case, spelling, layout, keyword): which presentations a run tries.  Every numba specialisation costs 2-6 s of
    compilation per process, so the quick tier tries each spelling / layout once and the thorough tier all of them on every case."""
    rng = np.random.default_rng([int(seed), 0xC02E])
    cases = []
    for j, pair in enumerate(VALID_PAIRS):
        for regime in (4, 6):
            c = case(rng, n_grains=int(rng.integers(2, 7)), pair=pair, regime=regime, okind="haar",
                     lkind=("general", "simple", "trace")[int(rng.integers(3))], fkind="dirichlet")
            c["M"] = max(c["M"], 1.0)
            c["kinds"] = tuple(c["kinds"]) + ("presentation",)
            cases.append(c)
    for regime in (0, 7, 1):         # the regimes without migration, valid spellings only
        c = case(rng, n_grains=3, pair=VALID_PAIRS[int(rng.integers(6))], regime=regime, okind="haar", lkind="general", fkind="dirichlet")
        c["kinds"] = tuple(c["kinds"]) + ("presentation",)
        cases.append(c)
    spell_q = ("enum", "np.int64", "np.uint8", "mixed")
    lay_q = ("O:fortran", "O:strided", "L:fortran", "f:strided", "O:readonly")
    plan = []
    for i, c in enumerate(cases):
        for sp in (SPELLINGS if tier != "quick" else spell_q):
            plan.append((c, sp, None, bool((i + len(plan)) % 2)))
        lays = LAYOUTS if tier != "quick" else (lay_q[i % len(lay_q)],)
        for lay in lays:
            plan.append((c, "int", lay, False))
    return plan


DTYPE_LAYOUTS = ("O:int64", "L:int64", "OL:int64", "O:int32", "L:int32", "O:float32", "L:float32", "D:float32", "f:float32",
                 "all:float32", "OLD:float32", "L:int8", "O:float16", "OL:int32")


def dyadic_volumes(rng, n, bits=10):
    """volume fractions k_i / 2^bits summing to exactly 1 (exactly representable in binary32 and binary16)"""
    cuts = np.sort(rng.choice(np.arange(1, 2 ** bits), size=n - 1, replace=False)) if n > 1 else np.array([], dtype=int)
    k = np.diff(np.concatenate([[0], cuts, [2 ** bits]]))
    return k.astype(float) / 2 ** bits


def dtype_plan(seed, tier="quick"):
    """(case, layout): derivatives on values that are exactly representable in narrower / integer dtypes, handed over IN those
    dtypes -- axis-aligned grains written as 0/+-1 integer matrices, velocity gradients written with integer literals (odd and even
    antisymmetric differences, the way the package's own tests write them), dyadic volume fractions.  The rates are functions of
    the VALUES: a buffer that inherits the dtype of an argument (np.zeros_like / np.empty_like of an integer array) truncates them
    (seeded changes C02f, C04f).  Two sub-families: aligned integer O with integer L (every dtype presentation applies), and Haar
    O (float64) with integer L (generic grains: no exact ties, used by the frame-indifference check)."""
    rng = np.random.default_rng([int(seed), 0xD7E])
    plan = []
    lays = DTYPE_LAYOUTS if tier != "quick" else DTYPE_LAYOUTS[:11]
    k = 0
    for rep in range(1 if tier == "quick" else 6):
        for pair in VALID_PAIRS:
            for regime in (4, 6):
                for okind in ("aligned", "haar"):
                    n = int(rng.integers(1, 5))
                    for _ in range(50):
                        c = case(rng, n_grains=n, pair=pair, regime=regime, okind=okind, lkind="general", fkind="uniform")
                        L = rng.integers(-4, 5, size=(3, 3)).astype(float)
                        if not np.any((L - L.T) % 2) or not np.any(L + L.T):
                            continue                       # want an odd antisymmetric difference and a non-zero strain rate
                        c["L"], c["D"], c["f"] = L, (L + L.T) / 2, dyadic_volumes(rng, n)
                        c["M"] = max(c["M"], 1.0)
                        if tie_class(c) == "none":
                            break
                    else:
                        continue
                    c["kinds"] = (okind, "integer-valued L", "dyadic volumes", "dtype")
                    ls = [x for x in lays if okind == "aligned" or not set(x.split(":")[0]) & set("Oa")]
                    lay = ls[k % len(ls)]
                    k += 1
                    plan.append((c, lay))
    return plan


def zero_invariant_dispatch_cases(rng):
    """every (regime, phase, fabric) of the dispatch box on inputs whose slip invariants ALL vanish exactly: axis-aligned grains
    with a strain rate that is diagonal in the same frame, and an exactly zero strain rate (rigid rotation / rest).  A validation
    that sits behind an early exit for 'nothing can slip' is skipped exactly here."""
    cases = []
    for regime in range(-2, 11):
        for phase in range(0, 3):
            for fabric in range(0, 7):
                for kind in ("aligned_diagonal", "zero_strain_rate"):
                    c = case(rng, n_grains=2, pair=(phase, fabric), regime=regime, okind="aligned", lkind="pure", fkind="uniform")
                    if kind == "aligned_diagonal":
                        d = rng.normal(size=3)
                        d -= d.mean()
                        c["D"] = np.diag(d / np.abs(d).max())
                        c["L"] = c["D"].copy()
                    else:
                        w = rng.normal(size=3)
                        c["D"] = np.zeros((3, 3))
                        c["L"] = np.array([[0.0, -w[2], w[1]], [w[2], 0.0, -w[0]], [-w[1], w[0], 0.0]])
                    c["kinds"] = ("aligned", kind, "uniform")
                    cases.append(c)
    return cases


def flat_inputs(c):
    return (list(c["O"].reshape(-1)) + list(c["f"]) + list(c["D"].reshape(-1))
            + list(c["L"].reshape(-1)) + list(c["S"].reshape(-1))
            + [c["p"], c["nexp"], c["lam"], c["M"], c["phi"]])


def call_impl(core, c):
    return core.derivatives(
        c["regime"], c["phase"], c["fabric"], c["ng"],
        np.ascontiguousarray(c["O"], dtype=float), np.ascontiguousarray(c["f"], dtype=float),
        np.ascontiguousarray(c["D"], dtype=float), np.ascontiguousarray(c["L"], dtype=float),
        np.ascontiguousarray(c["S"], dtype=float),
        c["p"], c["nexp"], c["lam"], c["M"], c["phi"])


CRSS = {(0, 0): [1, 2, 3, math.inf], (0, 1): [3, 2, 1, math.inf], (0, 2): [3, 2, math.inf, 1],
        (0, 3): [1, 1, 3, math.inf], (0, 4): [3, 1, 2, math.inf], (1, 5): [math.inf] * 3 + [1]}


def activities(c):
    """|I_s / tau_s| per grain, computed independently (for tie / degeneracy detection)."""
    A, D = c["O"], c["D"]
    inv = np.stack([
        np.einsum("ij,ni,nj->n", D, A[:, 0], A[:, 1]),
        np.einsum("ij,ni,nj->n", D, A[:, 0], A[:, 2]),
        np.einsum("ij,ni,nj->n", D, A[:, 2], A[:, 1]),
        np.einsum("ij,ni,nj->n", D, A[:, 2], A[:, 0])], axis=1)
    tau = np.array(CRSS.get((c["phase"], c["fabric"]), [1, 1, 1, 1]), dtype=float)
    return np.abs(inv / tau), inv


def tie_class(c, rel=1e-9):
    """How a case sits relative to the activity ties of the model:
      "none"          no grain within `rel` (relative) of a tie, no tiny activities
      "continuous"    near ties (gap > 0) only between the two or three MOST active systems of a grain.  The published model is
                      continuous there: swapping the softest system with an (almost) equally active one multiplies every relative
                      slip rate by 1/r and the fitted slip rate by r (|r| = 1 + O(gap)), so Schmid tensor x slip rate, the spin and
                      |slip rate| (strain energy) change by O(n gap); the intermediate and the minimum system obey the same formula.
                      Model and code may order such systems differently (rounding) yet must agree to O(n gap): compared at 1e-7.
      "discontinuous" a near tie involving the LEAST active system (it is switched off: a jump of |r|^n), activities in (0, 1e-12)
                      (exact-zero tests), enstatite at its 1e-15 threshold: excluded from value comparison and counted.
    Exact ties (gap = 0) are resolved identically by the stable sort in model and implementation and are compared as usual."""
    act, inv = activities(c)
    if c["phase"] == 1:
        a = np.abs(inv[:, 3])
        return "discontinuous" if bool(np.any((a > 0) & (np.abs(a - 1e-15) < 1e-17))) else "none"
    s = np.sort(act, axis=1)
    gaps = np.diff(s, axis=1)
    scale = np.maximum(s[:, 1:], 1e-300)
    tie = (gaps / scale < rel) & (s[:, 1:] > 0) & (gaps > 0)
    # rounding-level activities where exact arithmetic gives 0 (olivine has no absolute threshold: relative to the size of D,
    # which is 1 for non-dimensional inputs)
    tiny = (act > 0) & (act < 1e-12 * max(float(np.abs(c["D"]).max()), 1e-300))
    if bool(tie[:, 0].any() or tiny.any()):
        return "discontinuous"
    return "continuous" if bool(tie[:, 1:].any()) else "none"


# entry of the crystal-frame strain rate A D A^T that each slip invariant reads: I_1 = D'_01, I_2 = D'_02, I_3 = D'_21, I_4 = D'_20
INV_ENTRY = {0: (0, 1), 1: (0, 2), 2: (1, 2), 3: (0, 2)}
TIE_GAPS = (0.0, 1e-16, 3e-16, 1e-15, 1e-14, 1e-13, 1e-12, 1e-11, 1e-10, 5e-10)


def near_tie_case(rng, fabric, sa, sb, opposite, gap, regime=4, ngen=2, symmetric=False):
    """An olivine aggregate whose grain 0 has slip systems sa, sb (0-based, finite CRSS, different invariants) ALMOST equally
    active: |I_a / tau_a| = |I_b / tau_b| (1 + gap) up to rounding, invariants of OPPOSITE (or equal) sign; the third
    independent invariant mostly smaller (so that the tie is between the two most active systems), sometimes larger.
    The crystal-frame strain rate is prescribed and rotated into the external frame by the grain's (Haar, or for
    `symmetric` axis-aligned-times-rotation-about-a-crystal-axis) orientation: rounding of A^T D' A and of the invariants
    computed back from it turns gap = 0 into a near tie at the 1e-16 level.  ngen generic grains follow."""
    tau = CRSS[(0, fabric)]
    ea, eb = INV_ENTRY[sa], INV_ENTRY[sb]
    assert ea != eb and math.isfinite(tau[sa]) and math.isfinite(tau[sb])
    Dp = np.zeros((3, 3))
    sg = 1.0 if rng.random() < 0.5 else -1.0
    va, vb = sg * tau[sa] * (1.0 + gap), (-sg if opposite else sg) * tau[sb]
    Dp[ea] = Dp[ea[::-1]] = va
    Dp[eb] = Dp[eb[::-1]] = vb
    free = [e for e in ((0, 1), (0, 2), (1, 2)) if e not in (ea, eb)][0]
    tfree = min(tau[k] for k, e in INV_ENTRY.items() if e == free)
    if math.isfinite(tfree):
        rho = float(rng.uniform(0.05, 0.9)) if rng.random() < 0.75 else float(rng.uniform(1.1, 3.0))
        Dp[free] = Dp[free[::-1]] = tfree * rho * (1.0 if rng.random() < 0.5 else -1.0)
    else:
        Dp[free] = Dp[free[::-1]] = float(rng.normal())
    d = rng.normal(size=3) * 0.3
    Dp += np.diag(d - d.mean())
    if symmetric:
        A0 = SIGNED_PERMS[int(rng.integers(24))]
    else:
        A0 = rand_rot(rng, 1)[0]
    D = A0.T @ Dp @ A0
    D = (D + D.T) / 2
    w = rng.normal(size=3)
    L = D + np.array([[0.0, -w[2], w[1]], [w[2], 0.0, -w[0]], [-w[1], w[0], 0.0]])
    sc = float(np.abs(np.linalg.eigvalsh(D)).max())
    L, D = L / sc, D / sc
    n = 1 + ngen
    O = np.concatenate([A0[None], rand_rot(rng, ngen)]) if ngen else A0[None].copy()
    c = dict(regime=int(regime), phase=0, fabric=int(fabric), ng=n, O=O,
             f=volumes(rng, n, ("uniform", "dirichlet")[int(rng.integers(2))]), L=L, D=D, S=np.eye(3),
             kinds=("near_tie", f"sys{sa + 1}~sys{sb + 1}:{'opposite' if opposite else 'same'}:gap{gap:g}" + (":symmetric" if symmetric else ""), "tie"))
    c.update(params(rng))
    c["M"] = max(c["M"], 1.0)
    return c


def rotation_about_axis_case(rng, fabric, opposite, regime=4, ngen=1, delta=0.0):
    """The natural witness: a grain rotated about its [100] axis by the angle at which (010)[100] and (001)[100] are equally
    active in simple shear along [100] (45 degrees for D-type olivine), cos / sin evaluated in binary64 (they differ in the last
    bit), +- delta radians; opposite: the two invariants have opposite signs (rotation by +theta), else equal signs (-theta)."""
    tau = CRSS[(0, fabric)]
    t1, t2 = tau[0], min(tau[1], tau[3])
    th = math.atan2(t2, t1) + delta           # I_1 = cos th, I_2 = I_4 = -+ sin th
    if not opposite:
        th = -th
    cth, sth = math.cos(th), math.sin(th)
    A0 = np.array([[1.0, 0.0, 0.0], [0.0, cth, sth], [0.0, -sth, cth]])
    L = np.zeros((3, 3))
    L[0, 1] = 2.0
    n = 1 + ngen
    O = np.concatenate([A0[None], rand_rot(rng, ngen)]) if ngen else A0[None].copy()
    c = dict(regime=int(regime), phase=0, fabric=int(fabric), ng=n, O=O, f=volumes(rng, n, "uniform"), L=L, D=(L + L.T) / 2,
             S=np.eye(3), kinds=("near_tie", f"rotation about [100] by atan(tau2/tau1){delta:+g}:{'opposite' if opposite else 'same'}", "tie"))
    c.update(params(rng))
    c["M"] = max(c["M"], 1.0)
    return c


def near_tie_cases(seed, tier="quick"):
    """Near ties of slip-system activity (relative gap 0 .. 5e-10, NOT exact ties) for every olivine fabric, every pair of
    systems with finite CRSS and independent invariants, opposite and equal signs of the two invariants, both regimes."""
    rng = np.random.default_rng([int(seed), 0xC02D])
    out = []
    reps = 1 if tier == "quick" else 6
    for rep in range(reps):
        for fabric in range(5):
            tau = CRSS[(0, fabric)]
            fin = [k for k in range(4) if math.isfinite(tau[k])]
            pairs = [(a, b) for a in fin for b in fin if a != b and INV_ENTRY[a] != INV_ENTRY[b]]
            for i, (a, b) in enumerate(pairs):
                for opposite in (True, False):
                    gap = TIE_GAPS[int(rng.integers(len(TIE_GAPS)))]
                    out.append(near_tie_case(rng, fabric, a, b, opposite, gap, regime=(4, 6)[(i + rep + opposite) % 2],
                                             ngen=int(rng.integers(0, 4)), symmetric=bool(rng.random() < 0.25)))
            for opposite in (True, False):
                for delta in (0.0, float(rng.uniform(-1e-11, 1e-11)), float(rng.uniform(-2e-16, 2e-16))):
                    out.append(rotation_about_axis_case(rng, fabric, opposite, regime=(4, 6)[int(rng.integers(2))],
                                                        ngen=int(rng.integers(0, 3)), delta=delta))
    return out


def near_discontinuity(c, rel=1e-9):
    """the case sits at a DISCONTINUITY of the model (see tie_class): excluded from value comparison"""
    return tie_class(c, rel) == "discontinuous"
