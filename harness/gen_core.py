"""Input generators for pydrex.core.derivatives (shared by C02, C03, C04, C07)."""
from __future__ import annotations

import itertools
import math

import numpy as np
from scipy.spatial.transform import Rotation

VALID_PAIRS = [(0, 0), (0, 1), (0, 2), (0, 3), (0, 4), (1, 5)]


def signed_perms():
    out = []
    for perm in itertools.permutations(range(3)):
        for signs in itertools.product((1, -1), repeat=3):
            m = np.zeros((3, 3))
            for i, (p, s) in enumerate(zip(perm, signs)):
                m[i, p] = s
            if np.linalg.det(m) > 0:
                out.append(m)
    return out


SIGNED_PERMS = signed_perms()


def rand_rot(rng, n):
    return Rotation.random(n, random_state=rng.integers(0, 2**31 - 1)).as_matrix()


def velocity_gradient(rng, kind):
    L = np.zeros((3, 3))
    if kind == "simple":
        i, j = [(0, 1), (0, 2), (1, 0), (1, 2), (2, 0), (2, 1)][rng.integers(6)]
        L[i, j] = 2.0
    elif kind == "pure":
        i, j = [(0, 1), (0, 2), (1, 2)][rng.integers(3)]
        L[i, i], L[j, j] = 1.0, -1.0
    elif kind == "axisym":
        k = rng.integers(3)
        for i in range(3):
            L[i, i] = 1.0 if i == k else -0.5
    elif kind == "general":
        L = rng.normal(size=(3, 3))
        L -= np.eye(3) * np.trace(L) / 3
    elif kind == "trace":
        L = rng.normal(size=(3, 3))
    else:
        raise ValueError(kind)
    D = (L + L.T) / 2
    s = np.abs(np.linalg.eigvalsh(D)).max()
    if s > 0:
        L = L / s
    return L


L_KINDS = ["simple", "pure", "axisym", "general", "trace"]


def volumes(rng, n, kind):
    if kind == "uniform":
        return np.full(n, 1.0 / n)
    if kind == "dirichlet":
        f = rng.dirichlet(np.ones(n))
        return f / f.sum()
    if kind == "dominant":
        f = rng.dirichlet(np.ones(n)) * 1e-3
        f[rng.integers(n)] += 1.0
        return f / f.sum()
    if kind == "zeros":
        f = rng.dirichlet(np.ones(n))
        f[rng.random(n) < 0.3] = 0.0
        if f.sum() == 0:
            f[0] = 1.0
        return f / f.sum()
    raise ValueError(kind)


F_KINDS = ["uniform", "dirichlet", "dominant", "zeros"]


def orientations(rng, n, kind):
    if kind == "haar":
        return rand_rot(rng, n)
    if kind == "aligned":
        return np.array([SIGNED_PERMS[rng.integers(24)] for _ in range(n)])
    if kind == "near_aligned":
        base = np.array([SIGNED_PERMS[rng.integers(24)] for _ in range(n)])
        pert = Rotation.from_rotvec(rng.normal(size=(n, 3)) * 1e-3).as_matrix()
        return np.einsum("nij,njk->nik", base, pert)
    raise ValueError(kind)


O_KINDS = ["haar", "haar", "haar", "aligned", "near_aligned"]


def params(rng):
    return dict(
        p=float(rng.uniform(1, 2)), nexp=float(rng.uniform(2, 5)), lam=float(rng.uniform(0, 10)),
        M=float(rng.uniform(0, 200)), phi=float(rng.uniform(0.05, 1.0)),
    )


def case(rng, n_grains=None, pair=None, regime=None, okind=None, lkind=None, fkind=None):
    n = int(n_grains if n_grains is not None else rng.integers(1, 65))
    pair = pair if pair is not None else VALID_PAIRS[rng.integers(6)]
    regime = int(regime if regime is not None else (4, 6)[rng.integers(2)])
    okind = okind or O_KINDS[rng.integers(len(O_KINDS))]
    lkind = lkind or L_KINDS[rng.integers(len(L_KINDS))]
    fkind = fkind or F_KINDS[rng.integers(len(F_KINDS))]
    L = velocity_gradient(rng, lkind)
    c = dict(regime=regime, phase=pair[0], fabric=pair[1], ng=n,
             O=orientations(rng, n, okind), f=volumes(rng, n, fkind),
             L=L, D=(L + L.T) / 2, S=np.eye(3), kinds=(okind, lkind, fkind))
    c.update(params(rng))
    return c


def block_sizes(tier="quick", cap=None):
    """Grain counts at which a size-dependent code path (block / stride / chunk / slice-bound logic, `[-0:]`
    tails, power-of-two fast paths) changes behaviour: every power of two up to 2^14 (thorough: 2^16) with both
    neighbours, and multiples of 64 / 128 / 256 / 1000 / 1024.  Added after the seeded change C03d (mean strain
    energy summed in blocks of 128: wrong exactly when n_grains is a multiple of 128), which no generator
    reached -- sizes were 1..64 and round decimal numbers."""
    kmax = 14 if tier == "quick" else 16
    s = set()
    for k in range(kmax + 1):
        s |= {2 ** k - 1, 2 ** k, 2 ** k + 1}
    mult = {64: (1, 2, 3, 5), 128: (1, 2, 3, 5, 7), 256: (1, 3, 5), 1000: (1, 2, 3, 5, 10), 1024: (1, 2, 3, 5, 9)}
    if tier != "quick":
        mult = {64: range(1, 17), 128: range(1, 33), 256: range(1, 17), 1000: (1, 2, 3, 5, 10, 20, 50, 100),
                1024: range(1, 33)}
    for b, ks in mult.items():
        s |= {b * k for k in ks}
    return sorted(x for x in s if x >= 1 and (cap is None or x <= cap))


def block_cases(rng, tier="quick", cap=None, both_regimes_upto=2049):
    """one `derivatives` case per block-boundary size (both dislocation regimes up to `both_regimes_upto` grains,
    alternating above), phase/fabric pairs and volume families rotating, Haar orientations, M* > 0"""
    out = []
    for i, n in enumerate(block_sizes(tier, cap)):
        regimes = (4, 6) if n <= both_regimes_upto else ((4, 6)[i % 2],)
        for j, regime in enumerate(regimes):
            c = case(rng, n_grains=n, pair=VALID_PAIRS[(i + j) % 6], regime=regime, okind="haar",
                     lkind=L_KINDS[(i + 2 * j) % len(L_KINDS)], fkind=("dirichlet", "uniform", "dominant")[(i + j) % 3])
            c["M"] = max(c["M"], 1.0)
            c["kinds"] = c["kinds"] + ("block",)
            out.append(c)
    return out


def flat_inputs(c):
    return (list(c["O"].reshape(-1)) + list(c["f"]) + list(c["D"].reshape(-1))
            + list(c["L"].reshape(-1)) + list(c["S"].reshape(-1))
            + [c["p"], c["nexp"], c["lam"], c["M"], c["phi"]])


def call_impl(core, c):
    return core.derivatives(
        c["regime"], c["phase"], c["fabric"], c["ng"],
        np.ascontiguousarray(c["O"], dtype=float), np.ascontiguousarray(c["f"], dtype=float),
        np.ascontiguousarray(c["D"], dtype=float), np.ascontiguousarray(c["L"], dtype=float),
        np.ascontiguousarray(c["S"], dtype=float),
        c["p"], c["nexp"], c["lam"], c["M"], c["phi"])


CRSS = {(0, 0): [1, 2, 3, math.inf], (0, 1): [3, 2, 1, math.inf], (0, 2): [3, 2, math.inf, 1],
        (0, 3): [1, 1, 3, math.inf], (0, 4): [3, 1, 2, math.inf], (1, 5): [math.inf] * 3 + [1]}


def activities(c):
    """|I_s / tau_s| per grain, computed independently (for tie / degeneracy detection)."""
    A, D = c["O"], c["D"]
    inv = np.stack([
        np.einsum("ij,ni,nj->n", D, A[:, 0], A[:, 1]),
        np.einsum("ij,ni,nj->n", D, A[:, 0], A[:, 2]),
        np.einsum("ij,ni,nj->n", D, A[:, 2], A[:, 1]),
        np.einsum("ij,ni,nj->n", D, A[:, 2], A[:, 0])], axis=1)
    tau = np.array(CRSS.get((c["phase"], c["fabric"]), [1, 1, 1, 1]), dtype=float)
    return np.abs(inv / tau), inv


def near_discontinuity(c, rel=1e-9):
    act, inv = activities(c)
    if c["phase"] == 1:
        # enstatite: threshold 1e-15 on |I_4|, exact-zero test on all invariants
        a = np.abs(inv[:, 3])
        return bool(np.any((a > 0) & (np.abs(a - 1e-15) < 1e-17)))
    s = np.sort(act, axis=1)
    gaps = np.diff(s, axis=1)
    scale = np.maximum(s[:, 1:], 1e-300)
    tie = (gaps / scale < rel) & (s[:, 1:] > 0)
    # ties between two exactly equal activities (e.g. both 0) are resolved identically by
    # a stable sort in model and implementation; only *near* ties are unstable
    tie &= gaps > 0
    tiny = (act > 0) & (act < 1e-12)
    return bool(tie.any() or tiny.any())
