"""Case generators and implementation callers shared by the tensors group (C10, C11, C12)."""
from __future__ import annotations

import numpy as np

import common

GROUP = "tensors"


# --------------------------------------------------------------------------
# random inputs
# --------------------------------------------------------------------------
def haar(rng):
    """Haar-distributed rotation (det +1)."""
    q, r = np.linalg.qr(rng.normal(size=(3, 3)))
    q = q * np.sign(np.diag(r))
    if np.linalg.det(q) < 0:
        q[:, 0] = -q[:, 0]
    return q


def small_rot(rng):
    """rotation by a tiny angle 10^U(-9,-3) about a random axis (near-identity stream)"""
    from scipy.spatial.transform import Rotation
    ax = rng.normal(size=3)
    ax /= np.linalg.norm(ax)
    return Rotation.from_rotvec(ax * 10 ** rng.uniform(-9, -3)).as_matrix()


def sym6(rng, scale=100.0, zeros=0.0):
    a = rng.normal(size=(6, 6)) * scale
    m = (a + a.T) / 2
    if zeros:
        mask = rng.random((6, 6)) < zeros
        mask = np.triu(mask) | np.triu(mask).T
        m[mask] = 0.0
    return m


def spd6(rng, scale=100.0):
    a = rng.normal(size=(6, 6))
    return (a @ a.T + 6 * np.eye(6)) * scale / 6


def ortho_stiffness(rng):
    """random positive-definite orthorhombic stiffness matrix (9 constants)"""
    a = rng.normal(size=(3, 3))
    blk = (a @ a.T + 3 * np.eye(3)) * rng.uniform(30, 120)
    m = np.zeros((6, 6))
    m[:3, :3] = blk
    m[3, 3], m[4, 4], m[5, 5] = rng.uniform(20, 120, size=3)
    return m


OLIVINE = np.array([[320.71, 69.84, 71.22, 0, 0, 0], [69.84, 197.25, 74.8, 0, 0, 0],
                    [71.22, 74.8, 234.32, 0, 0, 0], [0, 0, 0, 63.77, 0, 0],
                    [0, 0, 0, 0, 77.67, 0], [0, 0, 0, 0, 0, 78.36]], dtype=float)
ENSTATITE = np.array([[236.9, 79.6, 63.2, 0, 0, 0], [79.6, 180.5, 56.8, 0, 0, 0],
                      [63.2, 56.8, 230.4, 0, 0, 0], [0, 0, 0, 84.3, 0, 0],
                      [0, 0, 0, 0, 79.4, 0], [0, 0, 0, 0, 0, 80.1]], dtype=float)


def with_zeros(rng, a, p):
    a = np.array(a, dtype=float)
    a[rng.random(a.shape) < p] = 0.0
    return a


# --------------------------------------------------------------------------
# model <-> implementation, one entry per public function of pydrex.tensors
# --------------------------------------------------------------------------
def svd_residual(m, U, S, Vh):
    I = np.eye(3)
    return max(np.abs(U.T @ U - I).max(), np.abs(U @ U.T - I).max(),
               np.abs(Vh @ Vh.T - I).max(), np.abs(Vh.T @ Vh - I).max(),
               np.abs(U @ np.diag(S) @ Vh - m).max() / max(1.0, np.abs(m).max()),
               max(0.0, -S.min()))


def entries(T):
    """entry -> (input generator(rng) -> dict(x=flat model input, args=impl args, extra), impl caller)"""
    def flat(*a):
        return np.concatenate([np.asarray(x, dtype=float).reshape(-1) for x in a])

    def g_m33(rng):
        kind = rng.integers(0, 4)
        m = rng.normal(size=(3, 3)) * 10 ** rng.uniform(-2, 2)
        if kind == 1:
            m = (m + m.T) / 2
        elif kind == 2:
            m = haar(rng)
        return dict(x=flat(m), args=(m,))

    def g_m66(rng):
        kind = rng.integers(0, 5)
        if kind == 0:
            m = rng.normal(size=(6, 6)) * 100      # not symmetric
        elif kind == 1:
            m = sym6(rng, zeros=0.3)
        elif kind == 2:
            m = spd6(rng)
        elif kind == 3:
            m = OLIVINE.copy() if rng.random() < 0.5 else ENSTATITE.copy()
        else:
            m = sym6(rng)
        return dict(x=flat(m), args=(m,))

    def g_v21(rng):
        v = rng.normal(size=21) * 100
        if rng.random() < 0.3:
            v = with_zeros(rng, v, 0.3)
        return dict(x=flat(v), args=(v,))

    def g_t4(rng):
        if rng.random() < 0.5:
            t = T.voigt_to_elastic_tensor(sym6(rng))
        else:
            t = rng.normal(size=(3, 3, 3, 3)) * 100   # no symmetries at all
        return dict(x=flat(t), args=(t,))

    def g_rot(rng):
        t = g_t4(rng)["args"][0]
        u = rng.random()
        r = haar(rng) if u < 0.6 else (small_rot(rng) if u < 0.8 else rng.normal(size=(3, 3)))
        return dict(x=flat(t, r), args=(t, r))

    def g_up(n):
        def g(rng):
            a = with_zeros(rng, rng.normal(size=(n, n)) * 10, 0.25)
            return dict(x=flat(a), args=(a,))
        return g

    def g_polar(left):
        def g(rng):
            m = rng.normal(size=(3, 3)) * 10 ** rng.uniform(-1, 1)
            if rng.random() < 0.3:
                m = haar(rng) @ np.diag(rng.uniform(0.5, 2.0, size=3)) @ haar(rng)
            U, S, Vh = np.linalg.svd(m)
            res = svd_residual(m, U, S, Vh)
            x = flat(U, S, Vh) if left else flat(m, S, Vh)
            return dict(x=x, args=(m, left), residual=res, cond=S.max() / max(S.min(), 1e-300))
        return g

    def tup(f):
        return lambda *a: flat(*f(*a))

    return {
        "invariants": (g_m33, lambda m: np.array(T.invariants_second_order(m), dtype=float)),
        "decompose": (g_m66, tup(T.voigt_decompose)),
        "mono": (g_v21, T.mono_project),
        "ortho": (g_v21, T.ortho_project),
        "tetr": (g_v21, T.tetr_project),
        "hex": (g_v21, T.hex_project),
        "upper3": (g_up(3), T.upper_tri_to_symmetric),
        "upper6": (g_up(6), T.upper_tri_to_symmetric),
        "vte": (g_m66, T.voigt_to_elastic_tensor),
        "etv": (g_t4, T.elastic_tensor_to_voigt),
        "m2v": (g_m66, T.voigt_matrix_to_vector),
        "v2m": (g_v21, T.voigt_vector_to_matrix),
        "rotate": (g_rot, T.rotate),
        "polar_left": (g_polar(True), tup(T.polar_decompose)),
        "polar_right": (g_polar(False), tup(T.polar_decompose)),
    }


def call(fn, args):
    try:
        return ("OK", np.asarray(fn(*[np.array(a) if isinstance(a, np.ndarray) else a for a in args]),
                                 dtype=float).reshape(-1))
    except Exception as e:  # noqa: BLE001
        return ("ERR", common.exc_code(e), str(e))


def compare_entry(chk, name, gen, fn, n, rng, rtol=1e-11, oracle_tol=1e-12):
    """differential run of one entry on n random inputs; returns list of (name, case, detail)"""
    cases = [gen(rng) for _ in range(n)]
    lines = [common.model_line(name, [], c["x"]) for c in cases]
    mres = common.run_model(lines, group=GROUP)
    bad = []
    hist = chk.cov.setdefault("histogram", {})
    for c, m in zip(cases, mres):
        r = call(fn, c["args"])
        hist[name] = hist.get(name, 0) + 1
        tol = rtol
        if "residual" in c:
            # oracle hypotheses of the SVD (checked on the real routine's output)
            if c["residual"] > oracle_tol:
                bad.append((name, c, f"SVD oracle hypothesis residual {c['residual']:.3e}"))
            tol = max(rtol, 1e-13 * c["cond"] ** 2) if name == "polar_right" else 1e-10
        trivial = r[0] == "OK" and not np.any(r[1])
        chk.note_case((name, c["x"].tobytes()), nontrivial=not trivial,
                      sample={"entry": name, "impl": r[0] if r[0] == "ERR" else [float(v) for v in r[1][:3]],
                              "model": m[0] if m[0] == "ERR" else [float(v) for v in m[1][:3]]})
        if r[0] == "ERR" or m[0] == "ERR":
            if not (r[0] == m[0] == "ERR"):
                bad.append((name, c, f"implementation: {r[:2]}, model: {m[:2] if m[0] == 'ERR' else 'OK'}"))
            continue
        okc, idx = common.vec_close(list(r[1]), m[1], rtol=tol)
        if not okc:
            a = r[1][idx] if 0 <= idx < len(r[1]) else None
            b = m[1][idx] if 0 <= idx < len(m[1]) else None
            bad.append((name, c, f"component {idx}: implementation {a!r} vs model {b!r}"))
    return bad
