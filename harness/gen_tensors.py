"""Case generators and implementation callers shared by the tensors group (C10, C11, C12)."""
from __future__ import annotations

import numpy as np

import argguard
import common

GROUP = "tensors"


# --------------------------------------------------------------------------
# random inputs
# --------------------------------------------------------------------------
def haar(rng):
    """Haar-distributed rotation (det +1)."""
    q, r = np.linalg.qr(rng.normal(size=(3, 3)))
    q = q * np.sign(np.diag(r))
    if np.linalg.det(q) < 0:
        q[:, 0] = -q[:, 0]
    return q


def small_rot(rng):
    """rotation by a tiny angle 10^U(-9,-3) about a random axis (near-identity stream)"""
    from scipy.spatial.transform import Rotation
    ax = rng.normal(size=3)
    ax /= np.linalg.norm(ax)
    return Rotation.from_rotvec(ax * 10 ** rng.uniform(-9, -3)).as_matrix()


def sym6(rng, scale=100.0, zeros=0.0):
    a = rng.normal(size=(6, 6)) * scale
    m = (a + a.T) / 2
    if zeros:
        mask = rng.random((6, 6)) < zeros
        mask = np.triu(mask) | np.triu(mask).T
        m[mask] = 0.0
    return m


def spd6(rng, scale=100.0):
    a = rng.normal(size=(6, 6))
    return (a @ a.T + 6 * np.eye(6)) * scale / 6


def ortho_stiffness(rng):
    """random positive-definite orthorhombic stiffness matrix (9 constants)"""
    a = rng.normal(size=(3, 3))
    blk = (a @ a.T + 3 * np.eye(3)) * rng.uniform(30, 120)
    m = np.zeros((6, 6))
    m[:3, :3] = blk
    m[3, 3], m[4, 4], m[5, 5] = rng.uniform(20, 120, size=3)
    return m


OLIVINE = np.array([[320.71, 69.84, 71.22, 0, 0, 0], [69.84, 197.25, 74.8, 0, 0, 0],
                    [71.22, 74.8, 234.32, 0, 0, 0], [0, 0, 0, 63.77, 0, 0],
                    [0, 0, 0, 0, 77.67, 0], [0, 0, 0, 0, 0, 78.36]], dtype=float)
ENSTATITE = np.array([[236.9, 79.6, 63.2, 0, 0, 0], [79.6, 180.5, 56.8, 0, 0, 0],
                      [63.2, 56.8, 230.4, 0, 0, 0], [0, 0, 0, 84.3, 0, 0],
                      [0, 0, 0, 0, 79.4, 0], [0, 0, 0, 0, 0, 80.1]], dtype=float)


def with_zeros(rng, a, p):
    a = np.array(a, dtype=float)
    a[rng.random(a.shape) < p] = 0.0
    return a


# --------------------------------------------------------------------------
# model <-> implementation, one entry per public function of pydrex.tensors
# --------------------------------------------------------------------------
def svd_residual(m, U, S, Vh):
    I = np.eye(3)
    return max(np.abs(U.T @ U - I).max(), np.abs(U @ U.T - I).max(),
               np.abs(Vh @ Vh.T - I).max(), np.abs(Vh.T @ Vh - I).max(),
               np.abs(U @ np.diag(S) @ Vh - m).max() / max(1.0, np.abs(m).max()),
               max(0.0, -S.min()))


def entries(T):
    """entry -> (input generator(rng) -> dict(x=flat model input, args=impl args, extra), impl caller)"""
    def flat(*a):
        return np.concatenate([np.asarray(x, dtype=float).reshape(-1) for x in a])

    def g_m33(rng):
        kind = rng.integers(0, 4)
        m = rng.normal(size=(3, 3)) * 10 ** rng.uniform(-2, 2)
        if kind == 1:
            m = (m + m.T) / 2
        elif kind == 2:
            m = haar(rng)
        return dict(x=flat(m), args=(m,))

    def g_m66(rng):
        kind = rng.integers(0, 5)
        if kind == 0:
            m = rng.normal(size=(6, 6)) * 100      # not symmetric
        elif kind == 1:
            m = sym6(rng, zeros=0.3)
        elif kind == 2:
            m = spd6(rng)
        elif kind == 3:
            m = OLIVINE.copy() if rng.random() < 0.5 else ENSTATITE.copy()
        else:
            m = sym6(rng)
        return dict(x=flat(m), args=(m,))

    def g_v21(rng):
        v = rng.normal(size=21) * 100
        if rng.random() < 0.3:
            v = with_zeros(rng, v, 0.3)
        return dict(x=flat(v), args=(v,))

    def g_t4(rng):
        if rng.random() < 0.5:
            t = T.voigt_to_elastic_tensor(sym6(rng))
        else:
            t = rng.normal(size=(3, 3, 3, 3)) * 100   # no symmetries at all
        return dict(x=flat(t), args=(t,))

    def g_rot(rng):
        t = g_t4(rng)["args"][0]
        u = rng.random()
        r = haar(rng) if u < 0.6 else (small_rot(rng) if u < 0.8 else rng.normal(size=(3, 3)))
        return dict(x=flat(t, r), args=(t, r))

    def g_up(n):
        def g(rng):
            a = with_zeros(rng, rng.normal(size=(n, n)) * 10, 0.25)
            return dict(x=flat(a), args=(a,))
        return g

    def tup(f):
        return lambda *a: flat(*f(*a))

    return {
        "invariants": (g_m33, lambda m: np.array(T.invariants_second_order(m), dtype=float)),
        "decompose": (g_m66, tup(T.voigt_decompose)),
        "mono": (g_v21, T.mono_project),
        "ortho": (g_v21, T.ortho_project),
        "tetr": (g_v21, T.tetr_project),
        "hex": (g_v21, T.hex_project),
        "upper3": (g_up(3), T.upper_tri_to_symmetric),
        "upper6": (g_up(6), T.upper_tri_to_symmetric),
        "vte": (g_m66, T.voigt_to_elastic_tensor),
        "etv": (g_t4, T.elastic_tensor_to_voigt),
        "m2v": (g_m66, T.voigt_matrix_to_vector),
        "v2m": (g_v21, T.voigt_vector_to_matrix),
        "rotate": (g_rot, T.rotate),
    }


# --------------------------------------------------------------------------
# polar_decompose: input families, the interpreted run with the recorded SVD, clause checks
# --------------------------------------------------------------------------
POLAR_FAMILIES = ("generic", "from_svd", "sym_indefinite", "sym_negdef", "sym_posdef", "sym_psd_singular",
                  "diag_signed", "reflection", "rotation", "minus_identity", "identity", "rank2", "rank1", "zero",
                  "repeated_sv", "near_symmetric", "sym_indef_integer", "scaled_tiny", "scaled_huge")
POLAR_SINGULAR = ("sym_psd_singular", "rank2", "rank1", "zero")


def reflection(rng):
    q = haar(rng)
    q[:, int(rng.integers(0, 3))] *= -1.0          # det = -1
    return q


def polar_matrix(rng, family):
    """3x3 input of polar_decompose from one of POLAR_FAMILIES (exact symmetry / rank where the name says so)"""
    a = rng.normal(size=(3, 3))
    sc = 10 ** rng.uniform(-1, 1)
    if family == "generic":
        return a * sc
    if family == "from_svd":
        return haar(rng) @ np.diag(rng.uniform(0.5, 2.0, size=3)) @ haar(rng)
    if family == "sym_indefinite":            # exactly symmetric, eigenvalues of both signs
        q = haar(rng)
        ev = rng.uniform(0.2, 3.0, size=3) * np.array([1.0, -1.0, rng.choice([-1.0, 1.0])])
        m = q @ np.diag(ev) @ q.T * sc
        return (m + m.T) / 2
    if family == "sym_negdef":
        m = -(a @ a.T + 0.1 * np.eye(3)) * sc
        return (m + m.T) / 2
    if family == "sym_posdef":
        m = (a @ a.T + 0.1 * np.eye(3)) * sc
        return (m + m.T) / 2
    if family == "sym_psd_singular":          # exactly symmetric, exactly rank <= 2 is not representable in general:
        v = rng.integers(-4, 5, size=(int(rng.integers(1, 3)), 3)).astype(float)   # integer Gram matrix: exact
        return v.T @ v
    if family == "diag_signed":
        return np.diag(rng.uniform(0.2, 3.0, size=3) * rng.choice([-1.0, 1.0], size=3)) * sc
    if family == "reflection":
        return reflection(rng)
    if family == "rotation":
        return haar(rng)
    if family == "minus_identity":
        return -np.eye(3)
    if family == "identity":
        return np.eye(3)
    if family == "rank2":
        if rng.random() < 0.5:
            return np.diag([rng.uniform(0.5, 2), rng.uniform(0.5, 2), 0.0])[:, rng.permutation(3)]
        return haar(rng) @ np.diag([rng.uniform(0.5, 2), rng.uniform(0.5, 2), 0.0]) @ haar(rng)
    if family == "rank1":
        u, v = rng.integers(-3, 4, size=3).astype(float), rng.integers(-3, 4, size=3).astype(float)
        if not u.any():
            u[0] = 1.0
        if not v.any():
            v[1] = 1.0
        return np.outer(u, v)
    if family == "zero":
        return np.zeros((3, 3))
    if family == "repeated_sv":
        return haar(rng) @ np.diag([2.0, 2.0, 1.0]) @ haar(rng) * sc
    if family == "near_symmetric":            # symmetric up to one ulp-size perturbation: NOT exactly symmetric
        m = (a + a.T) / 2 * sc
        m[0, 1] = np.nextafter(m[0, 1], np.inf)
        return m
    if family == "sym_indef_integer":
        m = rng.integers(-6, 7, size=(3, 3)).astype(float)
        m = m + m.T
        m[0, 0], m[1, 1] = abs(m[0, 0]) + 1.0, -abs(m[1, 1]) - 1.0      # e_0^T M e_0 > 0 > e_1^T M e_1
        return m
    if family == "scaled_tiny":
        return a * 1e-9
    if family == "scaled_huge":
        return a * 1e9
    raise ValueError(family)


class _RecLinalg:
    def __init__(self):
        self.svd_calls = []

    def svd(self, m, *a, **k):
        out = np.linalg.svd(m, *a, **k)
        self.svd_calls.append((np.array(m, dtype=float),) + tuple(np.array(o, dtype=float) for o in out))
        return out

    def __getattr__(self, name):
        return getattr(np.linalg, name)


class _RecNumpy:
    """stands for the module-level name `np` of pydrex.tensors while the *interpreted* polar_decompose runs:
    everything is NumPy's, np.linalg.svd is recorded (its outputs are the model's oracle inputs)"""

    def __init__(self):
        self.linalg = _RecLinalg()

    def __getattr__(self, name):
        return getattr(np, name)


def interpreted_polar(T, m, left):
    """run the Python source of polar_decompose (py_func) with NumPy's LAPACK; returns (result | exception, svd calls)"""
    fn = getattr(T.polar_decompose, "py_func", T.polar_decompose)
    g = fn.__globals__
    rec, saved = _RecNumpy(), g["np"]
    g["np"] = rec
    try:
        try:
            out = fn(np.array(m, dtype=float), left)
        except Exception as e:  # noqa: BLE001
            out = e
    finally:
        g["np"] = saved
    return out, rec.linalg.svd_calls


def polar_clauses(m, R, P, left, tol=1e-9, otol=1e-7):
    """the polar clause of C11 read on one result: orthogonal factor (both sides), symmetric positive semi-definite
    stretch, product in the order the variant documents.  Returns the list of failed clauses."""
    f = []
    sa = max(1.0, float(np.abs(m).max()))
    R, P = np.asarray(R, dtype=float), np.asarray(P, dtype=float)
    if R.shape != (3, 3) or P.shape != (3, 3) or not (np.all(np.isfinite(R)) and np.all(np.isfinite(P))):
        return ["result is not a pair of finite 3x3 matrices"]
    I = np.eye(3)
    if max(np.abs(R.T @ R - I).max(), np.abs(R @ R.T - I).max()) > otol:
        f.append("first factor is not orthogonal")
    if np.abs(P - P.T).max() > tol * sa:
        f.append("stretch is not symmetric")
    lam = float(np.linalg.eigvalsh((P + P.T) / 2).min())
    if lam < -tol * sa:
        f.append(f"stretch is not positive semi-definite (smallest eigenvalue {lam:.6g})")
    prod = P @ R if left else R @ P
    if np.abs(prod - m).max() > otol * sa:
        f.append("P.R != M" if left else "R.U != M")
    return f


# --------------------------------------------------------------------------
# presentations: the SAME mathematical array handed over with another dtype / memory layout / container
# --------------------------------------------------------------------------
PRES_KINDS = ("int64", "int32", "float32", "fortran", "strided", "reversed", "readonly", "list")
PRES_INTEGER = ("int64", "int32")
# a presentation may be REFUSED (numba has no typing for it) -- loudly, never with a wrong value
REFUSAL = ("TypingError", "NumbaNotImplementedError", "NumbaTypeError", "TypeError", "AttributeError", "NumbaValueError")


def present(a, kind):
    """the integer-valued float64 array `a` in another presentation (same values, exactly)"""
    a = np.array(a, dtype=float)
    if kind == "float64":
        return a.copy()
    if kind in ("int64", "int32", "float32"):
        return a.astype(getattr(np, kind))
    if kind == "fortran":
        return np.asfortranarray(a.copy())
    if kind == "strided":                      # every second entry of a buffer filled with 1e300
        big = np.full(tuple(2 * n for n in a.shape), 1e300)
        sl = tuple(slice(0, None, 2) for _ in a.shape)
        big[sl] = a
        return big[sl]
    if kind == "reversed":                     # negative strides
        sl = tuple(slice(None, None, -1) for _ in a.shape)
        return a[sl].copy()[sl]
    if kind == "readonly":
        b = a.copy()
        b.setflags(write=False)
        return b
    if kind == "list":
        return a.tolist()
    raise ValueError(kind)


def int_sym6(rng, hi=200):
    m = rng.integers(-hi, hi + 1, size=(6, 6))
    return (np.triu(m) + np.triu(m, 1).T).astype(float)


def int_inputs(T, rng):
    """entry -> list of float64 integer-valued arguments (exactly representable in every presentation)"""
    M = int_sym6(rng)
    x = rng.integers(-200, 201, size=21).astype(float)
    A = rng.integers(-6, 7, size=(3, 3)).astype(float)
    t_sym = np.asarray(T.voigt_to_elastic_tensor(int_sym6(rng)), dtype=float)
    t_any = rng.integers(-200, 201, size=(3, 3, 3, 3)).astype(float)
    t = t_sym if rng.random() < 0.5 else t_any
    Ri = rng.integers(-2, 3, size=(3, 3)).astype(float)     # `rotate` is the transformation law for ANY matrix
    return {"invariants": [A], "decompose": [M], "mono": [x], "ortho": [x], "tetr": [x], "hex": [x],
            "upper3": [A], "upper6": [rng.integers(-200, 201, size=(6, 6)).astype(float)], "vte": [M], "etv": [t], "m2v": [M], "v2m": [x],
            "rotate": [t, Ri]}


def compare_presentations(chk, T, n, rng, kinds=PRES_KINDS, tetr_open=True):
    """Every public kernel of pydrex.tensors called with integer-valued inputs in every presentation of PRES_KINDS
    (for `rotate`: the tensor with a Haar rotation, the rotation matrix, and both); the value must be the extracted
    model's value on the float64 numbers, or the presentation must be refused loudly.
    returns (bad, known) -- known = [(entry, kind, detail)] reproductions of the open finding tetr_project/integer dtype"""
    ent = entries(T)
    bad, known = [], []
    hist = chk.cov.setdefault("presentation_histogram", {})
    for _ in range(n):
        base = int_inputs(T, rng)
        jobs = []                              # (entry, impl fn, model input, [(label, args)])
        for name, args in base.items():
            fn = ent[name][1]
            if name == "rotate":
                t, Ri = args
                Rh = haar(rng)
                v1 = [(f"tensor:{k}", [present(t, k), Rh.copy()]) for k in kinds]
                jobs.append((name, fn, np.concatenate([t.reshape(-1), Rh.reshape(-1)]), v1))
                v2 = [(f"rotation:{k}", [t.copy(), present(Ri, k)]) for k in kinds] + \
                     [(f"both:{k}", [present(t, k), present(Ri, k)]) for k in kinds]
                jobs.append((name, fn, np.concatenate([t.reshape(-1), Ri.reshape(-1)]), v2))
            else:
                jobs.append((name, fn, args[0].reshape(-1), [(k, [present(args[0], k)]) for k in kinds]))
        mres = common.run_model([common.model_line(nm, [], x) for nm, _, x, _ in jobs], group=GROUP)
        for (name, fn, x, variants), m in zip(jobs, mres):
            for label, args in variants:
                kind = label.split(":")[-1]
                try:
                    r = ("OK", np.asarray(fn(*args), dtype=float).reshape(-1))
                except Exception as e:  # noqa: BLE001
                    r = ("ERR", type(e).__name__, str(e)[:200])
                key = f"{name}/{label}"
                chk.note_case((name, label, x.tobytes()), nontrivial=r[0] == "OK",
                              sample={"entry": name, "presentation": label, "impl": r[0] if r[0] == "ERR" else [float(v) for v in r[1][:3]]})
                if r[0] == "ERR":
                    refused = r[1] in REFUSAL and kind in PRES_INTEGER + ("list",)
                    hist[key] = "refused" if refused else "raised"
                    if not refused:
                        bad.append((name, {"x": x, "presentation": label}, f"{label}: raised {r[1]}: {r[2]}"))
                    continue
                if m[0] != "OK":
                    bad.append((name, {"x": x, "presentation": label}, f"{label}: model {m[:2]}, implementation OK"))
                    continue
                tol = 1e-5 if kind == "float32" else 1e-9
                okc, idx = common.vec_close(list(r[1]), m[1], rtol=tol)
                if okc:
                    hist.setdefault(key, "same value")
                    continue
                a = r[1][idx] if idx is not None and 0 <= idx < len(r[1]) else None
                b = m[1][idx] if idx is not None and 0 <= idx < len(m[1]) else None
                detail = f"{label}: component {idx}: implementation {a!r} vs model on the same numbers {b!r}"
                if name == "tetr" and kind in PRES_INTEGER and tetr_open:
                    hist[key] = "known finding"
                    known.append((name, label, detail))
                else:
                    hist[key] = "DIFFERENT VALUE"
                    bad.append((name, {"x": x, "presentation": label}, detail))
    return bad, known


def compare_polar(chk, T, n, rng, families=POLAR_FAMILIES, right_singular_open=True):
    """polar_decompose, both variants, n inputs from each family of POLAR_FAMILIES.  Per case:
      1. the Python source (py_func) is run with NumPy's LAPACK and `np.linalg.svd` recorded: it must be called exactly
         once, on the input; the SVD oracle hypotheses are residual-checked on what it returned;
      2. the extracted GENERATED code (k_polar_decompose_left/right, tie T) on the recorded (U, S, Vh) vs that run;
      3. the compiled implementation vs the interpreted run (the orthogonal factor of a rank-deficient matrix is not
         determined by the input: there it is judged by the clauses only);
      4. the clauses of the polar theorem read on the compiled result: first factor orthogonal (both sides), stretch
         symmetric AND positive semi-definite, product in the variant's order.
    returns (bad, known): known = reproductions of the open finding `right variant on a singular matrix`."""
    bad, known = [], []
    hist = chk.cov.setdefault("polar_family_histogram", {})
    stat = chk.cov.setdefault("polar_checks", {"svd_recorded": 0, "model_vs_interpreted": 0, "compiled_vs_interpreted": 0,
                                               "clauses_checked": 0, "psd_min_eig_min": None, "rank_deficient": 0,
                                               "det_negative": 0, "exactly_symmetric": 0, "symmetric_not_psd": 0})
    cases = []
    for fam in families:
        for _ in range(n):
            m = polar_matrix(rng, fam)
            for left in (True, False):
                cases.append((fam, m, left))
    lines, recs = [], []
    for fam, m, left in cases:
        out, calls = interpreted_polar(T, m, left)
        if len(calls) == 1 and np.array_equal(calls[0][0], m):
            U, S, Vh = calls[0][1:]
            stat["svd_recorded"] += 1
            rec_ok = None
        else:
            U, S, Vh = np.linalg.svd(m)
            rec_ok = (f"the source called np.linalg.svd {len(calls)} time(s)" +
                      ("" if not calls else " on a matrix other than its argument") +
                      ": the SVD-oracle model does not describe this call")
        recs.append((out, (U, S, Vh), rec_ok))
        lines.append(common.model_line("polar_left" if left else "polar_right", [],
                                       np.concatenate([m.reshape(-1), U.reshape(-1), S.reshape(-1), Vh.reshape(-1)])))
    mres = common.run_model(lines, group=GROUP)
    for (fam, m, left), (iout, (U, S, Vh), rec_ok), mr in zip(cases, recs, mres):
        name = "polar_left" if left else "polar_right"
        c = {"x": m.reshape(-1), "family": fam, "left": left}
        hist[fam] = hist.get(fam, 0) + 1
        sa = max(float(np.abs(m).max()), 1e-300)
        singular = bool(S.min() <= 1e-12 * max(S.max(), 1e-300))
        stat["rank_deficient"] += singular
        stat["det_negative"] += bool(np.linalg.det(m) < 0)
        sym = bool(np.array_equal(m, m.T))
        stat["exactly_symmetric"] += sym
        stat["symmetric_not_psd"] += bool(sym and np.linalg.eigvalsh(m).min() < 0)
        res = svd_residual(m, U, S, Vh)
        if res > 1e-12:
            bad.append((name, c, f"SVD oracle hypothesis residual {res:.3e}"))
        if rec_ok:
            bad.append((name, c, rec_ok))
        r = call(T.polar_decompose, (m, left))
        r = r if r[0] == "ERR" else ("OK", r[1])
        chk.note_case((name, fam, m.tobytes()), nontrivial=bool(np.any(m)),
                      sample={"entry": name, "family": fam, "impl": r[0] if r[0] == "ERR" else [float(v) for v in r[1][:3]],
                              "model": mr[0] if mr[0] == "ERR" else [float(v) for v in mr[1][:3]]})
        if not left and singular:
            # finding: M @ inv(U_m) with a singular stretch -- LinAlgError or a non-orthogonal factor.  While it is
            # open, a reproduction is reported as KNOWN-FINDING; a result that satisfies the clauses (the repaired
            # source) is checked like every other case
            why = None
            if r[0] == "ERR":
                why = f"{r[1]}: {r[2][:80]}"
            else:
                fl = polar_clauses(m / sa, r[1][:9].reshape(3, 3), r[1][9:].reshape(3, 3) / sa, left)
                why = "; ".join(fl) or None
            if why is not None:
                if right_singular_open:
                    known.append((name, fam, why, m))
                else:
                    bad.append((name, c, "right variant on a singular matrix: " + why))
                continue
        # 2. generated code on the recorded oracle outputs vs the interpreted source
        cond = min(float(S.max() / max(S.min(), 1e-300)), 1e150)
        # the original right variant multiplies by an inverse (error ~ cond^2 eps); a singular input only gets here when
        # the call returned a pair that satisfies the clauses (the repaired source: no inverse)
        tol = 1e-10 if left else (1e-9 if singular else max(1e-10, min(1e-13 * cond ** 2, 1e-2)))
        if isinstance(iout, Exception) or mr[0] == "ERR":
            if not (isinstance(iout, Exception) and mr[0] == "ERR"):
                bad.append((name, c, f"interpreted source: {type(iout).__name__ if isinstance(iout, Exception) else 'OK'}, generated model: {mr[0]}"))
            continue
        iR, iP = (np.asarray(a, dtype=float) for a in iout)
        mR, mP = np.array(mr[1][:9]).reshape(3, 3), np.array(mr[1][9:]).reshape(3, 3)
        stat["model_vs_interpreted"] += 1
        if np.abs(iR - mR).max() > tol or np.abs(iP - mP).max() > tol * sa:
            bad.append((name, c, f"generated model on the recorded SVD vs interpreted source: |dR| = {np.abs(iR - mR).max():.3e}, "
                                 f"|dP|/|M| = {np.abs(iP - mP).max() / sa:.3e}"))
        # 3. compiled vs interpreted
        if r[0] == "ERR":
            bad.append((name, c, f"compiled implementation raised {r[1]}: {r[2][:120]}"))
            continue
        cR, cP = r[1][:9].reshape(3, 3), r[1][9:].reshape(3, 3)
        stat["compiled_vs_interpreted"] += 1
        ctol = max(tol, 1e-9)
        if np.abs(cP - iP).max() > ctol * sa or (not singular and np.abs(cR - iR).max() > ctol):
            bad.append((name, c, f"compiled vs interpreted: |dR| = {np.abs(cR - iR).max():.3e}, |dP|/|M| = {np.abs(cP - iP).max() / sa:.3e}"))
        # 4. the theorem's conclusions on the compiled result
        fl = polar_clauses(m / sa, cR, cP / sa, left, tol=max(1e-9, 10 * tol), otol=max(1e-7, 10 * tol))
        stat["clauses_checked"] += 1
        lam = float(np.linalg.eigvalsh((cP + cP.T) / 2).min() / sa)
        stat["psd_min_eig_min"] = lam if stat["psd_min_eig_min"] is None else min(stat["psd_min_eig_min"], lam)
        if fl:
            bad.append((name, c, "polar clauses fail on the implementation's result: " + "; ".join(fl)))
    return bad, known


# --------------------------------------------------------------------------
# magnitudes: the kernels are homogeneous -- nothing may depend on the unit the numbers are expressed in
# --------------------------------------------------------------------------
MAG_EXPONENTS = (-60, -50, -40, -34, -30, -20, -10, 10, 20, 30, 40, 60)
MIXED_TINY = (3e-11, 2.0 ** -40, 1e-15, 1e-30, 1e12)
HOMOGENEITY = {"invariants": None, "decompose": 1, "mono": 1, "ortho": 1, "tetr": 1, "hex": 1, "upper3": 1, "upper6": 1,
               "vte": 1, "etv": 1, "m2v": 1, "v2m": 1, "rotate": 1}       # degree in the (first) argument; invariants: (1, 2, 3)
COPY_LIKE = ("vte", "etv", "m2v", "v2m", "mono", "ortho", "upper3", "upper6")   # every output entry is one input entry
                                                                                # times a constant (or a mean of equal entries)


def mixed_inputs(T, rng):
    """generic inputs of ordinary size with ONE entry (and its symmetric partners) of a very different magnitude"""
    t = float(rng.choice(MIXED_TINY)) * float(rng.choice([-1.0, 1.0]))
    M = sym6(rng)
    i, j = sorted(int(v) for v in rng.integers(0, 6, size=2))
    M[i, j] = M[j, i] = t
    x = rng.normal(size=21) * 100
    x[int(rng.integers(0, 21))] = t
    A = rng.normal(size=(3, 3)) * 10
    A[int(rng.integers(0, 3)), int(rng.integers(0, 3))] = t
    return {"decompose": [M], "mono": [x], "ortho": [x], "tetr": [x], "hex": [x], "upper3": [A], "upper6": [M.copy()],
            "vte": [M], "etv": [np.asarray(T.voigt_to_elastic_tensor(M.copy()), dtype=float)], "m2v": [M], "v2m": [x]}, t


def compare_magnitudes(chk, T, n, rng):
    """(a) every kernel on integer-valued inputs scaled by 2^k, k in MAG_EXPONENTS (+ one random k in -60..60): the
    implementation vs the extracted model with a tolerance relative to THE SCALE OF THE INPUT (no absolute floor), and
    exact homogeneity impl(2^k x) = 2^(k deg) impl(x) (scaling by a power of two commutes with every operation);
    (b) generic inputs with one entry of a very different magnitude (3e-11, 2^-40, 1e-15, 1e-30, 1e12): implementation vs
    model, entry by entry RELATIVE for the copy-like kernels, relative to the input scale for the others.
    returns bad"""
    ent = entries(T)
    bad = []
    hist = chk.cov.setdefault("magnitude_histogram", {})

    def run(name, fn, args):
        try:
            return ("OK", np.asarray(fn(*[a.copy() for a in args]), dtype=float).reshape(-1))
        except Exception as e:  # noqa: BLE001
            return ("ERR", type(e).__name__, str(e)[:160])

    for _ in range(n):
        base = int_inputs(T, rng)
        ks = list(MAG_EXPONENTS) + [int(rng.integers(-60, 61))]
        jobs = []
        for name, args in base.items():
            if name == "rotate":
                args = [args[0], haar(rng)]
            for k in ks:
                sc = 2.0 ** k
                sargs = [args[0] * sc] + [a.copy() for a in args[1:]]
                jobs.append((name, k, args, sargs, np.concatenate([a.reshape(-1) for a in sargs])))
        mres = common.run_model([common.model_line(nm, [], x) for nm, _, _, _, x in jobs], group=GROUP)
        ref = {}
        for (name, k, args, sargs, x), m in zip(jobs, mres):
            fn = ent[name][1]
            if name not in ref:
                ref[name] = run(name, fn, args)
            r = run(name, fn, sargs)
            hist[f"2^{k}"] = hist.get(f"2^{k}", 0) + 1
            chk.note_case((name, "scaled", k, x.tobytes()), nontrivial=r[0] == "OK" and bool(np.any(r[1])),
                          sample={"entry": name, "scale": f"2^{k}", "impl": r[0] if r[0] == "ERR" else [float(v) for v in r[1][:3]]})
            c = {"x": x, "scale_exponent": k}
            if r[0] == "ERR" or m[0] == "ERR" or ref[name][0] == "ERR":
                if not (r[0] == m[0] == "ERR"):
                    bad.append((name, c, f"scaled by 2^{k}: implementation {r[:2] if r[0] == 'ERR' else 'OK'}, model {m[:2] if m[0] == 'ERR' else 'OK'}"))
                continue
            deg = [1, 2, 3] if name == "invariants" else [HOMOGENEITY[name]] * len(r[1])
            insc = float(np.abs(args[0]).max()) or 1.0
            for idx, (a, b, a0, d) in enumerate(zip(r[1], m[1], ref[name][1], deg)):
                unit = (2.0 ** k * insc) ** d if name == "invariants" else 2.0 ** k * insc
                if not abs(a - b) <= 1e-11 * unit:
                    bad.append((name, c, f"scaled by 2^{k}: component {idx}: implementation {a!r} vs model {b!r} (input scale {2.0 ** k * insc:.3g})"))
                    break
                want = a0 * 2.0 ** (k * d)
                if not abs(a - want) <= 1e-13 * abs(want):
                    bad.append((name, c, f"not homogeneous: component {idx} of f(2^{k} x) = {a!r}, 2^({k}*{d}) f(x) = {want!r}"))
                    break
        # (b) one entry of a very different magnitude
        mixed, t = mixed_inputs(T, rng)
        names = list(mixed)
        mres = common.run_model([common.model_line(nm, [], mixed[nm][0].reshape(-1)) for nm in names], group=GROUP)
        for name, m in zip(names, mres):
            r = run(name, ent[name][1], mixed[name])
            x = mixed[name][0].reshape(-1)
            hist[f"mixed:{t:.0e}"] = hist.get(f"mixed:{t:.0e}", 0) + 1
            chk.note_case((name, "mixed", x.tobytes()), nontrivial=r[0] == "OK",
                          sample={"entry": name, "odd_entry": t, "impl": r[0] if r[0] == "ERR" else [float(v) for v in r[1][:3]]})
            c = {"x": x, "odd_entry": t}
            if r[0] == "ERR" or m[0] == "ERR":
                if not (r[0] == m[0] == "ERR"):
                    bad.append((name, c, f"one entry {t:g}: implementation {r[0]}, model {m[0]}"))
                continue
            insc = float(np.abs(x).max())
            for idx, (a, b) in enumerate(zip(r[1], m[1])):
                tol = 1e-11 * max(abs(a), abs(b)) if name in COPY_LIKE else 1e-11 * insc
                if not abs(a - b) <= tol:
                    bad.append((name, c, f"one entry {t:g}: component {idx}: implementation {a!r} vs model {b!r}"))
                    break
    return bad


def call(fn, args):
    """("OK", flat result[, faults]) | ("ERR", code, message); faults (argguard): arguments the call modified in place -- the
    models are pure functions, a kernel that writes into its argument is not described by them (seeded change C11f)"""
    passed = [np.array(a) if isinstance(a, np.ndarray) else a for a in args]
    try:
        res, faults = argguard.guarded(fn, passed)
    except Exception as e:  # noqa: BLE001
        return ("ERR", common.exc_code(e), str(e))
    out = ("OK", np.asarray(res, dtype=float).reshape(-1))
    return out + (faults,) if faults else out


def compare_entry(chk, name, gen, fn, n, rng, rtol=1e-11, oracle_tol=1e-12):
    """differential run of one entry on n random inputs; returns list of (name, case, detail)"""
    cases = [gen(rng) for _ in range(n)]
    lines = [common.model_line(name, [], c["x"]) for c in cases]
    mres = common.run_model(lines, group=GROUP)
    bad = []
    hist = chk.cov.setdefault("histogram", {})
    for c, m in zip(cases, mres):
        r = call(fn, c["args"])
        hist[name] = hist.get(name, 0) + 1
        chk.cov["calls_checked_for_argument_mutation"] = chk.cov.get("calls_checked_for_argument_mutation", 0) + 1
        if r[0] == "OK" and len(r) > 2:
            bad.append((name, c, "the call modified its argument in place: " + "; ".join(r[2])))
        tol = rtol
        if "residual" in c:
            # oracle hypotheses of the SVD (checked on the real routine's output)
            if c["residual"] > oracle_tol:
                bad.append((name, c, f"SVD oracle hypothesis residual {c['residual']:.3e}"))
            tol = max(rtol, 1e-13 * c["cond"] ** 2) if name == "polar_right" else 1e-10
        trivial = r[0] == "OK" and not np.any(r[1])
        chk.note_case((name, c["x"].tobytes()), nontrivial=not trivial,
                      sample={"entry": name, "impl": r[0] if r[0] == "ERR" else [float(v) for v in r[1][:3]],
                              "model": m[0] if m[0] == "ERR" else [float(v) for v in m[1][:3]]})
        if r[0] == "ERR" or m[0] == "ERR":
            if not (r[0] == m[0] == "ERR"):
                bad.append((name, c, f"implementation: {r[:2]}, model: {m[:2] if m[0] == 'ERR' else 'OK'}"))
            continue
        okc, idx = common.vec_close(list(r[1]), m[1], rtol=tol)
        if not okc:
            a = r[1][idx] if 0 <= idx < len(r[1]) else None
            b = m[1][idx] if 0 <= idx < len(m[1]) else None
            bad.append((name, c, f"component {idx}: implementation {a!r} vs model {b!r}"))
    return bad
