"""Shared machinery of the checks: build (regenerate + coqc + extraction + driver),
lint, model runner, comparison, evidence / replay writers, verdict logic."""
from __future__ import annotations

import fcntl
import glob
import hashlib
import json
import math
import os
import random
import re
import subprocess
import sys
import time

VERIF = os.path.dirname(os.path.dirname(os.path.abspath(__file__)))
REPO = os.environ.get("PYDREX_REPO", "/repo")
COQ = os.path.join(VERIF, "coq")
BUILD = os.path.join(VERIF, "build")
EXTRACT = os.path.join(BUILD, "extract")
PY = "/venv/bin/python"

os.environ["PYTHONHASHSEED"] = "0"
os.environ.setdefault("NUMBA_CACHE_DIR", os.path.join(BUILD, "numba_cache"))


def use_repo_source():
    """Make `import pydrex` resolve to the current working tree of /repo."""
    src = os.path.join(REPO, "src")
    if src in sys.path:
        sys.path.remove(src)
    sys.path.insert(0, src)
    os.environ["PYTHONPATH"] = src
    try:  # keep check output readable (harness-side only; nothing in /repo changes)
        import logging
        import pydrex.logger as _pl
        _pl.CONSOLE_LOGGER.setLevel(logging.CRITICAL)
    except Exception:  # noqa: BLE001
        pass


# --------------------------------------------------------------------------
# float <-> hex
# --------------------------------------------------------------------------
def hx(x) -> str:
    x = float(x)
    if math.isnan(x):
        return "nan"
    if math.isinf(x):
        return "infinity" if x > 0 else "-infinity"
    return x.hex()


def unhx(s: str) -> float:
    if s in ("nan", "-nan"):
        return float("nan")
    if s in ("inf", "infinity"):
        return float("inf")
    if s in ("-inf", "-infinity"):
        return float("-inf")
    return float.fromhex(s)


# --------------------------------------------------------------------------
# build
# --------------------------------------------------------------------------
class BuildResult:
    def __init__(self):
        self.gen_error = None      # translator failed closed: message
        self.failed_vo = {}        # file -> error text
        self.built_vo = set()
        self.make_cmd = ""
        self.driver_ok = False
        self.driver_error = None
        self.lint = []
        self.assumptions = {}      # theorem -> text


class Lock:
    def __enter__(self):
        os.makedirs(BUILD, exist_ok=True)
        self.f = open(os.path.join(BUILD, ".lock"), "w")
        fcntl.flock(self.f, fcntl.LOCK_EX)
        return self

    def __exit__(self, *a):
        fcntl.flock(self.f, fcntl.LOCK_UN)
        self.f.close()


LINT_RE = re.compile(
    r"\b(Admitted|admit|Axiom|Axioms|Parameter|Parameters|Conjecture|Conjectures|"
    r"Admit Obligations|bypass_check|type-in-type|impredicative-set)\b|Unset\s+Guard|"
    r"Unset\s+Positivity|Unset\s+Universe"
)


def strip_comments(text):
    out, depth, i = [], 0, 0
    while i < len(text):
        if text.startswith("(*", i):
            depth += 1
            i += 2
        elif text.startswith("*)", i) and depth:
            depth -= 1
            i += 2
        else:
            if depth == 0:
                out.append(text[i])
            i += 1
    return "".join(out)


def lint_development():
    """No Admitted/admit/Axiom/Parameter/..., no Variable/Hypothesis outside a Section."""
    hits = []
    files = glob.glob(os.path.join(COQ, "**", "*.v"), recursive=True)
    for path in files:
        text = strip_comments(open(path).read())
        depth = 0
        for ln, line in enumerate(text.split("\n"), 1):
            m = LINT_RE.search(line)
            if m:
                hits.append(f"{os.path.relpath(path, COQ)}:{ln}: {m.group(0)}")
            s = line.strip()
            if re.match(r"(Section|Module)\s+\w+", s) and not s.startswith("Module Type"):
                if s.startswith("Section"):
                    depth += 1
            elif re.match(r"End\s+\w+\s*\.", s) and depth > 0:
                depth -= 1
            elif depth == 0 and re.match(r"(Variable|Variables|Hypothesis|Hypotheses|Context)\b", s):
                hits.append(f"{os.path.relpath(path, COQ)}:{ln}: {s.split()[0]} outside Section")
    return hits


def sh(cmd, cwd=None, timeout=1800, env=None):
    e = dict(os.environ)
    if env:
        e.update(env)
    p = subprocess.run(cmd, shell=True, cwd=cwd, stdout=subprocess.PIPE,
                       stderr=subprocess.STDOUT, timeout=timeout, env=e, text=True)
    return p.returncode, p.stdout


def regenerate():
    """Run the translator on the current working tree. Returns error text or None."""
    rc, out = sh(f"{PY} {VERIF}/translator/gen.py {COQ}/gen", timeout=600,
                 env={"PYDREX_REPO": REPO, "NUMBA_DISABLE_JIT": "1"})
    if rc != 0:
        return out[-6000:]
    return None


def coq_files():
    fs = []
    for line in open(os.path.join(COQ, "_CoqProject")):
        line = line.strip()
        if line.endswith(".v"):
            fs.append(line)
    return fs


def build(targets=None, jobs=16, groups=None) -> BuildResult:
    """Regenerate gen/*.v, build the Coq development (full .vo), extract, compile driver.
    `targets`: list of .v files (relative to coq/) whose .vo are required; None = all."""
    br = BuildResult()
    with Lock():
        br.gen_error = regenerate()
        sh(f"{VERIF}/mkproject.sh")
        if not os.path.exists(os.path.join(COQ, "Makefile")):
            sh("coq_makefile -f _CoqProject -o Makefile", cwd=COQ)
        files = coq_files()
        want = files if targets is None else targets
        vo = " ".join(f[:-2] + ".vo" for f in want)
        br.make_cmd = f"cd {COQ} && timeout 1500 make -k -j{jobs} {vo}"
        rc, out = sh(br.make_cmd, timeout=1600)
        br.make_out = out
        # which are up to date now?  (a stale .vo of a file whose dependency failed does
        # not count: ask make which targets it would still have to build)
        stale = set()
        if rc != 0:
            _, dry = sh(f"cd {COQ} && make -k -n {vo}", timeout=600)
            stale = set(re.findall(r"[A-Za-z_/0-9]+\.v\b", dry))
        for f in want:
            if os.path.exists(os.path.join(COQ, f[:-2] + ".vo")) and _fresh(f) and f not in stale:
                br.built_vo.add(f)
        if rc != 0:
            for m in re.finditer(r'File "\./([^"]+)", line (\d+), characters [\d-]+:\n((?:.*\n){1,12}?)(?=\n|make|File|COQC)', out):
                if "Error" in m.group(3):
                    br.failed_vo.setdefault(m.group(1), f"line {m.group(2)}: {m.group(3).strip()[:600]}")
            for f in want:
                if f not in br.built_vo and f not in br.failed_vo:
                    br.failed_vo[f] = "not built (a dependency failed)"
        # assumptions printed by Print Assumptions in Properties files
        for m in re.finditer(r"COQC (\S+)\n((?:(?!COQC).*\n)*)", out + "\n"):
            pass
        br.lint = lint_development()
        # extraction + drivers, one per group  (coq/Extract_<g>.v -> coq/model_<g>.ml)
        br.drivers = {}
        for ex in sorted(glob.glob(os.path.join(COQ, "Extract_*.v"))):
            g = os.path.basename(ex)[len("Extract_"):-2]
            if groups is not None and g not in groups:
                continue
            br.drivers[g] = _build_driver(g, os.path.basename(ex) in br.built_vo)
        br.driver_ok = all(v is None for v in br.drivers.values())
        br.driver_error = {g: v for g, v in br.drivers.items() if v is not None} or None
    return br


def _build_driver(g, vo_built):
    """returns None when build/extract/<g>/driver is up to date, else an error text"""
    d = os.path.join(EXTRACT, g)
    src_ml = os.path.join(COQ, f"model_{g}.ml")
    disp = os.path.join(VERIF, "ocaml", f"dispatch_{g}.ml")
    if not vo_built:
        return f"Extract_{g}.vo was not built"
    if not (os.path.exists(src_ml) and os.path.exists(disp)):
        return f"model_{g}.ml or ocaml/dispatch_{g}.ml missing"
    os.makedirs(d, exist_ok=True)
    srcs = [src_ml, os.path.join(COQ, f"model_{g}.mli"), os.path.join(VERIF, "ocaml", "driver.ml"), disp]
    key = hashlib.sha256(b"".join(open(p, "rb").read() for p in srcs)).hexdigest()
    stamp = os.path.join(d, ".stamp")
    if os.path.exists(stamp) and open(stamp).read() == key and os.path.exists(os.path.join(d, "driver")):
        return None
    sh(f"cp {src_ml} {d}/model.ml && cp {COQ}/model_{g}.mli {d}/model.mli && cp {VERIF}/ocaml/driver.ml {d}/driver.ml && cp {disp} {d}/dispatch.ml")
    rc2, out2 = sh("ocamlfind ocamlopt -O2 -w -a model.mli model.ml dispatch.ml driver.ml -o driver", cwd=d, timeout=900)
    if rc2 != 0:
        return out2[-2000:]
    open(stamp, "w").write(key)
    return None


def _fresh(f):
    v = os.path.join(COQ, f)
    vo = os.path.join(COQ, f[:-2] + ".vo")
    return os.path.getmtime(vo) >= os.path.getmtime(v)


def print_assumptions(vfile):
    """Parse the `Print Assumptions` output stored next to a Properties file."""
    log = os.path.join(COQ, vfile[:-2] + ".assumptions")
    if os.path.exists(log):
        return open(log).read()
    return ""


def count_statements(vfile):
    text = strip_comments(open(os.path.join(COQ, vfile)).read())
    return re.findall(r"^\s*(?:Theorem|Lemma|Corollary|Example|Fact|Remark)\s+(\w+)", text, re.M)


# --------------------------------------------------------------------------
# model runner (extracted OCaml driver)
# --------------------------------------------------------------------------
def run_model(lines, group="core"):
    """lines: list of 'entry ints | hexfloats' -> list of ('OK',[floats]) | ('ERR',name)"""
    # extracted list functions are not tail recursive: large cases (1e5 grains) need a big stack
    drv = os.path.join(EXTRACT, group, "driver")
    p = subprocess.run(["bash", "-c", f"ulimit -s unlimited 2>/dev/null || ulimit -s 1000000 2>/dev/null; exec {drv}"],
                       input="\n".join(lines) + "\n",
                       stdout=subprocess.PIPE, stderr=subprocess.PIPE, text=True, timeout=3600)
    if p.returncode != 0:
        raise RuntimeError("model driver failed: " + p.stderr[-2000:])
    out = []
    for ln in p.stdout.split("\n"):
        if not ln:
            continue
        w = ln.split()
        if w[0] == "OK":
            out.append(("OK", [unhx(x) for x in w[1:]]))
        else:
            out.append(("ERR", w[1]))
    if len(out) != len(lines):
        raise RuntimeError(f"model driver returned {len(out)} results for {len(lines)} cases")
    return out


def model_line(entry, ints, floats):
    return entry + " " + " ".join(str(int(i)) for i in ints) + " | " + " ".join(hx(x) for x in floats)


def close(a, b, rtol=1e-9, atol=None):
    if math.isnan(a) or math.isnan(b):
        return math.isnan(a) and math.isnan(b)
    if math.isinf(a) or math.isinf(b):
        return a == b
    tol = rtol * max(1.0, abs(a), abs(b)) if atol is None else atol + rtol * max(abs(a), abs(b))
    return abs(a - b) <= tol


def vec_close(xs, ys, rtol=1e-9, atol=None):
    if len(xs) != len(ys):
        return False, -1
    worst, wi = 0.0, None
    for i, (a, b) in enumerate(zip(xs, ys)):
        if not close(a, b, rtol, atol):
            return False, i
    return True, None


EXC_MAP = {
    "ZeroDivisionError": "DivZero", "ValueError": "ValueError", "AssertionError": "AssertionError",
    "IndexError": "IndexError", "TypeError": "TypeError", "KeyError": "KeyError",
}


def exc_code(e: BaseException) -> str:
    return EXC_MAP.get(type(e).__name__, type(e).__name__)


# --------------------------------------------------------------------------
# evidence / replays / verdict
# --------------------------------------------------------------------------
class Check:
    def __init__(self, pid, tier, seed):
        self.pid, self.tier, self.seed = pid, tier, seed
        self.t0 = time.time()
        self.rng = random.Random(seed)
        self.violations = []      # (replay_path, note)
        self.known = []           # KNOWN-FINDING lines
        self.cov = {"evaluations": 0, "distinct_nontrivial": 0, "samples": [],
                    "obligations": 0, "discharged": 0, "checker_cmd": "", "trusted_base": []}
        self.assumptions = []
        self._distinct = set()
        self.nreplay = 0

    def note_case(self, key, nontrivial=True, sample=None):
        self.cov["evaluations"] += 1
        if nontrivial:
            h = hashlib.sha1(repr(key).encode()).hexdigest()
            if h not in self._distinct:
                self._distinct.add(h)
                self.cov["distinct_nontrivial"] = len(self._distinct)
        if sample is not None and len(self.cov["samples"]) < 6:
            self.cov["samples"].append(sample)

    def replay(self, payload, no_input=False):
        os.makedirs(os.path.join(VERIF, "replays"), exist_ok=True)
        self.nreplay += 1
        path = os.path.join(VERIF, "replays", f"{self.pid}-{self.seed}-{self.nreplay}.json")
        payload = dict(payload)
        payload.setdefault("property", self.pid)
        payload.setdefault("seed", self.seed)
        payload["replay_cmd"] = f"./check {self.pid} --replay {path}"
        with open(path, "w") as f:
            json.dump(payload, f, indent=1, default=str)
        self.violations.append((path, no_input))
        return path

    def known_finding(self, text):
        self.known.append(text)

    def finish(self):
        self.cov.setdefault("rule", "")
        ev = {
            "property_id": self.pid, "tier": self.tier, "seed": self.seed, "level": "proof",
            "coverage": self.cov, "assumptions": self.assumptions,
            "wall_s": round(time.time() - self.t0, 2), "violations": len(self.violations),
        }
        os.makedirs(os.path.join(VERIF, "evidence"), exist_ok=True)
        with open(os.path.join(VERIF, "evidence", f"{self.pid}.json"), "w") as f:
            json.dump(ev, f, indent=1, default=str)
        for k in self.known:
            print(f"KNOWN-FINDING: property={self.pid} {k}")
        for path, no_input in self.violations:
            print(f"VIOLATION property={self.pid} replay={path}" + (" no-failing-input-found" if no_input else ""))
        return 1 if self.violations else 0


def load_known_findings():
    p = os.path.join(VERIF, "known_findings.json")
    if not os.path.exists(p):
        return []
    return json.load(open(p))["findings"]


TRUSTED_COMMON = [
    "Coq 8.16.1 kernel (coqc, full .vo build; vm_compute used, no native_compute)",
    "translator /verif/translator (symbolic execution of the Python source under NUMBA_DISABLE_JIT=1: proxy-numpy semantics, literal simplifications 0*x, 0+x, 1*x, x/inf; exhaustive path enumeration; scalar division by a non-constant raises on 0)",
    "extraction to OCaml with ExtrOcamlBasic only (Extract Inductive bool/option/unit/list/prod/sumbool); hand-written ocaml/driver.ml + dispatch.ml (binary64 Num dictionary, hex-float I/O)",
    "float/real gap: theorems are over Coq R; implementation and extracted model run in binary64 (implementation under numba fastmath)",
]
