"""Proof-side part of a check: build the obligations of a property, collect Print
Assumptions, translate failures into (possibly searched) violations."""
from __future__ import annotations

import os
import re
import subprocess
import tempfile

import common
from common import COQ, VERIF


def assumptions_of(module, theorems):
    """Run coqc on a tiny file that prints the assumptions of each theorem."""
    os.makedirs(os.path.join(common.BUILD, "pa"), exist_ok=True)
    path = os.path.join(common.BUILD, "pa", f"PA_{module.replace('.', '_')}.v")
    with open(path, "w") as f:
        f.write(f"From PV Require Import {module}.\n")
        for t in theorems:
            f.write(f'Print Assumptions {t}.\n')
    rc, out = common.sh(f"coqc -Q {COQ} PV {path}", cwd=os.path.join(common.BUILD, "pa"), timeout=900)
    res = {}
    if rc != 0:
        return {"error": out[-1500:]}
    # split output per theorem: outputs come in order
    blocks = re.split(r"(?m)^(?=Axioms:|Closed under the global context)", out)
    blocks = [b.strip() for b in blocks if b.strip()]
    for t, b in zip(theorems, blocks):
        if b.startswith("Closed"):
            res[t] = []
        else:
            res[t] = sorted(set(a for a in re.findall(r"(?m)^([A-Za-z_][\w.']*)\s*:", b) if a != "Axioms"))
    return res


def prove(chk, files, prop_file, groups=("core",), gen_modules=None):
    """Build `files` (+ the property file). Fills the obligations part of the evidence.
    Returns (ok, build_result)."""
    targets = list(files) + [prop_file]
    for g in groups:
        ex = f"Extract_{g}.v"
        if ex not in targets and os.path.exists(os.path.join(COQ, ex)):
            targets.append(ex)
    br = common.build(targets=targets, groups=tuple(groups))
    chk.br = br
    cov = chk.cov
    names = common.count_statements(prop_file)
    cov["obligations"] = len(names)
    cov["obligation_names"] = names
    cov["checker_cmd"] = br.make_cmd
    broken = []
    if br.gen_error:
        broken.append({"what": "translator failed closed (tie T broken)", "detail": br.gen_error[-1500:]})
    for f in targets:
        if f not in br.built_vo:
            broken.append({"what": f"proof obligation file {f} does not compile",
                           "detail": br.failed_vo.get(f, "not built")})
    if br.lint:
        broken.append({"what": "lint: forbidden construct in the development", "detail": br.lint})
    for g in groups:
        if br.drivers.get(g, "no such extraction group") is not None:
            broken.append({"what": f"extraction/driver build of group {g} failed", "detail": br.drivers.get(g, "missing")})
    if br.gen_error and gen_modules:
        if not any(("specs_" + m) in br.gen_error for m in gen_modules):
            broken = [b for b in broken if not b["what"].startswith("translator failed")]
    cov["discharged"] = len(names) if prop_file in br.built_vo else 0
    if prop_file in br.built_vo:
        mod = prop_file[:-2].replace("/", ".")
        pa = assumptions_of(mod, names)
        cov["print_assumptions"] = pa
        axs = sorted({a for v in pa.values() if isinstance(v, list) for a in v})
        chk.assumptions += [f"axiom (Print Assumptions): {a}" for a in axs]
    if chk.tier == "thorough" and prop_file in br.built_vo:
        # independent re-check of the compiled closure + the axioms it relies on
        mod = "PV." + prop_file[:-2].replace("/", ".")
        rc, out = common.sh(f"timeout 3000 coqchk -silent -o -Q {COQ} PV {mod}", cwd=COQ, timeout=3100)
        axioms = []
        grab = False
        for ln in out.split("\n"):
            if "Axioms:" in ln:
                grab = True
                continue
            if grab and ln.strip() and not ln.startswith(" "):
                grab = False
            if grab and ln.strip():
                axioms.append(ln.strip())
        cov["coqchk"] = {"exit": rc, "axioms": axioms, "tail": out[-600:],
                         "completed": rc != 124}
        # exit 124 = the time limit (closures with large CoqInterval certificates take > 50 min): recorded as
        # "not completed", not as a failure -- coqc has checked the same proofs
        if rc not in (0, 124):
            broken.append({"what": "coqchk rejected the compiled closure", "detail": out[-1500:]})
    cov["broken_obligations"] = broken
    return (not broken), br
