"""Module-state guard: the Coq models are PURE functions of their arguments.  The implementation is only
faithfully described by such a model if the anchored PyDRex modules keep no state between calls (memo tables,
module-level defaults handed out by reference, lru_caches, class-level registries).  This guard checks that
assumption dynamically on every run: it digests every module-level / class-level mutable container (and the size of
every functools cache) of the modules a property is anchored in before the check's calls and after them.  A
difference means the outcome of a call may depend on the call history, which no model of this development
expresses: the tie between model and code is broken (reported like a broken correspondence).

It does not replace the per-property call-sequence scenarios (which produce concrete failing histories); it is the
safety net that notices state those scenarios were not written for."""
from __future__ import annotations

import collections.abc as cabc
import hashlib
import importlib
import json
import os
import pickle
import sys
import types

HERE = os.path.dirname(os.path.abspath(__file__))
VERIF = os.path.dirname(HERE)


def anchored_modules(pid):
    mods = []
    for line in open(os.path.join(VERIF, "properties.jsonl")):
        d = json.loads(line)
        if d.get("id") != pid:
            continue
        for f in d.get("anchors", {}).get("files", []):
            if f.startswith("src/pydrex/") and f.endswith(".py"):
                mods.append("pydrex." + f[len("src/pydrex/"):-3].replace("/", "."))
    return mods


def _is_container(o):
    if isinstance(o, (str, bytes, tuple, frozenset, types.ModuleType, type)):
        return False
    if isinstance(o, (dict, list, set, bytearray, cabc.MutableMapping, cabc.MutableSequence, cabc.MutableSet)):
        return True
    return type(o).__module__ == "numpy" and type(o).__name__ == "ndarray"


def _digest(o):
    try:
        n = len(o)
    except Exception:
        n = -1
    try:
        if type(o).__name__ == "ndarray":
            h = hashlib.sha1(o.tobytes()).hexdigest()[:12]
        else:
            h = hashlib.sha1(pickle.dumps(o, protocol=4)).hexdigest()[:12]
    except Exception:
        try:
            h = hashlib.sha1(repr(sorted(map(repr, o))).encode()).hexdigest()[:12]
        except Exception:
            h = "?"
    return f"{type(o).__name__}[{n}]#{h}"


def _scan(prefix, ns, out, depth):
    for name, obj in list(ns.items()):
        if name.startswith("__") and name.endswith("__"):
            continue
        key = f"{prefix}.{name}"
        try:
            # (added for C18e, additive) DEFAULT ARGUMENT VALUES of the module's functions are evaluated once: a mutable
            # default that a function updates in place (`def f(kw, options={...}): options.update(kw)`) is process-wide state
            fn = getattr(obj, "py_func", obj)
            if isinstance(fn, types.FunctionType) and getattr(fn, "__module__", None) == prefix.split(":")[0]:
                for i, dv in enumerate(fn.__defaults__ or ()):
                    if _is_container(dv):
                        out[f"{key}:default[{i}]"] = _digest(dv)
                for dk, dv in (fn.__kwdefaults__ or {}).items():
                    if _is_container(dv):
                        out[f"{key}:kwdefault[{dk}]"] = _digest(dv)
            if _is_container(obj):
                out[key] = _digest(obj)
            elif obj is None or isinstance(obj, (tuple, frozenset, bool, int, float, complex, str, bytes)):
                # (added for C15d, additive) a module-level NAME rebound between calls -- `_LAST = None` becoming a tuple,
                # a counter, a flag -- is state as well, although the value itself is immutable
                if depth == 0:
                    out[key + ":value"] = _digest(obj) if isinstance(obj, (tuple, frozenset)) else f"{type(obj).__name__}:{obj!r}"[:80]
            elif callable(obj) and hasattr(obj, "cache_info"):
                out[key + ":cache"] = str(getattr(obj.cache_info(), "currsize", "?"))
            elif isinstance(obj, type) and depth == 0 and getattr(obj, "__module__", None) == prefix:
                _scan(key, vars(obj), out, 1)
            elif isinstance(obj, types.FunctionType) and obj.__dict__ and getattr(obj, "__module__", None) == prefix.split(":")[0]:
                # function attributes used as caches (f.cache = {})
                for an, av in obj.__dict__.items():
                    if _is_container(av):
                        out[f"{key}.{an}"] = _digest(av)
        except Exception:
            continue


class ModuleStateGuard:
    def __init__(self, pid):
        self.pid = pid
        self.modules = anchored_modules(pid)
        self.before = None

    def _snapshot(self):
        out = {}
        for m in self.modules:
            mod = sys.modules.get(m)
            if mod is None:
                try:
                    mod = importlib.import_module(m)
                except Exception:
                    continue
            _scan(m, vars(mod), out, 0)
        return out

    def start(self):
        self.before = self._snapshot()

    def changes(self):
        after = self._snapshot()
        ch = []
        for k in sorted(set(self.before) | set(after)):
            a, b = self.before.get(k), after.get(k)
            if a != b:
                ch.append({"object": k, "before": a, "after": b})
        return ch
