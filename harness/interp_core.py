"""Run pydrex.core.derivatives with NUMBA_DISABLE_JIT=1 (interpreted source) on pickled cases."""
import os
import pickle
import sys

os.environ["NUMBA_DISABLE_JIT"] = "1"
sys.path.insert(0, os.path.dirname(os.path.abspath(__file__)))
import common  # noqa: E402

common.use_repo_source()
import warnings  # noqa: E402

import numpy as np  # noqa: E402
import pydrex.core as core  # noqa: E402
import gen_core as G  # noqa: E402

cases = pickle.load(open(sys.argv[1], "rb"))
out = []
with warnings.catch_warnings():
    warnings.simplefilter("ignore")
    for c in cases:
        try:
            if c.get("present"):      # another spelling of the ordinals / keyword arguments / array layout of the same values
                Ad, fd = G.call_presented(core, c, *c["present"])
            else:
                Ad, fd = G.call_impl(core, c)
            out.append(("OK", np.asarray(Ad, dtype=float), np.asarray(fd, dtype=float)))
        except Exception as e:  # noqa: BLE001
            out.append(("ERR", common.exc_code(e), str(e)))
pickle.dump(out, open(sys.argv[2], "wb"))
