"""C01 -- every stored texture snapshot is a valid texture, after any update history.
Also hosts the history runner shared with C05-C09 (trace validation of the glue model)."""
from __future__ import annotations

import json

import numpy as np

import common
import proofs
import minerals_trace as MT
import argguard as AG
from common import hx

FILES = ["gen/Gen_core.v", "Model_core.v", "Model_minerals.v", "Proofs_core.v", "Proofs_minerals.v", "Proofs_flow.v",
         "Entry_core.v", "Extract_core.v"]
FILES += [f for f in MT.GLUE_TIE_FILES if f not in FILES]   # tie T of the glue model
PROP = "Properties/C01.v"

KF_DIFFUSION = "C01:matrix_diffusion:stretch-as-rotation-rate"


def strain_of(get_L, get_x, t0, t1, k=40):
    ts = np.linspace(t0, t1, k + 1)
    ss = []
    for t in ts:
        L = np.asarray(get_L(t, get_x(t)), dtype=float)
        ss.append(np.abs(np.linalg.eigvalsh((L + L.T) / 2)).max())
    return float(np.trapezoid(ss, ts))


# --------------------------------------------------------------------------
# Presentations of the INITIAL TEXTURE (round 7).  Every history above handed Mineral(...) freshly made C-contiguous
# float64 arrays.  The property quantifies over initial TEXTURES, i.e. over values: the same valid texture may reach
# the constructor as an integer array (an axis-aligned single crystal / one-hot volumes written with literals), as
# binary32 (restored from a single-precision file), Fortran-ordered, as a strided or contiguous view of a table the
# caller keeps, or read-only.  sc["texture_present"] = dict(okind, fkind, o_dtype, f_dtype, o_layout, f_layout):
#   okind   None: the orientations of sc["tkind"] (generic values; only float64, or ROUNDED to float32)
#           "axis_single" / "axis_mixed": one / per-grain random element of the 24 proper rotations of the cube
#           (entries -1, 0, 1: exact in every signed dtype)
#   fkind   None: the volumes of sc["tkind"];  "onehot" (exact in every numeric dtype);  "dyadic" (1/2, 1/4, ... shuffled)
#           and "uniform" (1/n, n a power of two): exact in every binary floating dtype
# A cast that is supposed to be exact is verified to be (ValueError otherwise: the scenario is malformed).
# --------------------------------------------------------------------------
TEXTURE_DTYPES_O = ("float64", "float32", "int64", "int32", "int8")
TEXTURE_DTYPES_F = ("float64", "float32", "int64", "int32", "uint8")
TEXTURE_LAYOUTS = ("fortran", "strided", "slice", "readonly")


def cube_rotations():
    """the 24 proper signed permutation matrices (int64)"""
    import itertools
    out = []
    for p in itertools.permutations(range(3)):
        for s in itertools.product((1, -1), repeat=3):
            M = np.zeros((3, 3), dtype=np.int64)
            for i in range(3):
                M[i, p[i]] = s[i]
            if round(float(np.linalg.det(M))) == 1:
                out.append(M)
    return out


def exact_texture(rng, n, okind, fkind):
    """(orientations or None, fractions or None) with exactly representable entries, float64"""
    O = f = None
    if okind == "axis_single":
        O = np.array([cube_rotations()[int(rng.integers(24))]] * n, dtype=float)
    elif okind == "axis_mixed":
        cube = cube_rotations()
        O = np.array([cube[int(i)] for i in rng.integers(24, size=n)], dtype=float)
    elif okind is not None:
        raise ValueError(okind)
    if fkind == "onehot":
        f = np.zeros(n)
        f[int(rng.integers(n))] = 1.0
    elif fkind == "dyadic":
        if n > 24:
            raise ValueError("dyadic volumes: at most 24 grains (2^-23 must be exact in binary32)")
        f = np.array([2.0 ** -(i + 1) for i in range(n - 1)] + [2.0 ** -(n - 1)])
        f = f[rng.permutation(n)]
    elif fkind == "uniform":
        if n & (n - 1):
            raise ValueError("uniform exact volumes need a power-of-two grain count")
        f = np.full(n, 1.0 / n)
    elif fkind is not None:
        raise ValueError(fkind)
    return O, f


def present_array(a, dtype=None, layout=None, exact=True):
    """the same values as another dtype / memory presentation (the dtype is kept by the layout step)"""
    a = np.ascontiguousarray(a)
    b = a.astype(dtype or a.dtype)
    if exact and not np.array_equal(b.astype(float), a.astype(float)):
        raise ValueError(f"presentation as {dtype} would change the values of the texture")
    if layout in (None, "none"):
        return b
    if layout == "fortran":         # 1-D arrays have no Fortran order: a transposed copy of a (n, 1) column instead
        return np.asfortranarray(b) if b.ndim > 1 else np.asfortranarray(b.reshape(-1, 1))[:, 0]
    if layout == "strided":         # every second entry of a table the caller keeps
        big = np.zeros(b.shape[:-1] + (2 * b.shape[-1],), dtype=b.dtype)
        v = big[..., ::2]
        v[...] = b
        return v
    if layout == "slice":           # one C-contiguous entry of a larger stack (what indexing a loaded / stacked history gives)
        big = np.zeros((3,) + b.shape, dtype=b.dtype)
        big[1] = b
        return big[1]
    if layout == "readonly":
        b = b.copy()
        b.setflags(write=False)
        return b
    raise ValueError(layout)


def build_presented(sc, assemblage=None, fractions=None):
    """MT.build, with the initial texture replaced by the presentation sc["texture_present"] asks for"""
    tp = sc.get("texture_present")
    if not tp:
        return MT.build(sc, assemblage, fractions)
    import pydrex
    m0, params, get_L, get_x, desc = MT.build(sc, assemblage, fractions)    # flow, pathline, parameters, ordinals of the scenario
    O, f = MT.init_texture(np.random.default_rng(sc["seed"]), sc["n"], sc["tkind"])     # = the texture MT.build made
    Oe, fe = exact_texture(np.random.default_rng([int(sc["seed"]), 0x7E47]), sc["n"], tp.get("okind"), tp.get("fkind"))
    od, fd = tp.get("o_dtype") or "float64", tp.get("f_dtype") or "float64"
    # generic values: float64 as they are, or ROUNDED to binary32 (a texture restored from a single-precision file)
    if (Oe is None and od not in ("float64", "float32")) or (fe is None and fd not in ("float64", "float32")):
        raise ValueError("generic texture values have no exact integer presentation")
    Op = present_array(O if Oe is None else Oe, od, tp.get("o_layout"), exact=Oe is not None or od == "float64")
    fp = present_array(f if fe is None else fe, fd, tp.get("f_layout"), exact=fe is not None or fd == "float64")
    m = pydrex.Mineral(phase=m0.phase, fabric=m0.fabric, regime=m0.regime, n_grains=sc["n"],
                       fractions_init=fp, orientations_init=Op)
    desc["texture_args"] = (Op, fp)
    return m, params, get_L, get_x, desc


def texture_presentation_scenarios(rng, tier="quick", regimes=(4, 6, 4, 0, 4, 6, 7, 4)):
    """Histories (2 updates: what the first update stores is what the second starts from) whose INITIAL TEXTURE reaches
    Mineral(...) in another dtype / memory presentation.  One-hot volumes run with chi > 0 (otherwise the volume block never
    moves).  Each new (dtype, layout) of the orientations is one more numba specialisation of apply_gbs (~0.7 s)."""
    plan = [  # okind, fkind, o_dtype, f_dtype, o_layout, f_layout
        ("axis_single", "onehot", "int64", "int64", None, None),       # np.array([[[1,0,0],[0,1,0],[0,0,1]]] * n), np.array([1,0,...])
        ("axis_mixed", "onehot", "int32", "int32", None, None),
        ("axis_mixed", "dyadic", "int8", "float64", None, None),
        (None, "onehot", "float64", "int64", None, None),              # integer volumes alone
        ("axis_single", None, "int64", "float64", None, None),         # integer orientations alone
        ("axis_mixed", "dyadic", "float32", "float32", None, None),
        ("axis_single", "uniform", "float32", "float32", None, None),
        (None, None, "float32", "float32", None, None),                # generic texture rounded to binary32
        (None, "onehot", "float64", "uint8", None, "strided"),
        (None, None, "float64", "float64", "fortran", "fortran"),
        (None, None, "float64", "float64", "strided", "strided"),
        (None, None, "float64", "float64", "slice", "slice"),
        (None, None, "float64", "float64", "readonly", "readonly"),
        ("axis_mixed", "onehot", "int64", "int64", "fortran", "slice"),
        ("axis_mixed", "uniform", "float32", "float64", "strided", "readonly"),
    ]
    if tier == "thorough":      # every dtype of either array x every layout, exact textures
        for i, od in enumerate(TEXTURE_DTYPES_O):
            for j, fd in enumerate(TEXTURE_DTYPES_F):
                for k, lay in enumerate((None,) + TEXTURE_LAYOUTS):
                    fk = "onehot" if fd[0] in "iu" else ("dyadic", "uniform")[(i + j + k) % 2]
                    plan.append((("axis_single", "axis_mixed")[(i + j + k) % 2], fk, od, fd, lay, TEXTURE_LAYOUTS[(i + k) % 4] if k else None))
    out = []
    for i, (ok, fk, od, fd, ol, fl) in enumerate(plan):
        n = int((2, 4, 8, 16)[int(rng.integers(4))]) if fk == "uniform" else int(rng.integers(2, 17))
        sc = MT.scenario(rng, regime=int(regimes[i % len(regimes)]), pair=MT.ACCEPTED[i % len(MT.ACCEPTED)], n=n, nupd=2,
                         # axis-aligned crystals sit on symmetric (non-rotating) orientations of axis-aligned flows: oblique flows for them
                         lkind=(("general", "time", "trace", "position")[i % 4] if ok else
                                ("simple", "general", "pure", "time", "trace", "position")[i % 6]),
                         tkind=MT.T_KINDS[i % len(MT.T_KINDS)], strain=float(rng.uniform(0.3, 0.8)))
        sc["params"]["gbm_mobility"] = float(rng.uniform(20, 200))
        if fk == "onehot":
            sc["params"]["gbs_threshold"] = float(rng.uniform(0.1, 0.9))
        sc["texture_present"] = dict(okind=ok, fkind=fk, o_dtype=od, f_dtype=fd, o_layout=ol, f_layout=fl)
        out.append(sc)
    return out


def note_presentation(chk, sc, hist):
    """evidence: histograms of the presentations of the initial texture that were run"""
    tp = sc.get("texture_present")
    if not tp:
        return
    cov = chk.cov.setdefault("texture_presentations", {"histories": 0, "updates_completed": 0, "orientations_dtype": {}, "fractions_dtype": {},
                                                        "orientations_layout": {}, "fractions_layout": {}, "values": {},
                                                        "stored_dtypes": {}})
    cov["histories"] += 1
    cov["updates_completed"] += sum(1 for u in hist["updates"] if "error" not in u)
    for key, val in (("orientations_dtype", tp.get("o_dtype")), ("fractions_dtype", tp.get("f_dtype")),
                     ("orientations_layout", tp.get("o_layout") or "c-contiguous"), ("fractions_layout", tp.get("f_layout") or "c-contiguous"),
                     ("values", f"{tp.get('okind') or sc['tkind']}/{tp.get('fkind') or sc['tkind']}")):
        cov[key][str(val)] = cov[key].get(str(val), 0) + 1
    m = hist["mineral"]
    for o, f in zip(m.orientations[1:], m.fractions[1:]):      # reported, not judged: C01 has no clause on the dtype of a snapshot
        k = f"{np.asarray(o).dtype}/{np.asarray(f).dtype}"
        cov["stored_dtypes"][k] = cov["stored_dtypes"].get(k, 0) + 1


def run_history(rec, sc, assemblage=None, fractions=None, F0=None, collect=None):
    """Drive one scenario; returns dict with per-update records and monitor failures."""
    m, params, get_L, get_x, desc = build_presented(sc, assemblage, fractions)
    n = sc["n"]
    F = np.eye(3) if F0 is None else F0.copy()
    if sc.get("F0_layout"):      # the same starting F in another memory presentation (Fortran order, strided view, read-only)
        Fkeep = F.copy()
        F = MT.G.relayout(F, sc["F0_layout"])
    t = 0.0
    L0 = np.asarray(get_L(0.0, get_x(0.0)), dtype=float)
    s0 = float(np.abs(np.linalg.eigvalsh((L0 + L0.T) / 2)).max())
    dt = (sc["strain"] / sc["nupd"]) / s0 if s0 > 0 else (0.5 / (float(np.abs(L0).max()) or 1.0)) / sc["nupd"]
    if sc.get("period"):        # flow families tied to the update length (MT.COINCIDENT_FLOWS): every update lasts one period
        dt = float(sc["period"]) / float(sc.get("rate", 1.0))
    if sc.get("regime_switch_update") is not None and sc.get("regime_switch"):
        # get_regime switches exactly at the start of update k (the regime left on the object by the previous call differs)
        sc["regime_switch"][2] = float(sc["regime_switch_update"]) * dt
    out = dict(sc=sc, updates=[], fails=[], mineral=m, params=params, F_hist=[F.copy()], strain=0.0,
               desc=desc, get_L=get_L, get_x=get_x, dt=dt)
    frozen = [(o.tobytes(), f.tobytes()) for o, f in zip(m.orientations, m.fractions)]
    eps = 0.0
    for k in range(sc["nupd"]):
        nbefore = len(m.orientations)
        kw = {}
        if sc.get("regime_switch"):
            kw["get_regime"] = (lambda tt, xx, sc=sc: MT.regime_given(sc, tt))
        guard = AG.snapshot((params, F) + tuple(desc.get("texture_args", ())))     # the caller's objects: parameters, F, initial texture arrays
        tr, Fn = rec.update(m, params, F, get_L, (t, t + dt, get_x), **kw)
        u = dict(index=k, t0=t, t1=t + dt, trace=tr)
        out["updates"].append(u)
        for fault in AG.diff(guard):
            out["fails"].append((k, "argument of update_orientations " + fault.replace("arg0", "params").replace("arg1", "deformation_gradient")
                                 .replace("arg2", "orientations_init").replace("arg3", "fractions_init")))
        # earlier snapshots untouched, list growth
        for i, (ob, fb) in enumerate(frozen):
            if m.orientations[i].tobytes() != ob or m.fractions[i].tobytes() != fb:
                out["fails"].append((k, f"earlier snapshot {i} was altered"))
        if tr.error is not None:
            if len(m.orientations) != nbefore or len(m.fractions) != nbefore:
                out["fails"].append((k, "failed update changed the stored history"))
            u["error"] = common.exc_code(tr.error)
            out["fails"].append((k, f"update raised {type(tr.error).__name__}: {tr.error}"))
            break
        if len(m.orientations) != nbefore + 1 or len(m.fractions) != nbefore + 1:
            out["fails"].append((k, "update did not append exactly one snapshot"))
        frozen.append((m.orientations[-1].tobytes(), m.fractions[-1].tobytes()))
        eps += strain_of(get_L, get_x, t, t + dt)
        # the stored VALUES are judged (value-preserving conversion to binary64 of whatever dtype the snapshot has)
        O, f = np.asarray(m.orientations[-1]), np.asarray(m.fractions[-1])
        if O.dtype.kind not in "fiub" or f.dtype.kind not in "fiub":
            out["fails"].append((k, f"stored snapshot is not numeric (dtypes {O.dtype} / {f.dtype})"))
            break
        O, f = O.astype(float), f.astype(float)
        for msg in MT.snapshot_valid(O, f, n):
            out["fails"].append((k, msg))
        if O.shape == (n, 3, 3) and np.all(np.isfinite(O)):
            err = MT.orthonormality_error(O)
            bound = 5e-3 + 1e-3 * ((k + 1) + 2 * eps)
            u["orth_err"], u["orth_bound"] = err, bound
            if err > bound:
                out["fails"].append((k, f"orthonormality error {err:.3e} exceeds {bound:.3e}"))
            if np.linalg.det(O).min() <= 0:
                out["fails"].append((k, "left-handed orientation matrix"))
        if k == 0 and sc.get("F0_layout") and not np.array_equal(F, Fkeep):
            out["fails"].append((k, "the caller's starting deformation gradient was modified in place by the update"))
        if desc.get("mutated"):
            out["fails"].append((k, "the array returned by the caller's velocity-gradient callable was modified in place by the update"))
        F = Fn
        out["F_hist"].append(F.copy())
        t += dt
    out["strain"] = eps
    return out


def validate_traces(chk, hist, bad, rtol_rhs=1e-9):
    """Trace validation: feed what the oracles produced to the extracted glue model."""
    sc, m, params = hist["sc"], hist["mineral"], hist["params"]
    MT.validate_problems(chk, hist, bad)     # LSODA's constructor arguments vs Model_minerals.lsoda_problem_of
    lines, meta = [], []
    for u in hist["updates"]:
        tr = u["trace"]
        if tr.error is None and not tr.step_ys and tr.F_returned is not None:
            # the model ties the stored snapshot and the returned F to the integrator's last vector: an update that completed
            # without a single LSODA step (a shortcut around the solver) has nothing to be tied to
            bad.append((sc, f"update {u['index']}: completed without any LSODA step (stored snapshot / returned F do not come from the integrator)"))
        if tr.error is not None or not tr.step_ys:
            continue
        k = u["index"]
        prev_o = np.asarray(m.orientations[k])
        y_last = tr.step_ys[-1]
        lines.append(MT.update_line(sc, params, prev_o, y_last))
        meta.append(("update", u, None))
        for call in tr.rhs_calls + tr.rhs_tail:
            if call["out"] is None:
                continue
            L, s, Sd = MT.oracle_values(hist["get_L"], hist["get_x"], call["t"], call["y"])
            # residual check of the eigenvalue oracle
            ref = MT.eigmax_closed_form((L + L.T) / 2)
            res = abs(ref - s) / max(1e-300, abs(ref), abs(s)) if max(abs(ref), abs(s)) > 0 else 0.0
            chk.cov["eigmax_residual_max"] = max(chk.cov.get("eigmax_residual_max", 0.0), res)
            if res > 1e-9:
                bad.append((sc, f"oracle hypothesis is_eigmax violated by eigvalsh: {s!r} vs closed form {ref!r}"))
            lines.append(MT.rhs_line(sc, params, L, s, Sd, call["y"], t=call["t"]))
            meta.append(("rhs", u, call))
    if not lines:
        return
    res = common.run_model(lines, "core")
    for (kind, u, call), r in zip(meta, res):
        tr = u["trace"]
        k = u["index"]
        if kind == "update":
            impl = list(tr.F_returned.reshape(-1)) + list(np.asarray(m.orientations[k + 1], dtype=float).reshape(-1)) \
                + list(np.asarray(m.fractions[k + 1], dtype=float))
            nontriv = not np.array_equal(np.asarray(m.orientations[k + 1]), np.asarray(m.orientations[k]))
            chk.note_case(("update", sc["seed"], k), nontrivial=nontriv,
                          sample={"kind": "update", "phase_fabric": list(sc["pair"]), "regime": sc["regime"],
                                  "n_grains": sc["n"], "flow": sc["lkind"], "texture": sc["tkind"],
                                  "update": k, "solver_steps": len(tr.step_ys),
                                  "stored_fractions_head": [float(x) for x in np.asarray(m.fractions[k + 1])[:3]]})
            if r[0] != "OK":
                bad.append((sc, f"update {k}: model returned {r}"))
                continue
            okc, idx = common.vec_close(impl, r[1], rtol=0.0, atol=1e-15)
            chk.cov["update_exact"] = chk.cov.get("update_exact", 0) + int(impl == r[1])
            if not okc:
                bad.append((sc, f"update {k}: stored snapshot / returned F differ from the model at component {idx}: "
                                f"{impl[idx]!r} vs {r[1][idx]!r}"))
        else:
            chk.note_case(("rhs", sc["seed"], k, call["t"]), nontrivial=bool(np.any(call["out"][9:])))
            if r[0] != "OK":
                bad.append((sc, f"eval_rhs at t={call['t']}: implementation returned a vector, model {r}"))
                continue
            okc, idx = common.vec_close(list(call["out"]), r[1], rtol=rtol_rhs)
            if not okc:
                bad.append((sc, f"eval_rhs at t={call['t']}: component {idx}: {call['out'][idx]!r} vs model {r[1][idx]!r}"))


def scenarios(chk, tier, regimes=(4, 4, 4, 6, 0, 7), extra_diffusion=True):
    rng = np.random.default_rng(chk.seed)
    N = 36 if tier == "quick" else 400
    scs = []
    # structured: every accepted (phase, fabric) x both dislocation regimes once
    for pair in MT.ACCEPTED:
        for regime in (4, 6):
            scs.append(MT.scenario(rng, regime=regime, pair=pair, nupd=2))
    for _ in range(N):
        scs.append(MT.scenario(rng, regime=int(regimes[rng.integers(len(regimes))])))
    # the regime supplied by a get_regime callable and changing along the history
    for r1, r2 in ((4, 0), (7, 4), (4, 6), (6, 4)):
        sc = MT.scenario(rng, regime=r1, nupd=2, lkind="simple")
        sc["regime_switch"] = [r1, r2, float(rng.uniform(0.05, 0.3))]
        scs.append(sc)
    # get_regime overrides, from the very first evaluation, the regime the mineral was constructed with
    for built, given in ((4, 0), (4, 7), (0, 4), (4, 6)):
        sc = MT.scenario(rng, regime=built, nupd=2, lkind="general")
        sc["regime_switch"] = [given, given, 0.0]
        scs.append(sc)
    scs.append(MT.scenario(rng, regime=4, nupd=2, lkind="shared"))
    # presentations of the arguments (own stream): ordinals as enum members / numpy integers (also what get_regime returns),
    # the velocity gradient handed back as a view of a caller's table / read-only / Fortran-ordered, starting F Fortran-ordered
    rngp = np.random.default_rng([chk.seed, 0xC01E])
    for j, (key, val) in enumerate((("spelling", "enum"), ("spelling", "np.uint8"), ("lkind", "L_view"), ("lkind", "L_readonly"),
                                    ("lkind", "L_fortran"), ("F0_layout", "fortran"))):
        sc = MT.scenario(rngp, regime=int((4, 6, 4, 0, 6, 7)[j]), nupd=2)
        sc[key] = val
        if key == "spelling":      # a regime switch strictly inside update 0, in that spelling
            sc["regime_switch"], sc["regime_switch_update"] = [sc["regime"], int((0, 4)[j % 2]), 0.0], float(rngp.uniform(0.3, 0.7))
        scs.append(sc)
    # get_regime switching between a dislocation and a viscosity-bound regime strictly INSIDE an update, textures with tiny
    # fractions and strong mobility (LSODA's raw vector then has slightly negative fractions / entries beyond 1: what is stored must
    # still be a valid texture)
    for j, (r1, r2) in enumerate(((4, 0), (6, 7), (4, 7), (0, 4))):
        sc = MT.scenario(rngp, regime=int((r1, r2, 4, 6)[j % 4]), nupd=int(1 + j % 2), tkind=("nonuniform", "random")[j % 2],
                         lkind=("simple", "general")[j % 2], strain=float(rngp.uniform(0.8, 1.2) * (1 + j % 2)),
                         n=int(rngp.integers(20, 41)))
        sc["params"]["gbm_mobility"] = float((200.0, rngp.uniform(100, 200))[j % 2])
        sc["params"]["nucleation_efficiency"] = float((0.0, rngp.uniform(0, 10))[j % 2])
        sc["regime_switch"], sc["regime_switch_update"] = [r1, r2, 0.0], float(rngp.uniform(0.3, 0.8))
        scs.append(sc)
    # velocity gradients that coincide exactly at the start, midpoint and end of every update and vary in between (own stream)
    scs += MT.coincident_scenarios(np.random.default_rng([chk.seed, 0xC06D]), tier, regimes=(4, 6, 4, 0, 7))
    # grain counts on block boundaries (independent stream; the scenarios above are unchanged)
    scs += MT.block_scenarios(np.random.default_rng([chk.seed, 0xB10C]), tier, regimes=(4, 6, 4, 0))
    # the initial texture in another dtype / memory presentation (own stream; the scenarios above are unchanged)
    scs += texture_presentation_scenarios(np.random.default_rng([chk.seed, 0x7E47]), tier)
    if tier == "thorough":
        scs.append(MT.scenario(rng, regime=4, n=500, nupd=2))
        scs.append(MT.scenario(rng, regime=4, n=20, nupd=100, strain=3.0))
    return scs


def encode_sc(sc):
    return json.loads(json.dumps(sc, default=lambda o: o.tolist() if hasattr(o, "tolist") else str(o)))


def known_diffusion(chk, rec):
    """The open finding: matrix_diffusion uses the left stretch of L.F as the orientation rate."""
    rng = np.random.default_rng(12345)
    sc = MT.scenario(rng, regime=1, pair=(0, 0), n=6, lkind="simple", tkind="random", nupd=1, strain=0.5)
    h = run_history(rec, sc)
    return [msg for _, msg in h["fails"] if "orthonormality" in msg or "left-handed" in msg], sc


def run(chk):
    ok, br = proofs.prove(chk, FILES, PROP, groups=("core",), gen_modules=MT.GLUE_TIE_GEN)
    chk.cov["trusted_base"] = common.TRUSTED_COMMON + [MT.GLUE_TIE_TRUSTED,
        "hand-written Model_minerals (extract_vars, apply_gbs, update, histories, eval_rhs), tied by trace validation: the extracted model must reproduce the stored snapshot / returned F (exactly) and the recorded eval_rhs outputs (1e-9) from the recorded integrator vectors",
        "oracle: LSODA's final state vector (no hypothesis beyond its length and a positive clipped fraction sum; every theorem holds for all such vectors)",
        "oracle: np.abs(eigvalsh(D)).max() is the largest |v.Dv| over unit v (is_eigmax); residual-checked against a closed-form cubic solution on every recorded call",
        "NOT proved, measured on every stored snapshot of this run: orthonormality drift bound 5e-3 + 1e-3 (N + 2 strain), right-handedness, finiteness in binary64",
    ]
    chk.cov["rule"] = ("histories = every accepted (phase, fabric) x both dislocation regimes + seeded random scenarios over regimes {4,6,0,7}, "
                       "7 flow families (simple/pure/axisymmetric/general/non-zero trace/time-dependent/position-dependent along a pathline) + stopping / spin / shared-array "
                       "flows + 5 families whose samples at the start, midpoint and end of every update coincide exactly (cosine periods, pulses, shear zones, closed pathline), "
                       "4 initial texture families + the initial texture presented as int64 / int32 / int8 / uint8 / float32 arrays (axis-aligned orientations, one-hot / dyadic / "
                       "power-of-two uniform volumes: exact in those dtypes; generic textures rounded to binary32) and Fortran-ordered / strided / slice-of-a-stack / "
                       "read-only (15 histories of 2 updates, thorough +125; the caller's parameters, F and texture arrays must come back unchanged), 2..24 grains + block-boundary grain counts (63..1024 [thorough ..4096]: powers of two and neighbours, multiples of 64/128/256/1000/1024), 1..4 updates, M* in [0,200], chi in [0,0.9] (20% chi=0), lambda* in [0,10]; "
                       "every update is one case (the model must reproduce the stored snapshot from LSODA's last vector) and up to 6 recorded "
                       "eval_rhs calls per update are further cases; non-trivial = the texture changed / the rates are not all zero")
    bad, mon = [], []
    import pydrex  # noqa: F401
    with MT.Recorder() as rec:
        if br.drivers.get("core", 1) is None:
            worst = 0.0
            for sc in scenarios(chk, chk.tier):
                h = run_history(rec, sc)
                validate_traces(chk, h, bad)
                note_presentation(chk, sc, h)
                for k, msg in h["fails"]:
                    mon.append((sc, k, msg))
                for u in h["updates"]:
                    if "orth_err" in u:
                        worst = max(worst, u["orth_err"] / u["orth_bound"])
            chk.cov["orthonormality_error_over_bound_max"] = worst
            chk.cov["traces_validated_against_impl"] = chk.cov["evaluations"]
            # reproducibility of default-constructed minerals
            import pydrex as px
            for seed in (0, np.int64(0), 1, 7, 2024):
                a, b = px.Mineral(n_grains=40, seed=seed), px.Mineral(n_grains=40, seed=seed)
                if not (np.array_equal(a.orientations[0], b.orientations[0]) and np.array_equal(a.fractions[0], b.fractions[0])):
                    mon.append(({"seed": seed}, 0, "default-constructed mineral not reproducible from its seed"))
                for msg in MT.snapshot_valid(a.orientations[0], a.fractions[0], 40):
                    mon.append(({"seed": seed}, 0, "initial snapshot: " + msg))
                if MT.orthonormality_error(a.orientations[0]) > 1e-12:
                    mon.append(({"seed": seed}, 0, "initial orientations not orthonormal"))
        kf, kf_sc = known_diffusion(chk, rec)
    chk.cov["disagreements"] = len(bad)
    chk.cov["monitor_failures"] = len(mon)
    for f in common.load_known_findings():
        if f["key"] == KF_DIFFUSION and f["status"] == "open" and kf:
            chk.known_finding(f"regime matrix_diffusion integrates the left stretch of L.F as orientation rate: {kf[0]} (scenario seed {kf_sc['seed']})")
    if ok and not bad and not mon:
        return
    if mon:
        seen = set()
        for sc, k, msg in mon:
            sig = msg.split(" ")[0:3]
            if tuple(sig) in seen:
                continue
            seen.add(tuple(sig))
            chk.replay({"kind": "property-violation", "call": "Mineral.update_orientations (history)",
                        "scenario": encode_sc(sc), "update_index": k, "observed": msg,
                        "required": "C01 (valid snapshot / append-only history)",
                        "broken": chk.cov.get("broken_obligations", []),
                        "disagreements": [m for _, m in bad[:3]]})
            if len(seen) >= 3:
                break
    else:
        chk.replay({"kind": "unproved", "broken": chk.cov.get("broken_obligations", []),
                    "disagreements": [{"scenario": encode_sc(sc), "detail": m} for sc, m in bad[:3]],
                    "note": "proof obligation or correspondence no longer checks; the runtime monitors found no invalid snapshot"},
                   no_input=True)


def replay(d):
    common.use_repo_source()
    if d.get("kind") != "property-violation":
        print("replay file names a broken obligation; re-run the check itself")
        return 1
    sc = d["scenario"]
    if "pair" not in sc and "seed" in sc:
        # construction-time clause: a default-constructed mineral is valid and reproducible from its seed
        import pydrex as px
        fails = []
        for seed in (int(sc["seed"]), np.int64(int(sc["seed"]))):
            a, b = px.Mineral(n_grains=40, seed=seed), px.Mineral(n_grains=40, seed=seed)
            if not (np.array_equal(a.orientations[0], b.orientations[0]) and np.array_equal(a.fractions[0], b.fractions[0])):
                fails.append(f"default-constructed mineral not reproducible from its seed {seed!r}")
            fails += ["initial snapshot: " + m for m in MT.snapshot_valid(a.orientations[0], a.fractions[0], 40)]
            if MT.orthonormality_error(a.orientations[0]) > 1e-12:
                fails.append("initial orientations not orthonormal")
        for m in fails:
            print("still fails:", m)
        return 1 if fails else 0
    if "pair" not in sc:
        print("replay of a construction-time failure: re-run the check")
        return 1
    sc["pair"] = tuple(sc["pair"])
    with MT.Recorder() as rec:
        h = run_history(rec, sc)
    for k, msg in h["fails"]:
        print("still fails:", k, msg)
    return 1 if h["fails"] else 0
