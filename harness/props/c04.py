"""C04 -- frame indifference and crystal-symmetry invariance of rates and textures."""
from __future__ import annotations

import itertools

import numpy as np

import common
import proofs
import gen_core as G
import minerals_trace as MT
from props import c01, c03

FILES = ["gen/Gen_core.v", "Model_core.v", "Spec_drex.v", "Proofs_core.v", "Proofs_total.v", "Proofs_spec.v",
         "Proofs_frame.v", "Proofs_frame2.v", "Proofs_frame3.v", "Proofs_twofold.v", "Proofs_twofold2.v", "Entry_core.v", "Extract_core.v"]
PROP = "Properties/C04.v"
TWOFOLDS = [np.diag([1.0, -1.0, -1.0]), np.diag([-1.0, 1.0, -1.0]), np.diag([-1.0, -1.0, 1.0])]


def rotated(c, Q):
    c2 = dict(c)
    c2["O"] = np.einsum("nij,kj->nik", c["O"], Q)          # A Q^T
    c2["L"] = Q @ c["L"] @ Q.T
    c2["D"] = Q @ c["D"] @ Q.T
    return c2


def flipped(c, picks):
    c2 = dict(c)
    O = c["O"].copy()
    for g, k in picks:
        O[g] = TWOFOLDS[k] @ O[g]
    c2["O"] = O
    return c2


def degenerate(c):
    """grains at which the model itself is discontinuous, so that rounding-level changes of
    the inputs (a rotation of the frame in floating point) change the rates by O(1):
    no resolved slip (max activity < 1e-9) or two activities tied at a non-negligible level
    (exact ties included: a rotation turns them into near ties)"""
    act, inv = G.activities(c)
    s = np.sort(act, axis=1)
    top = s[:, 3]
    if np.any(top < 1e-9):
        return True
    if c["phase"] == 1:
        return bool(np.any(np.abs(np.abs(inv[:, 3]) - 1e-15) < 1e-13))
    lvl = 1e-6 * top[:, None]
    tie = (s[:, 1:] > lvl) & (np.diff(s, axis=1) <= lvl)
    return bool(tie.any())


def rate_oracle(core, c, rng):
    """C04 for instantaneous rates, read directly on the implementation."""
    r0 = c03.impl(core, c)
    if r0[0] == "ERR":
        return []          # C03's business
    if degenerate(c):
        return []
    fails = []
    Ad, fd = r0[1], r0[2]
    sa = max(1.0, float(np.abs(Ad).max()))
    sf = max(1e-300, float(np.abs(fd).max()))
    Q = G.rand_rot(rng, 1)[0]
    r1 = c03.impl(core, rotated(c, Q))
    if r1[0] == "ERR":
        fails.append(f"rotated frame raises {r1[1]}")
    else:
        if np.abs(r1[1] - np.einsum("nij,kj->nik", Ad, Q)).max() > 1e-9 * sa:
            fails.append("orientation rates do not co-rotate with the reference frame")
        if np.abs(r1[2] - fd).max() > 1e-9 * sf + 1e-13:
            fails.append("volume rates change under a rotation of the reference frame")
    picks = [(g, int(rng.integers(3))) for g in range(c["ng"]) if rng.random() < 0.5]
    if picks:
        r2 = c03.impl(core, flipped(c, picks))
        if r2[0] == "ERR":
            fails.append(f"symmetry-equivalent orientation raises {r2[1]}")
        else:
            exp = Ad.copy()
            for g, k in picks:
                exp[g] = TWOFOLDS[k] @ Ad[g]
            if np.abs(r2[1] - exp).max() > 1e-9 * sa:
                fails.append("orientation rate of a symmetry-equivalent grain is not the equivalent rate")
            if np.abs(r2[2] - fd).max() > 1e-9 * sf + 1e-13:
                fails.append("volume rates change when grains are replaced by symmetry-equivalent orientations")
    return fails


def run(chk):
    ok, br = proofs.prove(chk, FILES, PROP, groups=("core",), gen_modules=("core",))
    import pydrex.core as core
    chk.cov["trusted_base"] = common.TRUSTED_COMMON + [
        "frame indifference is proved about Spec_drex and transferred to the generated kernel by the C02 equality (valid pairs, deformation exponent <> 0)",
        "two-fold symmetry is proved for the generated kernel and for aggregates with any subset of grains relabelled (sign triples per grain)",
        "PARTIAL: integrated textures (LSODA) are compared by paired runs within the solver tolerance, not proved",
    ]
    chk.cov["rule"] = ("rates: the C03 generator (all valid phase/fabric pairs, both regimes, 5 flow families, 4 volume families) with, per case, one Haar rotation of "
                       "the frame and one random two-fold relabelling of a random subset of grains; integrated: paired LSODA histories original / rotated frame / "
                       "two-fold relabelled initial texture; non-trivial = rates not all zero")
    bad, mon = [], []
    rng = np.random.default_rng(chk.seed)
    if br.drivers.get("core", 1) is None:
        cases = [c for c in c03.gen_cases(chk, chk.tier) if c["ng"] <= 64]
        worst = 0.0
        for c in cases:
            fails = rate_oracle(core, c, rng)
            if degenerate(c):
                chk.cov["degenerate_excluded"] = chk.cov.get("degenerate_excluded", 0) + 1
            chk.note_case(("rate", c["regime"], c["phase"], c["fabric"], c["O"].tobytes(), c["L"].tobytes()),
                          nontrivial=True,
                          sample={"regime": c["regime"], "phase": c["phase"], "fabric": c["fabric"], "n_grains": c["ng"], "kinds": list(c["kinds"])})
            if fails:
                mon.append((c, fails))
        # the model itself on rotated inputs (ties the rotated calls to the proved model)
        sub = cases[:150]
        Qs = G.rand_rot(rng, len(sub))
        bad += c03.compare(chk, core, [rotated(c, Q) for c, Q in zip(sub, Qs) if not degenerate(c)], "spec_derivs")
        # integrated textures
        with MT.Recorder() as rec:
            N = 6 if chk.tier == "quick" else 80
            for i in range(N):
                sc = MT.scenario(rng, regime=int((4, 6)[i % 2]), n=int(rng.integers(3, 12)), nupd=int(rng.integers(1, 4)),
                                 lkind=["simple", "pure", "general", "axisym"][rng.integers(4)])
                h0 = c01.run_history(rec, sc)
                if h0["fails"]:
                    continue
                Q = G.rand_rot(rng, 1)[0]
                m, params, get_L, get_x, _ = MT.build(sc)
                m.orientations[0] = np.einsum("nij,kj->nik", m.orientations[0], Q)
                getLq = lambda t, x, g=get_L: Q @ g(t, x) @ Q.T
                F = np.eye(3)
                t = 0.0
                for k in range(sc["nupd"]):
                    F = m.update_orientations(params, F, getLq, (t, t + h0["dt"], get_x))
                    t += h0["dt"]
                tol = 5e-3 + 1e-3 * (sc["nupd"] + 2 * h0["strain"])
                # volume fractions: LSODA runs with atol = 1e-4 per component and step, so two runs in
                # different frames may differ by a few 1e-4; the alarm threshold is the accumulated solver
                # tolerance, not 1e-4 (that was a false alarm under VERIF_SEED=424242: 1.3e-4)
                ftol = 5e-4 + 1e-3 * (sc["nupd"] + 2 * h0["strain"])
                O0 = np.einsum("nij,kj->nik", np.asarray(h0["mineral"].orientations[-1]), Q)
                dO = float(np.abs(np.asarray(m.orientations[-1]) - O0).max())
                df = float(np.abs(np.asarray(m.fractions[-1]) - np.asarray(h0["mineral"].fractions[-1])).max())
                dF = float(np.abs(F - Q @ h0["F_hist"][-1] @ Q.T).max())
                worst = max(worst, dO / tol)
                chk.note_case(("integrated", sc["seed"]), nontrivial=True)
                if dO > tol or df > ftol or dF > tol:
                    mon.append((sc, [f"integrated texture in a rotated frame differs: orientations {dO:.3e}, fractions {df:.3e}, F {dF:.3e}"]))
                # two-fold relabelled initial texture
                m2, params, get_L, get_x, _ = MT.build(sc)
                picks = [(g, int(rng.integers(3))) for g in range(sc["n"]) if rng.random() < 0.5]
                for g, k in picks:
                    m2.orientations[0][g] = TWOFOLDS[k] @ m2.orientations[0][g]
                F = np.eye(3)
                t = 0.0
                for k in range(sc["nupd"]):
                    F = m2.update_orientations(params, F, get_L, (t, t + h0["dt"], get_x))
                    t += h0["dt"]
                exp = np.asarray(h0["mineral"].orientations[-1]).copy()
                for g, k in picks:
                    exp[g] = TWOFOLDS[k] @ exp[g]
                dO = float(np.abs(np.asarray(m2.orientations[-1]) - exp).max())
                df = float(np.abs(np.asarray(m2.fractions[-1]) - np.asarray(h0["mineral"].fractions[-1])).max())
                if dO > tol or df > ftol:
                    mon.append((sc, [f"integrated texture of symmetry-equivalent grains differs: orientations {dO:.3e}, fractions {df:.3e}"]))
        chk.cov["integrated_frame_error_over_tolerance_max"] = worst
        chk.cov["traces_validated_against_impl"] = chk.cov["evaluations"]
    chk.cov["disagreements"] = len(bad)
    chk.cov["monitor_failures"] = len(mon)
    if ok and not bad and not mon:
        return
    if mon:
        c, fails = mon[0]
        payload = {"kind": "property-violation", "observed": fails, "required": "C04",
                   "broken": chk.cov.get("broken_obligations", []), "disagreements": [m for _, m in bad[:3]]}
        if "O" in c:
            payload.update(call="pydrex.core.derivatives (paired calls)", input=c03.encode(c))
        else:
            payload.update(call="Mineral.update_orientations (paired histories)", scenario=c01.encode_sc(c))
        chk.replay(payload)
    else:
        chk.replay({"kind": "unproved", "broken": chk.cov.get("broken_obligations", []),
                    "disagreements": [m for _, m in bad[:3]],
                    "note": "proof obligation or correspondence no longer checks; no failing input found"}, no_input=True)


def replay(d):
    common.use_repo_source()
    import pydrex.core as core
    if d.get("kind") != "property-violation" or "input" not in d:
        print("re-run ./check C04")
        return 1
    c = c03.decode(d["input"])
    bad = []
    for seed in range(5):
        bad += rate_oracle(core, c, np.random.default_rng(seed))
    for f in bad[:5]:
        print("still fails:", f)
    return 1 if bad else 0
