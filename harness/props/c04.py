"""C04 -- frame indifference and crystal-symmetry invariance of rates and textures."""
from __future__ import annotations

import itertools

import numpy as np

import common
import proofs
import gen_core as G
import minerals_trace as MT
from props import c01, c03

FILES = ["gen/Gen_core.v", "Model_core.v", "Spec_drex.v", "Proofs_core.v", "Proofs_total.v", "Proofs_spec.v",
         "Proofs_frame.v", "Proofs_frame2.v", "Proofs_frame3.v", "Proofs_twofold.v", "Proofs_twofold2.v", "Entry_core.v", "Extract_core.v"]
PROP = "Properties/C04.v"
TWOFOLDS = [np.diag([1.0, -1.0, -1.0]), np.diag([-1.0, 1.0, -1.0]), np.diag([-1.0, -1.0, 1.0])]


def rotated(c, Q):
    c2 = dict(c)
    c2["O"] = np.einsum("nij,kj->nik", c["O"], Q)          # A Q^T
    c2["L"] = Q @ c["L"] @ Q.T
    c2["D"] = Q @ c["D"] @ Q.T
    return c2


def rot_L(L, Q):
    """Q L Q^T with the strain rate and the spin rotated separately and re-(anti)symmetrised.
    A velocity gradient with EXACTLY zero strain rate (rigid rotation) or exactly zero spin
    keeps that property in the rotated frame; fl(Q W Q^T) alone has a strain rate ~1e-17
    and would leave the exact-zero branch of eval_rhs."""
    L = np.asarray(L, dtype=float)
    D, W = (L + L.T) / 2, (L - L.T) / 2
    Dq, Wq = Q @ D @ Q.T, Q @ W @ Q.T
    return (Dq + Dq.T) / 2 + (Wq - Wq.T) / 2


def rotated_exact(c, Q):
    """the frame-rotated partner with L built by rot_L and D its exact symmetric part"""
    c2 = dict(c)
    c2["O"] = np.einsum("nij,kj->nik", c["O"], Q)
    c2["L"] = rot_L(c["L"], Q)
    Dq = Q @ c["D"] @ Q.T
    c2["D"] = (Dq + Dq.T) / 2
    return c2


def flipped(c, picks):
    c2 = dict(c)
    O = c["O"].copy()
    for g, k in picks:
        O[g] = TWOFOLDS[k] @ O[g]
    c2["O"] = O
    return c2


PICK_MODES = ["half", "all", "one", "same"]


def draw_picks(rng, n, mode="half"):
    """which grains are replaced by a symmetry-equivalent orientation, and by which two-fold:
    a random half (the original family), every grain, exactly one grain, every grain by the same
    operation.  Never empty."""
    if mode == "all":
        return [(g, int(rng.integers(3))) for g in range(n)]
    if mode == "one":
        return [(int(rng.integers(n)), int(rng.integers(3)))]
    if mode == "same":
        k = int(rng.integers(3))
        return [(g, k) for g in range(n)]
    picks = [(g, int(rng.integers(3))) for g in range(n) if rng.random() < 0.5]
    return picks or [(int(rng.integers(n)), int(rng.integers(3)))]


def degenerate(c):
    """grains at which the model itself is discontinuous, so that rounding-level changes of
    the inputs (a rotation of the frame in floating point) change the rates by O(1):
    no resolved slip (max activity < 1e-9) or two activities tied at a non-negligible level
    (exact ties included: a rotation turns them into near ties)"""
    act, inv = G.activities(c)
    s = np.sort(act, axis=1)
    top = s[:, 3]
    if np.any(top < 1e-9):
        return True
    if c["phase"] == 1:
        return bool(np.any(np.abs(np.abs(inv[:, 3]) - 1e-15) < 1e-13))
    lvl = 1e-6 * top[:, None]
    tie = (s[:, 1:] > lvl) & (np.diff(s, axis=1) <= lvl)
    return bool(tie.any())


def _input_bytes(c):
    return tuple(np.asarray(c[k]).tobytes() for k in ("O", "f", "D", "L", "S"))


def rate_oracle(core, c, rng, exact_zero=False):
    """C04 for instantaneous rates, read directly on the implementation.
    exact_zero: the case has an EXACTLY zero strain rate (rigid rotation or rest); the rotated
    partner is then built with an exactly zero strain rate as well (rotated_exact), so both calls
    sit on the same side of the model's no-slip discontinuity and the case is not excluded."""
    before = _input_bytes(c)
    r0 = c03.impl(core, c)
    if r0[0] == "ERR":
        return []          # C03's business
    if not exact_zero and degenerate(c):
        return []
    rot = rotated_exact if exact_zero else rotated
    fails = []
    Ad, fd = r0[1], r0[2]
    sa = max(1.0, float(np.abs(Ad).max()))
    sf = max(1e-300, float(np.abs(fd).max()))
    # one Haar rotation and one of the 24 proper signed permutations (exactly representable:
    # Q L Q^T carries no rounding, so an error hidden by the generic rotation's noise floor shows)
    Qs = [("a random rotation", G.rand_rot(rng, 1)[0]),
          ("an axis-permuting rotation", G.SIGNED_PERMS[int(rng.integers(len(G.SIGNED_PERMS)))])]
    for qname, Q in Qs:
        r1 = c03.impl(core, rot(c, Q))
        if r1[0] == "ERR":
            fails.append(f"rotated frame raises {r1[1]}")
        else:
            if np.abs(r1[1] - np.einsum("nij,kj->nik", Ad, Q)).max() > 1e-9 * sa:
                fails.append(f"orientation rates do not co-rotate with the reference frame ({qname})")
            if np.abs(r1[2] - fd).max() > 1e-9 * sf + 1e-13:
                fails.append(f"volume rates change under a rotation of the reference frame ({qname})")
    for mode in ("half", PICK_MODES[1 + int(rng.integers(3))]):
        if mode == "half":      # the original family (may be empty)
            picks = [(g, int(rng.integers(3))) for g in range(c["ng"]) if rng.random() < 0.5]
        else:
            picks = draw_picks(rng, c["ng"], mode)
        if picks:
            r2 = c03.impl(core, flipped(c, picks))
            if r2[0] == "ERR":
                fails.append(f"symmetry-equivalent orientation raises {r2[1]}")
            else:
                exp = Ad.copy()
                for g, k in picks:
                    exp[g] = TWOFOLDS[k] @ Ad[g]
                if np.abs(r2[1] - exp).max() > 1e-9 * sa:
                    fails.append("orientation rate of a symmetry-equivalent grain is not the equivalent rate")
                if np.abs(r2[2] - fd).max() > 1e-9 * sf + 1e-13:
                    fails.append("volume rates change when grains are replaced by symmetry-equivalent orientations")
    # state carried between calls: the paired calls above must neither have written into the
    # caller's arrays nor changed what the original call returns
    if _input_bytes(c) != before:
        fails.append("derivatives wrote into one of its input arrays")
    r3 = c03.impl(core, c)
    if r3[0] != "OK" or not (np.array_equal(r3[1], Ad) and np.array_equal(r3[2], fd)):
        fails.append("repeating the original call after the rotated / relabelled calls returns different rates")
    # the strain rate handed over as the SAME array object as the velocity gradient (legal when L is symmetric)
    if np.array_equal(c["D"], c["L"]):
        c4 = dict(c)
        c4["D"] = c4["L"] = np.ascontiguousarray(c["L"], dtype=float).copy()
        r4 = c03.impl(core, c4)
        if r4[0] != "OK" or not (np.array_equal(r4[1], Ad) and np.array_equal(r4[2], fd)):
            fails.append("rates change when strain rate and velocity gradient are one array object")
    return fails


def zero_strain_rate_cases(rng, tier):
    """boundary stream for the rates: strain rate EXACTLY zero (rigid rotation about a random or a
    coordinate axis; no motion at all), every valid pair x both dislocation regimes"""
    cases = []
    for rep in range(1 if tier == "quick" else 6):
        for pair in G.VALID_PAIRS:
            for regime in (4, 6):
                for kind in ("spin", "axis_spin", "rest"):
                    c = G.case(rng, n_grains=int(rng.integers(1, 7)), pair=pair, regime=regime,
                               okind=("haar", "aligned", "near_aligned")[int(rng.integers(3))], lkind="general",
                               fkind=G.F_KINDS[int(rng.integers(len(G.F_KINDS)))])
                    w = rng.normal(size=3)
                    if kind == "axis_spin":
                        w = np.eye(3)[int(rng.integers(3))] * float(rng.uniform(0.2, 3.0))
                    if kind == "rest":
                        w = np.zeros(3)
                    c["L"] = np.array([[0.0, -w[2], w[1]], [w[2], 0.0, -w[0]], [-w[1], w[0], 0.0]])
                    c["D"] = np.zeros((3, 3))
                    c["kinds"] = (c["kinds"][0], "zero_strain_rate:" + kind, c["kinds"][2])
                    cases.append(c)
    return cases


# --------------------------------------------------------------------------
# integrated textures: paired histories
# --------------------------------------------------------------------------
GENERIC_FLOWS = ["simple", "pure", "general", "axisym"]
ZERO_STRAIN_FLOWS = ["spin", "shear_then_spin", "stopping"]       # L exactly antisymmetric / exactly zero for (part of) the history
VARYING_FLOWS = ["time", "position"]
PLANAR_FLOWS = MT.PLANAR_FLOWS      # exactly planar velocity gradients with a non-zero in-plane trace (x-z plane and any coordinate plane)
Q_KINDS = ["haar", "signed_perm", "about_spin_axis"]


def _is_rigid(L):
    return not np.any(L + L.T)


def draw_Q(prng, qkind, L0):
    if qkind == "signed_perm":
        return G.SIGNED_PERMS[int(prng.integers(len(G.SIGNED_PERMS)))]
    if qkind == "about_spin_axis":
        # a frame rotation that commutes with the spin of the flow at t = 0 (when it has one)
        from scipy.spatial.transform import Rotation
        W = (L0 - L0.T) / 2
        w = np.array([W[2, 1], W[0, 2], W[1, 0]])
        nw = float(np.linalg.norm(w))
        if nw > 0:
            return Rotation.from_rotvec(w / nw * float(prng.uniform(0.3, 3.0))).as_matrix()
    return G.rand_rot(prng, 1)[0]


def run_partner(rec, sc, tag, dt, O_map=None, wrap_L=None):
    """One partner history of a scenario under recording: same mineral, parameters, time partition
    and pathline; initial orientations transformed by O_map, velocity-gradient callable wrapped by
    wrap_L.  The result has the shape c01.validate_traces expects."""
    m, params, get_L, get_x, desc = MT.build(sc)
    if O_map is not None:
        m.orientations[0] = np.ascontiguousarray(O_map(np.asarray(m.orientations[0])))
    gL = wrap_L(get_L) if wrap_L is not None else get_L
    F, t, ups, err = np.eye(3), 0.0, [], None
    for k in range(sc["nupd"]):
        tr, Fn = rec.update(m, params, F, gL, (t, t + dt, get_x))
        ups.append(dict(index=k, t0=t, t1=t + dt, trace=tr))
        if tr.error is not None:
            err = tr.error
            break
        F = Fn
        t += dt
    return dict(sc=dict(sc, seed=(sc["seed"], tag)), mineral=m, params=params, updates=ups, fails=[],
                get_L=gL, get_x=get_x, desc=desc, F=F, error=err, dt=dt)


def zero_strain_calls(h, Q=None):
    """recorded eval_rhs evaluations of a history that sit in the exact-zero-strain-rate branch with a
    non-zero spin; with Q: how many of them would leave that branch if the frame were rotated by the
    naive fl(Q L Q^T) (the known discontinuity of the model: never compared, only counted)"""
    nz = nn = 0
    for u in h["updates"]:
        tr = u["trace"]
        for call in tr.rhs_calls + tr.rhs_tail:
            L = np.asarray(h["get_L"](call["t"], h["get_x"](call["t"])), dtype=float)
            if _is_rigid(L) and np.any(L):
                nz += 1
                if Q is not None:
                    Ln = Q @ L @ Q.T
                    nn += int(bool(np.any(Ln + Ln.T)))
    return nz, nn


def gbs_ambiguous(hists, n, chi, margin):
    """grains whose volume fraction came within `margin` of the sliding threshold chi/n at ANY solver step of ANY
    update in one of the histories: apply_gbs resets such a grain's orientation to the start-of-update one in a run
    where it is (just) below and lets it rotate in a run where it is (just) above -- a discontinuity of the model
    (C09) at which two runs that agree within solver tolerance may differ by O(1).  Such grains are excluded from
    the paired ORIENTATION comparison and counted (their fractions are still compared)."""
    amb = np.zeros(n, dtype=bool)
    if not chi > 0:
        return amb
    thr = chi / n
    for h in hists:
        for u in h["updates"]:
            for y in u["trace"].step_ys:
                f = np.clip(np.asarray(y, dtype=float)[9 + 9 * n:9 + 10 * n], 0, None)
                tot = f.sum()
                if tot > 0:
                    amb |= np.abs(f / tot - thr) <= margin
    return amb


def integrated_oracle(rec, sc, pair_seed, qkind="haar", pickmode="half", chk=None, bad=None, repeat=True):
    """C04 for integrated textures, read directly on Mineral.update_orientations: the scenario in the
    original frame, in a rotated frame and with a two-fold relabelled initial texture.  Everything
    random about the partners derives from pair_seed (so that a replay file re-runs the same triple)."""
    prng = np.random.default_rng(pair_seed)
    res = dict(fails=[], skipped=False, worst=0.0, zero_calls=0, naive_leaves_branch=0)
    h0 = c01.run_history(rec, sc)
    if chk is not None:
        c01.validate_traces(chk, h0, bad)
    if h0["fails"]:
        res["skipped"] = True      # C01's business
        return res
    dt = h0["dt"]
    L0 = np.asarray(h0["get_L"](0.0, h0["get_x"](0.0)), dtype=float)
    Q = draw_Q(prng, qkind, L0)
    res["zero_calls"], res["naive_leaves_branch"] = zero_strain_calls(h0, Q)
    res["Q"], res["dt"] = Q, dt
    tol = 5e-3 + 1e-3 * (sc["nupd"] + 2 * h0["strain"])
    # volume fractions: LSODA runs with atol = 1e-4 per component and step, so two runs in
    # different frames may differ by a few 1e-4; the alarm threshold is the accumulated solver
    # tolerance, not 1e-4 (that was a false alarm under VERIF_SEED=424242: 1.3e-4)
    ftol = 5e-4 + 1e-3 * (sc["nupd"] + 2 * h0["strain"])
    O_end, f_end = np.asarray(h0["mineral"].orientations[-1]), np.asarray(h0["mineral"].fractions[-1])
    # rotated frame
    hq = run_partner(rec, sc, "rotated", dt, O_map=lambda O: np.einsum("nij,kj->nik", O, Q),
                     wrap_L=lambda g: (lambda t, x, g=g: rot_L(g(t, x), Q)))
    if chk is not None:
        c01.validate_traces(chk, hq, bad)
    if hq["error"] is not None:
        res["fails"].append(f"integrated texture: the history raises {type(hq['error']).__name__} in a rotated frame only")
    else:
        mq = hq["mineral"]
        keep = ~gbs_ambiguous((h0, hq), sc["n"], float(h0["params"]["gbs_threshold"]), ftol)
        res["gbs_ambiguous"] = res.get("gbs_ambiguous", 0) + int((~keep).sum())
        dO = float(np.abs(np.asarray(mq.orientations[-1]) - np.einsum("nij,kj->nik", O_end, Q))[keep].max()) if keep.any() else 0.0
        df = float(np.abs(np.asarray(mq.fractions[-1]) - f_end).max())
        dF = float(np.abs(hq["F"] - Q @ h0["F_hist"][-1] @ Q.T).max())
        res["worst"] = max(res["worst"], dO / tol)
        if dO > tol or df > ftol or dF > tol:
            res["fails"].append(f"integrated texture in a rotated frame differs: orientations {dO:.3e}, fractions {df:.3e}, F {dF:.3e}")
    # two-fold relabelled initial texture
    picks = draw_picks(prng, sc["n"], pickmode)
    res["picks"] = picks

    def relabel(O):
        O = O.copy()
        for g, k in picks:
            O[g] = TWOFOLDS[k] @ O[g]
        return O
    h2 = run_partner(rec, sc, "relabelled", dt, O_map=relabel)
    if chk is not None:
        c01.validate_traces(chk, h2, bad)
    if h2["error"] is not None:
        res["fails"].append(f"integrated texture: the history raises {type(h2['error']).__name__} for symmetry-equivalent grains only")
    else:
        m2 = h2["mineral"]
        keep = ~gbs_ambiguous((h0, h2), sc["n"], float(h0["params"]["gbs_threshold"]), ftol)
        res["gbs_ambiguous"] = res.get("gbs_ambiguous", 0) + int((~keep).sum())
        dO = float(np.abs(np.asarray(m2.orientations[-1]) - relabel(O_end))[keep].max()) if keep.any() else 0.0
        df = float(np.abs(np.asarray(m2.fractions[-1]) - f_end).max())
        res["worst"] = max(res["worst"], dO / tol)
        if dO > tol or df > ftol:
            res["fails"].append(f"integrated texture of symmetry-equivalent grains differs: orientations {dO:.3e}, fractions {df:.3e}")
        if not np.array_equal(h2["F"], h0["F_hist"][-1]):
            dF = float(np.abs(h2["F"] - h0["F_hist"][-1]).max())
            if dF > tol:
                res["fails"].append(f"returned deformation gradient depends on the labelling of symmetry-equivalent grains: {dF:.3e}")
    # state carried between calls: the original history, run again on a fresh mineral AFTER the partners,
    # must be bit-identical (no module-level cache keyed on anything that the partners changed)
    if repeat:
        h3 = run_partner(rec, sc, "repeat", dt)
        if h3["error"] is not None or not (np.array_equal(np.asarray(h3["mineral"].orientations[-1]), O_end)
                                           and np.array_equal(np.asarray(h3["mineral"].fractions[-1]), f_end)
                                           and np.array_equal(h3["F"], h0["F_hist"][-1])):
            res["fails"].append("the original history re-run after the rotated / relabelled histories is not bit-identical to the first run")
    return res


def concrete_triple(sc, res):
    """the failing triple spelled out (what the scenario descriptor and pair_seed expand to)"""
    m, params, get_L, get_x, desc = MT.build(sc)
    dt = res["dt"]
    ts = [k * dt for k in range(sc["nupd"] + 1)]
    fl = lambda a: [float(x) for x in np.asarray(a, dtype=float).reshape(-1)]
    return {"phase": int(sc["pair"][0]), "fabric": int(sc["pair"][1]), "regime": int(sc["regime"]), "n_grains": int(sc["n"]),
            "orientations_init": fl(m.orientations[0]), "fractions_init": fl(m.fractions[0]),
            "time_partition": ts,
            "velocity_gradient_at_partition_times": [fl(get_L(t, get_x(t))) for t in ts],
            "flow_family": sc["lkind"], "flow_description": {k: v for k, v in desc.items() if k in ("kind", "t_stop")},
            "params": {k: (float(v) if isinstance(v, (int, float)) else str(v)) for k, v in params.items()},
            "frame_rotation_Q": fl(res["Q"]),
            "rotated_partner": "orientations A.Q^T, velocity gradient Q.sym(L).Q^T + Q.skew(L).Q^T (each part re-(anti)symmetrised)",
            "relabelled_grains": [{"grain": int(g), "twofold_about_axis": "abc"[k]} for g, k in res.get("picks", [])]}


def integrated_plan(rng, tier):
    """(scenario, pair_seed, qkind, pickmode) of every integrated triple of a run"""
    plan = []

    def add(sc, qkind, pickmode):
        plan.append((sc, int(rng.integers(0, 2**31 - 1)), qkind, pickmode))
    N = 6 if tier == "quick" else 80
    for i in range(N):
        sc = MT.scenario(rng, regime=int((4, 6)[i % 2]), n=int(rng.integers(3, 12)), nupd=int(rng.integers(1, 4)),
                         lkind=GENERIC_FLOWS[rng.integers(4)])
        add(sc, "signed_perm" if i % 3 == 2 else "haar", PICK_MODES[i % 4])
    # flows whose strain rate is exactly zero for all or part of the history (rigid rotation, rest):
    # eval_rhs takes its no-strain branch there
    reps = 1 if tier == "quick" else 8
    for r in range(reps):
        for j, lk in enumerate(ZERO_STRAIN_FLOWS):
            sc = MT.scenario(rng, regime=int((4, 6)[(j + r) % 2]), n=int(rng.integers(3, 10)), nupd=int(rng.integers(1, 4)),
                             lkind=lk, tkind=("random", "nonuniform", "clustered")[int(rng.integers(3))],
                             strain=float(rng.uniform(0.5, 0.8)))
            add(sc, Q_KINDS[(j + r) % 3] if r else "haar", PICK_MODES[(j + r) % 4])
        # no motion at all
        sc = MT.scenario(rng, regime=int((4, 6)[r % 2]), n=int(rng.integers(3, 10)), nupd=2, lkind="general")
        sc["rate"] = 0.0
        add(sc, "haar", "half")
    for r in range(0 if tier == "quick" else 6):
        sc = MT.scenario(rng, regime=int((4, 6)[r % 2]), n=int(rng.integers(3, 10)), nupd=int(rng.integers(1, 4)),
                         lkind=VARYING_FLOWS[r % 2])
        add(sc, Q_KINDS[r % 2], PICK_MODES[r % 4])
    # flows exactly confined to a coordinate plane with a non-zero in-plane trace: the Haar-rotated partner is not planar any
    # more, the axis-permuted partner lies in another (or the same) coordinate plane -- a strain-rate scale (or anything else)
    # taken from a 2-D closed form in one presentation and from the general 3-D routine in the other is not frame invariant.
    # Own PRNG stream: the triples above are unchanged.
    prng = np.random.default_rng([int(rng.integers(0, 2**31 - 1)), 0xC04D])
    for r in range(1 if tier == "quick" else 6):
        for j, lk in enumerate(PLANAR_FLOWS):
            sc = MT.scenario(prng, regime=int((4, 6)[(j + r) % 2]), n=int(prng.integers(4, 10)), nupd=int(prng.integers(1, 3)),
                             lkind=lk, tkind=("random", "clustered")[int(prng.integers(2))],
                             strain=float(prng.uniform(0.4, 0.7)))
            sc["params"]["gbm_mobility"] = float(prng.uniform(50, 200))       # the fractions must move ...
            sc["params"]["gbs_threshold"] = float(prng.uniform(0.0, 0.3))     # ... and few grains sit on the sliding floor
            plan.append((sc, int(prng.integers(0, 2**31 - 1)), ("haar", "signed_perm")[(j // 2 + r) % 2], PICK_MODES[(j + r) % 4]))
    return plan


def run(chk):
    ok, br = proofs.prove(chk, FILES, PROP, groups=("core",), gen_modules=("core",))
    import pydrex.core as core
    chk.cov["trusted_base"] = common.TRUSTED_COMMON + [
        "frame indifference is proved about Spec_drex and transferred to the generated kernel by the C02 equality (valid pairs, deformation exponent <> 0)",
        "two-fold symmetry is proved for the generated kernel and for aggregates with any subset of grains relabelled (sign triples per grain)",
        "PARTIAL: integrated textures (LSODA) are compared by paired runs within the solver tolerance, not proved",
        "hand-written Model_minerals.rhs / update, tied by trace validation of all three histories of every integrated triple (recorded eval_rhs outputs at 1e-9 incl. the exact-zero-strain-rate branch, stored snapshot / returned F bit-exact from LSODA's last vector)",
    ]
    chk.cov["rule"] = ("rates: the C03 generator (all valid phase/fabric pairs, both regimes, 5 flow families, 4 volume families) with, per case, one Haar rotation and one "
                       "of the 24 axis-permuting rotations of the frame and two two-fold relabellings (random subset; all grains / one grain / all grains by the same operation), "
                       "the original call repeated afterwards (bit-identical, inputs untouched); boundary stream: strain rate exactly zero (rigid rotation, rest) with an exactly "
                       "antisymmetric rotated partner; integrated: LSODA history triples original / rotated frame (L rotated as strain rate + spin, so exactly antisymmetric stays "
                       "exactly antisymmetric) / two-fold relabelled initial texture over generic flows AND flows with exactly zero strain rate for all or part of the history "
                       "(pure spin, shear then spin, stopping, rest) AND flows exactly confined to a coordinate plane with a non-zero in-plane trace (x-z plane and random plane; "
                       "compaction + shear, uniaxial shortening), every history trace-validated against the extracted update / rhs model; non-trivial = rates not all zero")
    bad, mon = [], []
    rng = np.random.default_rng(chk.seed)
    if br.drivers.get("core", 1) is None:
        cases = [c for c in c03.gen_cases(chk, chk.tier) if c["ng"] <= 64]
        worst = 0.0
        for c in cases:
            fails = rate_oracle(core, c, rng)
            if degenerate(c):
                chk.cov["degenerate_excluded"] = chk.cov.get("degenerate_excluded", 0) + 1
            chk.note_case(("rate", c["regime"], c["phase"], c["fabric"], c["O"].tobytes(), c["L"].tobytes()),
                          nontrivial=True,
                          sample={"regime": c["regime"], "phase": c["phase"], "fabric": c["fabric"], "n_grains": c["ng"], "kinds": list(c["kinds"])})
            if fails:
                mon.append((c, fails))
        # velocity gradient / orientations handed over in integer or binary32 dtypes (values exactly representable): the rotated
        # partner is float64, so a rate that depends on the DTYPE of an argument is not frame indifferent (seeded change C04f)
        drng = np.random.default_rng([chk.seed, 0xD7F])
        for c in c03.dtype_cases(chk, chk.tier):
            fails = rate_oracle(core, c, drng)
            chk.note_case(("rate-dtype", c["present"][1], c["regime"], c["phase"], c["fabric"], c["O"].tobytes(), c["L"].tobytes()),
                          nontrivial=True)
            if degenerate(c):
                chk.cov["degenerate_excluded"] = chk.cov.get("degenerate_excluded", 0) + 1
            if fails:
                mon.append((c, fails))
        # boundary stream: exactly zero strain rate
        zcases = zero_strain_rate_cases(rng, chk.tier)
        zh = chk.cov.setdefault("zero_strain_rate_rate_cases", {})
        for c in zcases:
            fails = rate_oracle(core, c, rng, exact_zero=True)
            zh[c["kinds"][1]] = zh.get(c["kinds"][1], 0) + 1
            r = c03.impl(core, c)
            chk.note_case(("rate0", c["regime"], c["phase"], c["fabric"], c["O"].tobytes(), c["L"].tobytes()),
                          nontrivial=bool(r[0] == "OK" and (np.any(r[1]) or np.any(r[2]))))
            if fails:
                mon.append((c, fails))
        bad += c03.compare(chk, core, zcases, "derivs")
        # the model itself on rotated inputs (ties the rotated calls to the proved model)
        sub = cases[:150]
        Qs = G.rand_rot(rng, len(sub))
        bad += c03.compare(chk, core, [rotated(c, Q) for c, Q in zip(sub, Qs) if not degenerate(c)], "spec_derivs")
        # integrated textures
        fam = chk.cov.setdefault("integrated_flow_families", {})
        qh = chk.cov.setdefault("integrated_frame_rotation_kinds", {})
        ph = chk.cov.setdefault("integrated_relabelling_modes", {})
        with MT.Recorder() as rec:
            for sc, pair_seed, qkind, pickmode in integrated_plan(rng, chk.tier):
                key = sc["lkind"] if sc.get("rate", 1.0) != 0.0 else "rest"
                fam[key] = fam.get(key, 0) + 1
                qh[qkind] = qh.get(qkind, 0) + 1
                ph[pickmode] = ph.get(pickmode, 0) + 1
                nrun = sum(fam.values())
                res = integrated_oracle(rec, sc, pair_seed, qkind, pickmode, chk=chk, bad=bad,
                                        repeat=(chk.tier != "quick" or nrun % 3 == 1 or sc["lkind"] in ZERO_STRAIN_FLOWS[:2]))
                if res["skipped"]:
                    chk.cov["integrated_skipped_original_history_invalid"] = chk.cov.get("integrated_skipped_original_history_invalid", 0) + 1
                    continue
                worst = max(worst, res["worst"])
                chk.cov["integrated_zero_strain_rate_rhs_calls"] = chk.cov.get("integrated_zero_strain_rate_rhs_calls", 0) + res["zero_calls"]
                # known discontinuity of the model (not a violation): a rigid rotation whose rotated L is not
                # exactly antisymmetric takes the ordinary path; the partner is built exactly instead
                chk.cov["near_discontinuity"] = chk.cov.get("near_discontinuity", 0) + res["naive_leaves_branch"]
                chk.cov["integrated_naive_rotation_leaves_zero_branch"] = chk.cov.get("integrated_naive_rotation_leaves_zero_branch", 0) + res["naive_leaves_branch"]
                chk.cov["integrated_grains_at_gbs_threshold_excluded"] = chk.cov.get("integrated_grains_at_gbs_threshold_excluded", 0) + res.get("gbs_ambiguous", 0)
                chk.note_case(("integrated", sc["seed"]), nontrivial=True)
                if res["fails"]:
                    mon.append((dict(sc=sc, pair_seed=pair_seed, qkind=qkind, pickmode=pickmode, res=res), res["fails"]))
        chk.cov["integrated_frame_error_over_tolerance_max"] = worst
        chk.cov["traces_validated_against_impl"] = chk.cov["evaluations"]
    chk.cov["disagreements"] = len(bad)
    chk.cov["monitor_failures"] = len(mon)
    if ok and not bad and not mon:
        return
    if mon:
        c, fails = mon[0]
        payload = {"kind": "property-violation", "observed": fails, "required": "C04",
                   "broken": chk.cov.get("broken_obligations", []), "disagreements": [m for _, m in bad[:3]]}
        if "O" in c:
            payload.update(call="pydrex.core.derivatives (paired calls)", input=c03.encode(c),
                           exact_zero_strain_rate=bool(not np.any(c["D"])))
        else:
            payload.update(call="Mineral.update_orientations (paired histories: original / rotated frame / two-fold relabelled)",
                           scenario=c01.encode_sc(c["sc"]), pair_seed=c["pair_seed"], frame_rotation=c["qkind"],
                           relabelling=c["pickmode"], concrete_input=concrete_triple(c["sc"], c["res"]))
        chk.replay(payload)
    else:
        chk.replay({"kind": "unproved", "broken": chk.cov.get("broken_obligations", []),
                    "disagreements": [m for _, m in bad[:3]],
                    "note": "proof obligation or correspondence no longer checks; no failing input found"}, no_input=True)


def replay(d):
    common.use_repo_source()
    import pydrex.core as core
    if d.get("kind") != "property-violation" or not ("input" in d or "scenario" in d):
        print("re-run ./check C04")
        return 1
    if "scenario" in d:
        sc = d["scenario"]
        sc["pair"] = tuple(sc["pair"])
        with MT.Recorder() as rec:
            res = integrated_oracle(rec, sc, int(d["pair_seed"]), d.get("frame_rotation", "haar"), d.get("relabelling", "half"))
        if res["skipped"]:
            print("the original history is itself invalid (C01): re-run ./check C01")
            return 1
        for f in res["fails"][:5]:
            print("still fails:", f)
        return 1 if res["fails"] else 0
    c = c03.decode(d["input"])
    bad = []
    for seed in range(5):
        bad += rate_oracle(core, c, np.random.default_rng(seed), exact_zero=bool(d.get("exact_zero_strain_rate", False)))
    for f in bad[:5]:
        print("still fails:", f)
    return 1 if bad else 0
