"""C07 -- null forcing leaves the texture unchanged; unsupported regimes are rejected."""
from __future__ import annotations

import numpy as np

import common
import proofs
import gen_core as G
import minerals_trace as MT
from props import c01, c03, c06

FILES = ["gen/Gen_core.v", "Model_core.v", "Model_minerals.v", "Proofs_core.v", "Proofs_total.v", "Proofs_minerals.v", "Proofs_flow.v", "Proofs_path.v",
         "Proofs_rhs.v", "Inst_core.v", "Entry_core.v", "Extract_core.v"]
FILES += [f for f in MT.GLUE_TIE_FILES if f not in FILES]   # tie T of the glue model
PROP = "Properties/C07.v"


def dispatch_cases(rng):
    cases = []
    for regime in range(-2, 11):
        for phase in range(0, 3):
            for fabric in range(0, 7):
                c = G.case(rng, n_grains=2, pair=(phase, fabric), regime=regime, okind="haar", lkind="general", fkind="dirichlet")
                cases.append(c)
    return cases


def expected_dispatch(c):
    """Direct reading of C07 for one call of derivatives: 'error' or 'numbers'."""
    valid = (c["phase"], c["fabric"]) in G.VALID_PAIRS
    r = c["regime"]
    if r in (0, 1, 7):
        return "numbers"
    if r in (4, 6):
        return "numbers" if valid else "error"
    return "error"


KF_REFLOOR = "C07:null-forcing:gbs-refloor"


def gbs_expected(f, chi, n):
    thr = chi / n
    g = np.where(f < thr, thr, f)
    return g / g.sum()


def null_history_fails(h, kf=None):
    """Under null forcing the texture must be exactly unchanged.  Exception (open finding
    C07:null-forcing:gbs-refloor): when grains of the start snapshot are below chi/n the
    sliding floor of C09 is re-applied by every update; then the fractions must be exactly
    the GBS image of the start fractions (anything else is still a violation)."""
    m = h["mineral"]
    chi, n = h["params"]["gbs_threshold"], h["sc"]["n"]
    fails = [f for f in h["fails"]]
    for k in range(1, len(m.orientations)):
        if not np.array_equal(np.asarray(m.orientations[k]), np.asarray(m.orientations[0])):
            fails.append((k - 1, f"orientations changed under null forcing (max {np.abs(np.asarray(m.orientations[k]) - np.asarray(m.orientations[0])).max():.3e})"))
        f0, f1 = np.asarray(m.fractions[k - 1]), np.asarray(m.fractions[k])
        if np.any(f0 < chi / n):
            if np.abs(f1 - gbs_expected(f0, chi, n)).max() > 1e-15:
                fails.append((k - 1, "volume fractions under null forcing are not the sliding-floor image of the previous ones"))
            elif kf is not None and np.abs(f1 - f0).max() > 1e-15:
                kf.append(f"update {k - 1} of scenario seed {h['sc']['seed']}: max change {np.abs(f1 - f0).max():.3e}")
        elif np.abs(f1 - f0).max() > 1e-15:
            fails.append((k - 1, "volume fractions changed under null forcing"))
    return fails


def start_F(sc):
    """the starting deformation gradient of a history (identity unless the scenario carries one)"""
    return np.array(sc["F0"], dtype=float).reshape(3, 3) if sc.get("F0") is not None else np.eye(3)


def null_F_fails(h, cov=None):
    """C07: '... while the deformation gradient still follows C06': the F returned by every update of a null-forcing history
    against an independent DOP853 integration of dF/dt = L(t, x(t)).F (C06's oracle and bound)"""
    fails = []
    worst = c06.check_history(h, start_F(h["sc"]), fails)
    if cov is not None:
        cov["null_regime_F_error_over_bound_max"] = max(cov.get("null_regime_F_error_over_bound_max", 0.0), worst)
    return [(k, "null regime / null forcing: " + m) for k, m in fails]


UNSTEADY_FLOWS = MT.COINCIDENT_FLOWS + ["time", "position", "stopping", "shear_then_spin"]


def null_unsteady_scenarios(rng, tier):
    """viscosity-bound regimes under velocity gradients that VARY inside an update (in time, along the pathline; incl. the
    families whose samples at start / midpoint / end coincide), non-identity starting F with det > 0, 1..3 updates; the regime
    set on the object or (every third history) supplied through get_regime to a mineral built in a dislocation regime"""
    out = []
    for r in range(1 if tier == "quick" else 5):
        for i, lk in enumerate(UNSTEADY_FLOWS):
            regime = int((0, 7)[(i + r) % 2])
            sc = MT.scenario(rng, regime=regime, n=int(rng.integers(2, 10)), lkind=lk, nupd=int(rng.integers(1, 4)),
                             strain=float(rng.uniform(0.4, 0.9)))
            if lk in MT.COINCIDENT_FLOWS:
                sc["period"] = float(MT.NICE_PERIODS[int(rng.integers(len(MT.NICE_PERIODS)))])
            if (i + r) % 3 == 2:
                sc["regime"] = int((4, 6)[int(rng.integers(2))])
                sc["regime_switch"] = [regime, regime, 0.0]
            if (i + r) % 4 == 1:      # the ordinals (and what get_regime returns) as enum members / numpy integers
                sc["spelling"] = ("enum", "np.uint8")[(i // 4 + r) % 2]
            sc["F0"] = [float(v) for v in c06.random_F0(rng).reshape(-1)]
            out.append(sc)
    return out


CARRIED_PROBES = ("rest_after_flow", "null_regime_after_dislocation", "regime_stops_inside", "regime_starts_inside")


def carried_scenarios(rng, tier):
    """Null forcing that begins AFTER (or ends BEFORE) a texture-forming part of the history -- what the state carried from
    call to call, or a regime resolved once per call, would get wrong:
      rest_after_flow               the flow stops inside update 0 and stays exactly zero: updates 1, 2 must not move the texture
      null_regime_after_dislocation get_regime returns a dislocation regime during update 0 and a viscosity-bound one from the
                                    start of update 1 on, the flow continues: updates 1, 2 must not move the texture
      regime_stops_inside           get_regime switches to a viscosity-bound regime strictly INSIDE the only update: the stored
                                    texture must be the one of an update that ends at the switch time
      regime_starts_inside          ... from a viscosity-bound to a dislocation regime: the stored texture must be the one of an
                                    update that starts at the switch time
    No sliding (chi = 0), so 'unchanged' is exact and the open finding C07:null-forcing:gbs-refloor is not what is probed."""
    out = []
    for r in range(1 if tier == "quick" else 5):
        for i, probe in enumerate(CARRIED_PROBES):
            disl, null = int((4, 6)[(i + r) % 2]), int((0, 7)[(i // 2 + r) % 2])
            if probe == "rest_after_flow":
                sc = MT.scenario(rng, regime=disl, n=int(rng.integers(3, 10)), nupd=3, lkind="stopping", strain=0.9,
                                 tkind=("random", "clustered")[int(rng.integers(2))])
                sc["null_from_update"] = 1
            elif probe == "null_regime_after_dislocation":
                sc = MT.scenario(rng, regime=disl, n=int(rng.integers(3, 10)), nupd=3, strain=float(rng.uniform(0.6, 0.9)),
                                 lkind=("simple", "general", "time", "position")[int(rng.integers(4))],
                                 tkind=("random", "clustered")[int(rng.integers(2))])
                sc["regime_switch"], sc["regime_switch_update"], sc["null_from_update"] = [disl, null, 0.0], 1, 1
            else:
                sc = MT.scenario(rng, regime=disl, n=int(rng.integers(3, 10)), nupd=1, strain=float(rng.uniform(0.4, 0.6)),
                                 lkind=("simple", "general", "pure")[int(rng.integers(3))],
                                 tkind=("random", "clustered")[int(rng.integers(2))])
                sc["regime_switch"] = [disl, null, 0.0] if probe == "regime_stops_inside" else [null, disl, 0.0]
                sc["regime_switch_update"] = float(rng.uniform(0.3, 0.6))
                if rng.random() < 0.5:
                    sc["regime"] = null if probe == "regime_starts_inside" else disl   # stored regime = the one get_regime starts with ...
                else:
                    sc["regime"] = int((4, 6, 0, 7)[int(rng.integers(4))])              # ... or any other
            sc["params"]["gbs_threshold"] = 0.0
            sc["params"]["gbm_mobility"] = float(rng.uniform(50, 200))
            sc["c07_probe"] = probe
            sc["F0"] = [float(v) for v in c06.random_F0(rng).reshape(-1)]
            out.append(sc)
    return out


def carried_state_fails(rec, sc, chk=None, bad=None):
    """run one scenario of carried_scenarios and read C07 on it; returns (history, [(update, message)])"""
    h = c01.run_history(rec, sc, F0=start_F(sc))
    if chk is not None:
        c01.validate_traces(chk, h, bad)
    fails = list(h["fails"])
    if fails:
        return h, fails
    m, probe = h["mineral"], sc["c07_probe"]
    O = [np.asarray(o) for o in m.orientations]
    f = [np.asarray(x) for x in m.fractions]
    if probe in ("rest_after_flow", "null_regime_after_dislocation"):
        for k in range(int(sc["null_from_update"]), sc["nupd"]):
            dO, df = float(np.abs(O[k + 1] - O[k]).max()), float(np.abs(f[k + 1] - f[k]).max())
            if dO > 0 or df > 1e-15:
                back = float(np.abs(O[k + 1] - O[0]).max())
                fails.append((k, f"texture changed under null forcing that follows a texture-forming part of the history: orientations moved by "
                                 f"{dO:.3e}, fractions by {df:.3e} (distance of the new snapshot from the INITIAL texture: {back:.3e})"))
        if probe == "null_regime_after_dislocation":
            fails += null_F_fails(h, chk.cov if chk is not None else None)
        elif not np.array_equal(h["F_hist"][-1], h["F_hist"][1]):
            fails.append((sc["nupd"] - 1, "deformation gradient changed after the velocity gradient dropped to zero"))
    else:
        ts, dt = float(sc["regime_switch"][2]), h["dt"]
        span = (0.0, ts) if probe == "regime_stops_inside" else (ts, dt)
        mr, pr, gL, gx, _ = MT.build(sc)
        rconst = int(sc["regime_switch"][0] if probe == "regime_stops_inside" else sc["regime_switch"][1])    # the dislocation regime
        mr.update_orientations(pr, start_F(sc), gL, (span[0], span[1], gx), get_regime=(lambda tt, xx: rconst))
        dO, df = float(np.abs(np.asarray(mr.orientations[-1]) - O[-1]).max()), float(np.abs(np.asarray(mr.fractions[-1]) - f[-1]).max())
        if chk is not None:
            chk.cov["regime_switch_inside_update_max_drift"] = max(chk.cov.get("regime_switch_inside_update_max_drift", 0.0), dO, df)
        if dO > 1e-2 or df > 1e-2 / sc["n"] * 5:
            what = ("kept evolving after get_regime switched to a viscosity-bound regime" if probe == "regime_stops_inside"
                    else "evolved before get_regime switched from a viscosity-bound to a dislocation regime (or not after)")
            fails.append((0, f"texture {what} strictly inside an update (switch at t = {ts:.4g} of [0, {dt:.4g}]): differs from the update over "
                             f"[{span[0]:.4g}, {span[1]:.4g}] alone by orientations {dO:.3e}, fractions {df:.3e}"))
        fails += null_F_fails(h, chk.cov if chk is not None else None)
    return h, fails


def run(chk):
    ok, br = proofs.prove(chk, FILES, PROP, groups=("core",), gen_modules=MT.GLUE_TIE_GEN)
    import pydrex
    import pydrex.core as core
    chk.cov["trusted_base"] = common.TRUSTED_COMMON + [MT.GLUE_TIE_TRUSTED,
        "regime dispatch: Model_core.derivs tied to the generated derivatives (symbolic regime ordinal) by instance lemmas; update/rhs model tied by trace validation",
        "NOT proved: that LSODA returns a state block unchanged when its derivative is identically zero (true of linear multistep methods; observed bit-exactly on every run)",
    ]
    chk.cov["rule"] = ("dispatch: all regime ordinals -2..10 x phase 0..2 x fabric 0..6 (273 calls of derivatives, exception type vs model, exhaustive over that box) on generic inputs, "
                       "on inputs whose slip invariants all vanish exactly (axis-aligned grains + diagonal strain rate, zero strain rate: 546 calls) and with numpy-integer ordinals / keyword arguments; "
                       "histories: zero velocity gradient in every accepted regime, the two viscosity-bound regimes under every flow family AND under flows that vary inside an "
                       "update (time / position dependent, stopping, shear then spin, and the families whose samples at start / midpoint / end of every update coincide), "
                       "regime set on the object or supplied by get_regime, with the returned F compared against an independent DOP853 integration; null forcing that begins after / ends "
                       "before a texture-forming part of the history (flow then rest over several updates, get_regime switching to / from a viscosity-bound regime at an update "
                       "boundary and strictly inside an update, compared with the update cut at the switch time); M* = 0 under flows, "
                       "failed updates (unsupported regimes, invalid phase/fabric) with before/after comparison of the stored lists; "
                       "non-trivial = a call that must be rejected or a history under a non-zero flow")
    bad, mon, kf = [], [], []
    rng = np.random.default_rng(chk.seed)
    if br.drivers.get("core", 1) is None:
        cases = dispatch_cases(rng)
        # the same box on inputs whose slip invariants all vanish exactly (axis-aligned grains + diagonal strain rate; zero strain
        # rate), and with the ordinals spelled as numpy integers (own PRNG stream)
        rngd = np.random.default_rng([chk.seed, 0xC07F])
        zcases = G.zero_invariant_dispatch_cases(rngd)
        chk.cov["dispatch_zero_invariant_cases"] = len(zcases)
        spelled = []
        for c in dispatch_cases(rngd):
            sp = ("np.int64", "np.int32", "np.uint8")[(c["regime"] + c["phase"] + c["fabric"]) % (2 if chk.tier == "quick" else 3)]
            if sp == "np.uint8" and c["regime"] < 0:
                sp = "np.int64"
            spelled.append(dict(c, present=(sp, None, bool((c["regime"] + c["fabric"]) % 2))))
        cases = cases + zcases + spelled
        lines = [common.model_line("derivs", [c["regime"], c["phase"], c["fabric"], c["ng"]], G.flat_inputs(c)) for c in cases]
        res = common.run_model(lines, "core")
        hist = chk.cov.setdefault("dispatch_outcomes", {})
        for c, m in zip(cases, res):
            r = c03.impl(core, c)
            exp = expected_dispatch(c)
            key = f"{'numbers' if r[0]=='OK' else r[1]}"
            hist[key] = hist.get(key, 0) + 1
            chk.note_case(("dispatch", c["regime"], c["phase"], c["fabric"]), nontrivial=exp == "error",
                          sample={"regime": c["regime"], "phase": c["phase"], "fabric": c["fabric"],
                                  "impl": r[0] if r[0] == "OK" else r[1], "model": m[0] if m[0] == "OK" else m[1]})
            if (r[0] == "OK") != (m[0] == "OK") or (r[0] == "ERR" and r[1] != m[1]):
                bad.append((c, f"derivatives(regime={c['regime']}, phase={c['phase']}, fabric={c['fabric']}): implementation {r[:2] if r[0]=='ERR' else 'returns numbers'}, model {m}"))
            if (exp == "error") != (r[0] == "ERR") or (r[0] == "ERR" and r[1] != "ValueError"):
                mon.append((dict(regime=c["regime"], phase=c["phase"], fabric=c["fabric"], input=c03.encode(c)), 0,
                            f"derivatives(regime={c['regime']}, phase={c['phase']}, fabric={c['fabric']}) " +
                            (f"raised {r[1]}" if r[0] == "ERR" else "returned numbers") + f"; C07 requires {exp}"))
            if r[0] == "OK" and c["regime"] in (0, 7) and (np.any(r[1]) or np.any(r[2])):
                mon.append((dict(regime=c["regime"]), 0, "viscosity-bound regime returned non-zero rates"))
        chk.cov["exhaustive_dispatch_box"] = True
        with MT.Recorder() as rec:
            nq = 1 if chk.tier == "quick" else 6
            # zero velocity gradient, every accepted regime
            for regime in (0, 1, 4, 6, 7):
                for _ in range(nq):
                    sc = MT.scenario(rng, regime=regime, n=int(rng.integers(2, 10)), nupd=2)
                    sc["lkind"] = "general"
                    sc["rate"] = 0.0
                    h = c01.run_history(rec, sc)
                    c01.validate_traces(chk, h, bad)
                    fails = null_history_fails(h, kf)
                    if not np.array_equal(h["F_hist"][-1], np.eye(3)):
                        fails.append((0, "deformation gradient changed under a zero velocity gradient"))
                    mon += [(sc, k, m) for k, m in fails]
            # block-boundary grain counts: viscosity-bound regimes (texture must not move) and one dislocation regime
            for sc in MT.block_scenarios(np.random.default_rng([chk.seed, 0xB10C]), chk.tier, regimes=(0, 7, 4),
                                         sizes=(64, 128, 129, 256, 1024, 127) if chk.tier == "quick" else None, nupd=2):
                sc["params"]["gbs_threshold"] = 0.0        # no sliding floor: the open finding is not what is probed here
                h = c01.run_history(rec, sc)
                c01.validate_traces(chk, h, bad)
                if sc["regime"] in (0, 7):
                    mon += [(sc, k, m) for k, m in null_history_fails(h, kf)]
                else:
                    mon += [(sc, k, m) for k, m in h["fails"]]
            # witness of the open finding (deterministic): dominant grain, chi = 0.5, zero L
            scw = MT.scenario(np.random.default_rng(777), regime=4, pair=(0, 0), n=6, tkind="nonuniform", nupd=1)
            scw["params"]["gbs_threshold"] = 0.5
            scw["rate"] = 0.0
            scw["lkind"] = "simple"
            hw = c01.run_history(rec, scw)
            kfw = []
            mon += [(scw, k, m) for k, m in null_history_fails(hw, kfw)]
            # a flow that stops part-way through ONE update: from then on the texture must not move
            for _ in range(2 if chk.tier == "quick" else 12):
                scs = MT.scenario(rng, regime=int((4, 6)[int(rng.integers(2))]), n=int(rng.integers(3, 10)), nupd=1, lkind="stopping", strain=0.4)
                scs["params"]["gbs_threshold"] = 0.0
                hs = c01.run_history(rec, scs)
                c01.validate_traces(chk, hs, bad)
                mon += [(scs, k, m) for k, m in hs["fails"]]
                if not hs["fails"]:
                    ms, ps, gL, gx, desc = MT.build(scs)
                    ts = desc["t_stop"]
                    if ts < hs["dt"]:
                        Fh = ms.update_orientations(ps, np.eye(3), gL, (0.0, ts, gx))
                        dO = float(np.abs(np.asarray(ms.orientations[-1]) - np.asarray(hs["mineral"].orientations[-1])).max())
                        df = float(np.abs(np.asarray(ms.fractions[-1]) - np.asarray(hs["mineral"].fractions[-1])).max())
                        chk.cov["stopping_flow_max_drift"] = max(chk.cov.get("stopping_flow_max_drift", 0.0), dO, df)
                        if dO > 1e-2 or df > 1e-2 / scs["n"] * 5:
                            mon.append((scs, 0, f"texture kept evolving after the velocity gradient dropped to zero inside an update: orientations {dO:.3e}, fractions {df:.3e}"))
            # a null regime supplied through get_regime to a mineral constructed in a dislocation regime
            for given in (0, 7):
                scg = MT.scenario(rng, regime=4, n=int(rng.integers(3, 10)), nupd=2, lkind="general")
                scg["regime_switch"] = [given, given, 0.0]
                scg["params"]["gbs_threshold"] = 0.0
                hg = c01.run_history(rec, scg)
                c01.validate_traces(chk, hg, bad)
                mon += [(scg, k, m) for k, m in null_history_fails(hg, kf) + null_F_fails(hg, chk.cov)]
            # viscosity-bound regimes under every flow
            for regime in (0, 7):
                for lk in MT.L_FAMILIES:
                    sc = MT.scenario(rng, regime=regime, n=int(rng.integers(2, 10)), lkind=lk, nupd=2)
                    h = c01.run_history(rec, sc)
                    c01.validate_traces(chk, h, bad)
                    mon += [(sc, k, m) for k, m in null_history_fails(h, kf) + null_F_fails(h, chk.cov)]
            # viscosity-bound regimes under velocity gradients that vary INSIDE an update: the texture must not move and the
            # returned F must still be the solution of dF/dt = L(t, x(t)).F (own PRNG stream)
            nf = chk.cov.setdefault("null_regime_unsteady_flow_histories", {})
            for sc in null_unsteady_scenarios(np.random.default_rng([chk.seed, 0xC07D]), chk.tier):
                h = c01.run_history(rec, sc, F0=start_F(sc))
                c01.validate_traces(chk, h, bad)
                mon += [(sc, k, m) for k, m in null_history_fails(h, kf) + null_F_fails(h, chk.cov)]
                key = sc["lkind"] + ("/get_regime" if sc.get("regime_switch") else "")
                nf[key] = nf.get(key, 0) + 1
            # null forcing that begins after (ends before) a texture-forming part of the history: state carried between calls,
            # regime switches at an update boundary and strictly inside an update (own PRNG stream)
            ch = chk.cov.setdefault("carried_state_probes", {})
            for sc in carried_scenarios(np.random.default_rng([chk.seed, 0xC07E]), chk.tier):
                _, fails = carried_state_fails(rec, sc, chk, bad)
                mon += [(sc, k, m) for k, m in fails]
                ch[sc["c07_probe"]] = ch.get(sc["c07_probe"], 0) + 1
            # zero mobility: volume fractions unchanged (no sliding)
            for lk in MT.L_FAMILIES[:4] if chk.tier == "quick" else MT.L_FAMILIES:
                sc = MT.scenario(rng, regime=4, n=int(rng.integers(2, 10)), lkind=lk, nupd=2)
                sc["params"]["gbm_mobility"] = 0.0
                sc["params"]["gbs_threshold"] = 0.0
                h = c01.run_history(rec, sc)
                c01.validate_traces(chk, h, bad)
                m = h["mineral"]
                mon += [(sc, k, msg) for k, msg in h["fails"]]
                for k in range(1, len(m.fractions)):
                    if np.abs(np.asarray(m.fractions[k]) - np.asarray(m.fractions[0])).max() > 1e-12:
                        mon.append((sc, k - 1, "volume fractions changed with zero boundary mobility"))
            # failed updates leave the history untouched
            for regime, pair in ((2, (0, 0)), (3, (0, 0)), (5, (1, 5)), (9, (0, 0)), (-1, (0, 0)), (4, (0, 5)), (4, (1, 0)), (6, (2, 0))):
                sc = MT.scenario(rng, regime=regime, pair=pair, n=4, nupd=1, lkind="simple")
                m, params, get_L, get_x, _ = MT.build(sc, (pydrex.MineralPhase.olivine,), (1.0,)) if pair[0] == 0 else \
                    MT.build(sc, (pair[0],), (1.0,))
                before = (len(m.orientations), m.orientations[0].tobytes(), m.fractions[0].tobytes())
                tr, Fn = rec.update(m, params, np.eye(3), get_L, (0.0, 0.3, get_x))
                chk.note_case(("failed", regime, pair), nontrivial=True)
                after = (len(m.orientations), m.orientations[0].tobytes(), m.fractions[0].tobytes())
                if tr.error is None:
                    mon.append((sc, 0, f"update with regime {regime}, phase/fabric {pair} did not raise"))
                if before != after or len(m.fractions) != before[0]:
                    mon.append((sc, 0, "a failed update altered the stored history"))
            # ... also when it is the integrator that fails, at its first or at a later step (MT.failing_solver_probe)
            for fail_step, regime in ((1, 4), (2, 6), (3, 4), (2, 0)):
                scf = MT.scenario(np.random.default_rng([chk.seed, 0xFA11, fail_step]), regime=regime, n=5, nupd=1, lkind="general")
                scf["fail_step"] = fail_step
                chk.note_case(("failing-solver", fail_step, regime), nontrivial=True)
                mon += [(scf, 0, msg) for msg in MT.failing_solver_probe(scf, fail_step)]
        chk.cov["traces_validated_against_impl"] = chk.cov["evaluations"]
    chk.cov["disagreements"] = len(bad)
    chk.cov["monitor_failures"] = len(mon)
    chk.cov["refloor_occurrences"] = len(kf)
    for f in common.load_known_findings():
        if f["key"] == KF_REFLOOR and f["status"] == "open" and br.drivers.get("core", 1) is None and kfw:
            chk.known_finding("a texture with grains below chi/n_grains is re-floored (C09 sliding floor) by every update even under a zero velocity gradient / in the viscosity-bound regimes, so volume fractions change: " + kfw[0])
    if ok and not bad and not mon:
        return
    if mon:
        sc, k, msg = mon[0]
        chk.replay({"kind": "property-violation", "scenario": c01.encode_sc(sc), "update_index": k, "observed": msg,
                    "all_observed": [m for _, _, m in mon[:6]], "required": "C07",
                    "broken": chk.cov.get("broken_obligations", []), "disagreements": [m for _, m in bad[:3]]})
    else:
        chk.replay({"kind": "unproved", "broken": chk.cov.get("broken_obligations", []),
                    "disagreements": [m for _, m in bad[:3]],
                    "note": "proof obligation or correspondence no longer checks; no failing input found"}, no_input=True)


def replay(d):
    common.use_repo_source()
    import pydrex.core as core
    if d.get("kind") != "property-violation":
        print("replay file names a broken obligation; re-run the check itself")
        return 1
    sc = d.get("scenario", {})
    if "pair" in sc and sc.get("fail_step"):
        sc["pair"] = tuple(sc["pair"])
        fails = MT.failing_solver_probe(sc, int(sc["fail_step"]))
        for m in fails:
            print("still fails:", m)
        return 1 if fails else 0
    if "pair" in sc and sc.get("c07_probe"):
        sc["pair"] = tuple(sc["pair"])
        with MT.Recorder() as rec:
            _, fails = carried_state_fails(rec, sc)
        for k, m in fails:
            print("still fails:", k, m)
        return 1 if fails else 0
    if "pair" in sc:
        sc["pair"] = tuple(sc["pair"])
        with MT.Recorder() as rec:
            h = c01.run_history(rec, sc, F0=start_F(sc))
        sw = sc.get("regime_switch")
        null = sc.get("rate") == 0.0 or (sc.get("regime") in (0, 7) and not sw) or bool(sw and sw[0] in (0, 7) and sw[1] in (0, 7))
        fails = (null_history_fails(h, []) + null_F_fails(h)) if null else list(h["fails"])
        for k, m in fails:
            print("still fails:", k, m)
        return 1 if fails else 0
    if {"regime", "phase", "fabric"} <= set(sc):
        rng = np.random.default_rng(0)
        c = G.case(rng, n_grains=2, pair=(sc["phase"], sc["fabric"]), regime=sc["regime"], okind="haar", lkind="general", fkind="dirichlet")
        if sc.get("input"):          # the concrete call (texture, strain rate, spelling of the ordinals) that failed
            c = c03.decode(sc["input"])
        r = c03.impl(core, c)
        exp = expected_dispatch(c)
        bad = (exp == "error") != (r[0] == "ERR") or (r[0] == "ERR" and r[1] != "ValueError")
        print("derivatives", sc, "->", r[0] if r[0] == "OK" else r[1], "; C07 requires", exp)
        return 1 if bad else 0
    print("re-run ./check C07")
    return 1
