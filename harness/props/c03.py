"""C03 -- rates conserve the texture manifold (skew spins, zero net volume change)."""
from __future__ import annotations

import numpy as np

import common
import proofs
import gen_core as G
from common import hx

FILES = ["gen/Gen_core.v", "Model_core.v", "Proofs_core.v", "Proofs_total.v", "Inst_core.v", "Entry_core.v", "Extract_core.v",
         "Model_blocks.v", "Proofs_blocks.v", "Proofs_blocks_sum.v"]
PROP = "Properties/C03.v"


def encode(c):
    return {"regime": c["regime"], "phase": c["phase"], "fabric": c["fabric"], "n_grains": c["ng"],
            "orientations": [hx(x) for x in c["O"].reshape(-1)], "fractions": [hx(x) for x in c["f"]],
            "strain_rate": [hx(x) for x in c["D"].reshape(-1)],
            "velocity_gradient": [hx(x) for x in c["L"].reshape(-1)],
            "deformation_gradient_spin": [hx(x) for x in c["S"].reshape(-1)],
            "stress_exponent": hx(c["p"]), "deformation_exponent": hx(c["nexp"]),
            "nucleation_efficiency": hx(c["lam"]), "gbm_mobility": hx(c["M"]),
            "volume_fraction": hx(c["phi"]), "kinds": list(c.get("kinds", ())),
            "relative_to_output_scale": bool(c.get("relscale", False)),
            "presentation": ({"ordinals_spelled_as": c["present"][0], "array_layout": c["present"][1], "keyword_arguments": bool(c["present"][2])}
                             if c.get("present") else None)}


def decode(d):
    u = common.unhx
    n = d["n_grains"]
    return dict(regime=d["regime"], phase=d["phase"], fabric=d["fabric"], ng=n,
                O=np.array([u(x) for x in d["orientations"]]).reshape(n, 3, 3),
                f=np.array([u(x) for x in d["fractions"]]),
                D=np.array([u(x) for x in d["strain_rate"]]).reshape(3, 3),
                L=np.array([u(x) for x in d["velocity_gradient"]]).reshape(3, 3),
                S=np.array([u(x) for x in d["deformation_gradient_spin"]]).reshape(3, 3),
                p=u(d["stress_exponent"]), nexp=u(d["deformation_exponent"]),
                lam=u(d["nucleation_efficiency"]), M=u(d["gbm_mobility"]), phi=u(d["volume_fraction"]),
                kinds=tuple(d.get("kinds", ())), relscale=bool(d.get("relative_to_output_scale", False)),
                present=((d["presentation"]["ordinals_spelled_as"], d["presentation"]["array_layout"], d["presentation"]["keyword_arguments"])
                         if d.get("presentation") else None))


def impl(core, c):
    """one call of derivatives; a case may carry a presentation (spelling of the ordinals, memory layout of one array argument,
    keyword arguments) of the same values"""
    try:
        if c.get("present"):
            sp, lay, kw = c["present"]
            Ad, fd = G.call_presented(core, c, sp, lay, kw)
        else:
            Ad, fd = G.call_impl(core, c)
        return ("OK", Ad, fd)
    except Exception as e:  # noqa: BLE001
        lay = (c.get("present") or (None, None, None))[1]
        if lay and lay.split(":")[1] in G.DTYPE_KINDS and type(e).__name__ in NUMBA_REFUSALS:
            # a dtype combination numba has no typing for is REFUSED loudly at compile time (no numbers are returned): counted,
            # and the case continues on the float64 arrays (a value is never wrong; a refusal is not a value)
            REFUSED[lay] = REFUSED.get(lay, 0) + 1
            return impl(core, dict(c, present=(c["present"][0], None, c["present"][2])))
        return ("ERR", common.exc_code(e), str(e))


# exceptions with which numba refuses, at compile time, an argument type it has no typing / lowering for (float16: NotImplementedError;
# found by the thorough tier on the unchanged tree: `O:float16` is only in the thorough plan)
NUMBA_REFUSALS = ("TypingError", "NotImplementedError", "NumbaNotImplementedError", "UnsupportedError", "NumbaTypeError", "LoweringError",
                  "NumbaValueError")
REFUSED = {}       # dtype presentation -> number of calls numba refused to type (copied into the evidence by run)


def oracle(core, c, r=None):
    """Direct reading of the property on the implementation.  Returns a list of failures."""
    fails = []
    r = r or impl(core, c)
    if r[0] == "ERR":
        return [f"solver raised {r[1]}: {r[2]}"]
    Ad, fd = r[1], r[2]
    if not (np.all(np.isfinite(Ad)) and np.all(np.isfinite(fd))):
        return ["non-finite rates"]
    A = c["O"]
    S = np.einsum("nij,nkj->nik", Ad, A) + np.einsum("nij,nkj->nik", A, Ad)
    scale = max(1.0, float(np.abs(Ad).max()))
    if c.get("relscale"):       # inputs of any magnitude: skewness is judged relative to the size of the rates
        scale = max(float(np.abs(Ad).max()), 1e-300)
    if np.abs(S).max() > 1e-10 * scale:
        g = int(np.unravel_index(np.abs(S).argmax(), S.shape)[0])
        fails.append(f"orientation rate of grain {g} is not A composed with a skew spin: |Ad.A^T + A.Ad^T| = {np.abs(S).max():.3e}")
    fsum = float(c["f"].sum())
    tol = 1e-10 * max(1.0, c["M"] * c["phi"]) * max(1.0, float(np.abs(fd).max()))
    if abs(fsum - 1) < 1e-12 and abs(float(fd.sum())) > tol * max(1, c["ng"]) ** 0.5:
        fails.append(f"volume rates sum to {float(fd.sum()):.3e}, not 0")
    dead = c["f"] == 0
    if np.any(fd[dead] != 0):
        fails.append("a grain of zero volume has a non-zero volume rate")
    if c["M"] == 0 and np.any(fd != 0):
        fails.append("non-zero volume rates with zero mobility")
    # linearity in M* and phi (paired calls)
    c2 = dict(c); c2["M"] = 2 * c["M"]
    r2 = impl(core, c2)
    c3 = dict(c); c3["phi"] = 0.5 * c["phi"]
    r3 = impl(core, c3)
    if r2[0] == "OK" and r3[0] == "OK":
        t = 1e-9 * max(1e-300, float(np.abs(fd).max()))
        if np.abs(r2[2] - 2 * fd).max() > 2 * t:
            fails.append("volume rates are not linear in the boundary mobility")
        if np.abs(r3[2] - 0.5 * fd).max() > t:
            fails.append("volume rates are not linear in the phase volume fraction")
        if np.abs(r2[1] - Ad).max() > 1e-12 * scale or np.abs(r3[1] - Ad).max() > 1e-12 * scale:
            fails.append("orientation rates depend on mobility / phase fraction")
    else:
        fails.append("paired call raised")
    return fails


def gen_cases(chk, tier):
    rng = np.random.default_rng(chk.seed)
    cases = []
    nrand = 500 if tier == "quick" else 6000
    # degenerate stream: all valid pairs x both regimes x aligned orientations x each flow
    for pair in G.VALID_PAIRS:
        for regime in (4, 6):
            for lk in G.L_KINDS:
                for ok in ("aligned", "near_aligned"):
                    for fk in ("zeros", "dominant"):
                        cases.append(G.case(rng, n_grains=int(rng.integers(1, 9)), pair=pair,
                                            regime=regime, okind=ok, lkind=lk, fkind=fk))
    # all 24 aligned orientations x 6 simple shears, every pair (single grains and pairs)
    for pair in G.VALID_PAIRS:
        for k in range(24):
            c = G.case(rng, n_grains=2, pair=pair, regime=4, okind="aligned", lkind="simple", fkind="uniform")
            c["O"][0] = G.SIGNED_PERMS[k]
            cases.append(c)
    for _ in range(nrand):
        cases.append(G.case(rng))
    for n in ((1, 2, 3, 1000) if tier == "quick" else (1, 2, 3, 1000, 10000, 100000)):
        for pair in ((0, 0), (0, 2), (1, 5)):
            cases.append(G.case(rng, n_grains=n, pair=pair))
    # exponents at integers / half-integers / range ends; L of magnitude 1e-15 .. 1e12 handed directly to derivatives (own streams)
    cases += G.param_grid_cases(chk.seed, tier)
    cases += G.magnitude_cases(chk.seed, tier)
    # near ties of slip-system activity (relative gap 0 .. 5e-10, opposite and equal signs of the invariants; own stream)
    cases += G.near_tie_cases(chk.seed, tier)
    # block-boundary grain counts (independent stream: the cases above are unchanged)
    cases += G.block_cases(np.random.default_rng([chk.seed, 0xB10C]), tier)
    return cases


def presentation_cases(chk, tier, spellings=None, layouts=True):
    """cases that carry a presentation of their arguments (G.presentation_plan): `spellings` restricts the spellings of the
    ordinals (None = all planned), `layouts` includes the array-layout presentations"""
    out = []
    hist = chk.cov.setdefault("presentations", {})
    for c, sp, lay, kw in G.presentation_plan(chk.seed, tier):
        if lay is None and spellings is not None and sp not in spellings:
            continue
        if lay is not None and not layouts:
            continue
        key = f"{sp}/{lay or 'C-contiguous'}/{'keyword' if kw else 'positional'}"
        hist[key] = hist.get(key, 0) + 1
        out.append(dict(c, present=(sp, lay, bool(kw)), kinds=tuple(c["kinds"]) + (key,)))
    return out


def dtype_cases(chk, tier):
    """cases whose array arguments are handed over in integer / narrower float dtypes (G.dtype_plan): same VALUES, so the model
    (fed the float64 values) and every clause of the property apply unchanged"""
    out = []
    hist = chk.cov.setdefault("dtype_presentations", {})
    for c, lay in G.dtype_plan(chk.seed, tier):
        key = f"{lay}/{c['kinds'][0]}"
        hist[key] = hist.get(key, 0) + 1
        out.append(dict(c, present=("int", lay, False), kinds=tuple(c["kinds"]) + (lay,)))
    return out


def block_close(xs, ys, split, rtol):
    """|a - b| <= rtol x (largest magnitude in the block), separately for the orientation-rate block and the volume-rate
    block: for inputs of any magnitude (common.close compares against max(1, |a|, |b|), which makes tiny outputs equal)"""
    if len(xs) != len(ys):
        return False, -1
    a, b = np.asarray(xs, dtype=float), np.asarray(ys, dtype=float)
    if not (np.all(np.isfinite(a)) and np.all(np.isfinite(b))):
        return common.vec_close(list(xs), list(ys), rtol=rtol)
    for lo, hi in ((0, split), (split, len(a))):
        if hi <= lo:
            continue
        sc = max(float(np.abs(a[lo:hi]).max()), float(np.abs(b[lo:hi]).max()))
        d = np.abs(a[lo:hi] - b[lo:hi])
        if sc > 0 and float(d.max()) > rtol * sc:
            return False, lo + int(d.argmax())
    return True, None


def compare(chk, core, cases, entry="derivs", rtol=1e-9):
    """Differential run: implementation vs extracted model.  Returns disagreements."""
    lines = [common.model_line(entry, [c["regime"], c["phase"], c["fabric"], c["ng"]], G.flat_inputs(c))
             for c in cases]
    mres = common.run_model(lines)
    bad = []
    hist = chk.cov.setdefault("histogram", {})
    for c, m in zip(cases, mres):
        r = impl(core, c)
        key = (c["regime"], c["phase"], c["fabric"]) + tuple(c.get("kinds", ()))
        hist[str(key[:3])] = hist.get(str(key[:3]), 0) + 1
        cls = G.tie_class(c)
        near = cls == "discontinuous"
        if near:
            chk.cov["near_discontinuity"] = chk.cov.get("near_discontinuity", 0) + 1
        elif cls == "continuous":      # near tie among the most active systems: the model is continuous there, compared at 1e-7
            chk.cov["near_tie_compared"] = chk.cov.get("near_tie_compared", 0) + 1
        trivial = r[0] == "OK" and not np.any(r[1]) and not np.any(r[2])
        chk.note_case((entry, c["regime"], c["phase"], c["fabric"], c["ng"], c["O"].tobytes(), c["L"].tobytes(), c["f"].tobytes()),
                      nontrivial=not trivial,
                      sample={"entry": entry, "regime": c["regime"], "phase": c["phase"], "fabric": c["fabric"],
                              "n_grains": c["ng"], "kinds": list(c.get("kinds", ())),
                              "impl": r[0] if r[0] == "ERR" else [float(x) for x in r[2][:3]],
                              "model": m[0] if m[0] == "ERR" else [float(x) for x in m[1][9 * c["ng"]:9 * c["ng"] + 3]]})
        if r[0] == "ERR" or m[0] == "ERR":
            same = r[0] == m[0] and (r[0] != "ERR" or r[1] == m[1])
            if not same:
                bad.append((c, f"implementation: {r[:2]}, model: {m[:2] if m[0]=='ERR' else 'OK'}"))
            continue
        flat = list(r[1].reshape(-1)) + list(r[2])
        rt = rtol if cls == "none" else max(rtol, 1e-7)
        if c.get("relscale"):
            okc, idx = block_close(flat, m[1], 9 * c["ng"], rt)
        else:
            okc, idx = common.vec_close(flat, m[1], rtol=rt)
        if not okc and not near:
            a = flat[idx] if 0 <= idx < len(flat) else None
            b = m[1][idx] if 0 <= idx < len(m[1]) else None
            bad.append((c, f"component {idx}: implementation {a!r} vs model {b!r}"))
    return bad


def search(chk, core, extra=()):
    """Failing-input search with the property oracle on the implementation."""
    rng = np.random.default_rng(chk.seed + 1)
    found = []
    seen = set()
    pool = list(extra) + [c for c in gen_cases(chk, "quick") if c["ng"] <= 64] + search_block_pool(chk)
    for c in pool:
        fails = oracle(core, c)
        if fails:
            sig = (c["phase"], c["fabric"], c["regime"], fails[0].split(":")[0][:60])
            if sig in seen:
                continue
            seen.add(sig)
            found.append((shrink(core, c), fails))
            if len(found) >= 3:
                break
    return found


def search_block_pool(chk, cap=4100):
    """block-boundary sizes in increasing order (the first failing one is the smallest tested)"""
    return G.block_cases(np.random.default_rng([chk.seed, 0xB10C, 1]), "quick", cap=cap, both_regimes_upto=cap)


def shrink(core, c):
    """Fewer grains while the oracle still fails."""
    best = c
    for g in range(c["ng"]):
        c1 = dict(c)
        c1["ng"] = 1
        c1["O"] = c["O"][g:g + 1].copy()
        c1["f"] = np.ones(1)
        if oracle(core, c1):
            return c1
    return best


def run(chk):
    ok, br = proofs.prove(chk, FILES, PROP, groups=("core",), gen_modules=("core",))
    import pydrex.core as core
    chk.cov["trusted_base"] = common.TRUSTED_COMMON + [
        "hand-written Model_core.derivs (grain loop and combination of per-grain results); tied by the instance lemmas C03_instance_n{1,2,3} (kernel-checked) and by this differential run",
        "the per-grain kernel is the generated Gen_core.k_get_rotation_and_strain (tie T)",
    ]
    chk.cov["rule"] = ("cases = structured degenerate stream (all valid phase/fabric pairs x both dislocation regimes x aligned / near-aligned "
                       "orientations x flow families x volumes with zeros / one dominant grain; all 24 axis-aligned orientations) + seeded random "
                       "(Haar orientations, 5 flow families, 4 volume families, p in [1,2], n in [2,5], lam in [0,10], M in [0,200], phi in (0,1], "
                       "n_grains 1..64 and 1e3 [thorough: up to 1e5]) + near ties of slip-system activity (every olivine fabric x every pair of systems with independent invariants x "
                       "opposite / equal signs, relative gap 0..5e-10, and grains rotated about [100] to the tie angle in simple shear; compared at 1e-7 when the tie is among the "
                       "most active systems, where the model is continuous; excluded only when the least active system is involved) + deformation exponent on {2, 2.5, ..., 5} x every "
                       "pair x both regimes + L of magnitude 1e-15 .. 1e12 handed directly to derivatives (compared and judged relative to the output scale) + presentations "
                       "(ordinals as enum members / numpy ints / mixed, keyword arguments, one array argument Fortran-ordered / strided / read-only) + block-boundary grain counts (2^k - 1, 2^k, 2^k + 1 for k <= 14 [thorough 16], "
                       "multiples of 64/128/256/1000/1024; both regimes up to 2049 grains); distinct = distinct (regime, phase, fabric, n, O, L, f) byte-wise; "
                       "non-trivial = not all returned rates are zero")
    bad = []
    if br.drivers.get("core", 1) is None:
        cases = gen_cases(chk, chk.tier)
        bad += compare(chk, core, cases, "derivs")
        small = [c for c in cases if c["ng"] <= 3]
        bad += compare(chk, core, small, "kderivs")
        # the same values presented differently: array arguments Fortran-ordered / strided / read-only / aliased, ordinals as enum members
        pcases = presentation_cases(chk, chk.tier, spellings=("enum",) if chk.tier == "quick" else None, layouts=True)
        bad += compare(chk, core, pcases, "derivs")
        # the same values in integer / binary32 dtypes (axis-aligned grains as 0/+-1 integer matrices, L written with integer literals)
        dcases = dtype_cases(chk, chk.tier)
        bad += compare(chk, core, dcases, "derivs")
        pcases = pcases + dcases
        chk.cov["dtype_presentations_refused_by_numba"] = dict(REFUSED)
        chk.cov["traces_validated_against_impl"] = len(cases) + len(small) + len(pcases)
    chk.cov["disagreements"] = len(bad)
    if ok and not bad:
        return
    found = search(chk, core, extra=[c for c, _ in bad])
    if found:
        for c, fails in found:
            chk.replay({"kind": "property-violation", "call": "pydrex.core.derivatives", "input": encode(c),
                        "observed": fails, "required": "C03 (see properties.jsonl)",
                        "broken": chk.cov.get("broken_obligations", []),
                        "disagreements": [m for _, m in bad[:3]]})
    else:
        chk.replay({"kind": "unproved", "broken": chk.cov.get("broken_obligations", []),
                    "disagreements": [{"input": encode(c), "detail": m} for c, m in bad[:3]],
                    "note": "proof obligation or correspondence no longer checks; no failing input found by the search"},
                   no_input=True)


def replay(d):
    common.use_repo_source()
    import pydrex.core as core
    if d.get("kind") != "property-violation":
        print("replay file names a broken obligation; re-run the check itself")
        return 1
    fails = oracle(core, decode(d["input"]))
    for f in fails:
        print("still fails:", f)
    return 1 if fails else 0
