"""C10 -- Voigt average = volume-weighted mean of rotated single-crystal stiffnesses."""
from __future__ import annotations

import copy
import os
import pickle
import tempfile

import numpy as np

import argguard
import common
import proofs
import gen_tensors as G
from common import hx

FILES = ["gen/Gen_tensors.v", "gen/Gen_voigt.v", "Model_voigt.v", "Proofs_tensors_alg.v"] + \
        [f"Proofs_tensors_rot{i}.v" for i in range(9)] + \
        ["Proofs_tensors_rot.v", "Proofs_tensors_maps.v", "Proofs_tensors_proj.v", "Inst_tensors.v", "Inst_voigt.v", "Inst_voigt_m1_a1.v", "Inst_voigt_m1_a01.v", "Inst_voigt_m1_a10.v",
         "Inst_voigt_a0.v", "Inst_voigt_a0_b.v", "Inst_voigt_a1.v", "Inst_voigt_a01.v", "Inst_voigt_a10.v", "Proofs_voigt.v",
         "Model_decomp.v", "Proofs_decomp.v", "Proofs_voigt2.v", "Proofs_voigt3.v", "Proofs_voigt_gen.v", "Entry_tensors.v", "Extract_tensors.v"]
PROP = "Properties/C10.v"

OL, EN = 0, 1


# --------------------------------------------------------------------------
# cases: plain data (no pydrex objects), so that they can be stored in replay files
# --------------------------------------------------------------------------
ASMS = [(OL,), (EN,), (OL, EN), (EN, OL)]


def gen_case(rng, kind="valid", big=False, asm=None):
    drawn = ASMS[rng.integers(0, 4)]
    asm = drawn if asm is None else tuple(asm)       # the draw is made either way: the other streams stay as they were
    nsteps = int(rng.integers(1, 5))
    ng = int(rng.integers(1, 31)) if not big else 300
    # minerals: every phase of the assemblage at least once, in random order, sometimes a phase twice
    phases = list(asm)
    if rng.random() < 0.25:
        phases.append(asm[rng.integers(0, len(asm))])
    rng.shuffle(phases)
    phis = rng.dirichlet(np.ones(len(asm)))
    if rng.random() < 0.5:
        tensors = [G.OLIVINE.copy(), G.ENSTATITE.copy()]
    else:
        tensors = [G.spd6(rng, 150.0), G.spd6(rng, 150.0)]
    ms = []
    for ph in phases:
        os_ = [np.array([G.haar(rng) for _ in range(ng)]) for _ in range(nsteps)]
        fs = [rng.dirichlet(np.ones(ng) * rng.choice([0.3, 1.0, 10.0])) for _ in range(nsteps)]
        ms.append(dict(phase=int(ph), n_grains=ng, orientations=os_, fractions=fs))
    c = dict(assemblage=[int(p) for p in asm], phis=phis, tensors=tensors, minerals=ms, kind=kind)
    if kind == "bad_ngrains" and len(ms) > 1:
        ms[-1]["n_grains"] = ng + 1
    elif kind == "bad_osteps" and len(ms) > 1:
        ms[-1]["orientations"] = ms[-1]["orientations"] + [ms[-1]["orientations"][0]]
    elif kind == "bad_fsteps":
        k = int(rng.integers(0, len(ms)))
        ms[k]["fractions"] = ms[k]["fractions"][:-1]
    elif kind == "phase_missing":
        other = EN if asm[0] == OL else OL
        if other not in asm:
            ms[-1]["phase"] = other
        else:
            c["kind"] = "valid"
    elif kind == "phis_short" and len(asm) == 2:
        c["phis"] = phis[:1]
    elif kind != "valid":
        c["kind"] = "valid"
    return c


def model_line(c):
    ms = c["minerals"]
    ints = [len(ms), len(c["assemblage"]), len(c["phis"]), len(c["tensors"])] + list(c["assemblage"])
    fl = [np.asarray(c["phis"], dtype=float)] + [t.reshape(-1) for t in c["tensors"]]
    for m in ms:
        gs = m["orientations"][0].shape[0] if m["orientations"] else 0
        ints += [m["phase"], m["n_grains"], len(m["orientations"]), len(m["fractions"]), gs]
        fl += [o.reshape(-1) for o in m["orientations"]] + [f.reshape(-1) for f in m["fractions"]]
    return common.model_line("voigt", ints, np.concatenate(fl))


def _present(a, kind):
    return np.array(a) if kind in (None, "float64") else G.present(a, kind)


# --------------------------------------------------------------------------
# ordinal representations: the SAME phase handed over as another object
# --------------------------------------------------------------------------
# `Mineral.phase` is annotated `int` and documented as "ordinal number of the mineral phase"; MineralPhase is an IntEnum.
# The objects that really occur there: the enum member (documented examples), a plain Python int, a NumPy integer of any
# width (`Mineral.save` writes the ordinals as np.uint8, `Mineral.from_file` / `Mineral.load` put that np.uint8 scalar
# into the restored object), the member again after pickle / deepcopy.  All of them compare equal, hash equal and index a
# list alike -- but they are not the same object and not of the same type.  C10 speaks of "each grain's single-crystal
# tensor" of its phase: which phase a mineral has is a matter of the ordinal's VALUE.
ORD_CALLER = ("pyint", "np.uint8", "np.int8", "np.int32", "np.int64", "np.uint64", "np.intp")   # built by the caller
ORD_RESTORED = ("from_file", "from_file_postfix", "load", "load_postfix", "pickle", "deepcopy")  # restored by the package / stdlib
ORD_MIXED = ("mixed_file", "mixed_int")       # first mineral restored from a file, the others fresh / representations alternate
PHASE_KINDS = ORD_CALLER + ORD_RESTORED + ORD_MIXED
ASM_ITEM_KINDS = ("pyint", "np.uint8", "np.int64")
ORD_WHATS = ("phase", "assemblage_items", "ordinals")


def _ordinal(p, kind):
    """the phase ordinal `p` (0 | 1) as an object of the representation `kind`"""
    import pydrex.core as core
    if kind in (None, "enum"):
        return core.MineralPhase(int(p))
    if kind == "pyint":
        return int(p)
    if kind.startswith("np."):
        return getattr(np, kind[3:])(int(p))
    raise ValueError(f"unknown ordinal representation {kind!r}")


def _phase_repr(mm, kind, k):
    """the mineral `mm` (k-th of the list) with the same texture and the same phase, the phase ordinal being held in the
    representation `kind` (PHASE_KINDS): set by the caller, or whatever a save / load, pickle or deepcopy round trip leaves"""
    import pydrex.minerals as M
    if kind == "mixed_file":
        kind = "from_file" if k == 0 else "enum"
    elif kind == "mixed_int":
        kind = ("pyint", "enum", "np.uint8")[k % 3]
    if kind in (None, "enum"):
        return mm
    if kind in ORD_CALLER:
        mm.phase = _ordinal(mm.phase, kind)
        return mm
    if kind == "pickle":
        return pickle.loads(pickle.dumps(mm))
    if kind == "deepcopy":
        return copy.deepcopy(mm)
    postfix = f"m{k}" if kind.endswith("_postfix") else None
    with tempfile.TemporaryDirectory(prefix="c10_") as tmp:
        path = os.path.join(tmp, "cpo.npz")
        mm.save(path, postfix=postfix)
        if kind.startswith("from_file"):
            return M.Mineral.from_file(path, postfix=postfix)
        if kind.startswith("load"):
            new = M.Mineral(n_grains=4)            # a default (olivine) object; load() replaces phase, texture, n_grains
            new.load(path, postfix=postfix)
            return new
    raise ValueError(f"unknown ordinal representation {kind!r}")


def may_refuse(what, kind):
    """presentations that may be refused loudly (G.REFUSAL) instead of being averaged: integer arrays / nested lists (numba
    has no typing for them) and ordinals the CALLER built as plain / NumPy integers.  What the package itself restores
    (file, pickle, deepcopy) must be averaged."""
    if what in ORD_WHATS:
        return kind in ORD_CALLER
    return kind in G.PRES_INTEGER or kind in ("list", "int")


def build(c):
    """pydrex objects of the plain-data case `c`; `c["pres"]` (optional) hands the SAME numbers over in another
    dtype / memory layout / container: keys tensors, orientations, fractions (a G.PRES_KINDS kind each),
    phis ('list' | 'tuple' | 'array' | 'float32' | 'int'), minerals / assemblage ('list' | 'tuple'),
    phase (PHASE_KINDS: representation of Mineral.phase), assemblage_items (ASM_ITEM_KINDS: of the assemblage's entries)"""
    import logging
    import pydrex.core as core
    import pydrex.minerals as M
    import pydrex.logger as L
    L.CONSOLE_LOGGER.setLevel(logging.ERROR)
    pres = c.get("pres") or {}
    ms = []
    for k, m in enumerate(c["minerals"]):
        ph = core.MineralPhase(m["phase"])
        fab = core.MineralFabric.olivine_A if m["phase"] == OL else core.MineralFabric.enstatite_AB
        mm = M.Mineral(phase=ph, fabric=fab, regime=core.DeformationRegime.matrix_dislocation, n_grains=4)
        mm.n_grains = m["n_grains"]
        mm.orientations = [_present(o, pres.get("orientations")) for o in m["orientations"]]
        mm.fractions = [_present(f, pres.get("fractions")) for f in m["fractions"]]
        ms.append(_phase_repr(mm, m.get("repr") or pres.get("phase"), k))     # m["repr"]: this mineral's own representation (mixed lists)
    asm = [_ordinal(p, pres.get("assemblage_items")) for p in c["assemblage"]]
    st = M.StiffnessTensors(olivine=np.array(c["tensors"][0]), enstatite=np.array(c["tensors"][1]))
    if pres.get("tensors"):
        st.olivine, st.enstatite = _present(c["tensors"][0], pres["tensors"]), _present(c["tensors"][1], pres["tensors"])
    pk = pres.get("phis", "list")
    phis = [float(x) for x in c["phis"]]
    if pk == "tuple":
        phis = tuple(phis)
    elif pk == "array":
        phis = np.array(phis)
    elif pk == "float32":
        phis = [np.float32(x) for x in phis]
    elif pk == "int":
        phis = [int(x) for x in phis]
    if pres.get("minerals") == "tuple":
        ms = tuple(ms)
    if pres.get("assemblage") == "tuple":
        asm = tuple(asm)
    return ms, asm, phis, st


def impl(c):
    import pydrex.minerals as M
    try:
        ms, asm, phis, st = build(c)
        return ("OK", np.asarray(M.voigt_averages(ms, asm, phis, st), dtype=float))
    except Exception as e:  # noqa: BLE001
        return ("ERR", common.exc_code(e), str(e))


def encode(c):
    return {"assemblage": c["assemblage"], "phis": [hx(x) for x in c["phis"]],
            "tensors": [[hx(x) for x in t.reshape(-1)] for t in c["tensors"]], "kind": c.get("kind", ""),
            "pres": c.get("pres"),
            "minerals": [{"phase": m["phase"], "n_grains": m["n_grains"], "repr": m.get("repr"),
                          "orientations": [[hx(x) for x in o.reshape(-1)] for o in m["orientations"]],
                          "fractions": [[hx(x) for x in f] for f in m["fractions"]]} for m in c["minerals"]]}


def decode(d):
    u = common.unhx
    return dict(assemblage=d["assemblage"], phis=np.array([u(x) for x in d["phis"]]),
                tensors=[np.array([u(x) for x in t]).reshape(6, 6) for t in d["tensors"]], kind=d.get("kind", ""),
                pres=d.get("pres"),
                minerals=[dict(phase=m["phase"], n_grains=m["n_grains"], repr=m.get("repr"),
                               orientations=[np.array([u(x) for x in o]).reshape(-1, 3, 3) for o in m["orientations"]],
                               fractions=[np.array([u(x) for x in f]) for f in m["fractions"]]) for m in d["minerals"]])


def KG(Mx):
    K = Mx[:3, :3].sum() / 9
    G_ = (Mx[0, 0] + Mx[1, 1] + Mx[2, 2] + 2 * (Mx[3, 3] + Mx[4, 4] + Mx[5, 5]) - 3 * K) / 10
    return K, G_


def oracle(c):
    """Direct reading of C10 on pydrex.minerals.voigt_averages (valid inputs); list of failures."""
    import pydrex.tensors as T
    f = []
    r = impl(c)
    if r[0] == "ERR":
        return [f"voigt_averages raised {r[1]}: {r[2]}"]
    avg = r[1]
    pres = c.get("pres") or {}
    tol = 1e-5 if "float32" in pres.values() else 1e-9      # float32 operands: part of the arithmetic runs in binary32
    # relative to the size of the result / of the stiffness constants: no absolute floor
    sc = max(float(np.abs(avg).max()), max(float(np.abs(np.asarray(t)).max()) for t in c["tensors"])) or 1.0
    asm, phis = c["assemblage"], np.asarray(c["phis"])
    nsteps = len(c["minerals"][0]["orientations"])
    if np.abs(avg - avg.transpose(0, 2, 1)).max() > tol * sc:
        f.append("a Voigt average is not symmetric")
    C4 = [T.voigt_to_elastic_tensor(np.array(t)) for t in c["tensors"]]
    ref = np.zeros((nsteps, 6, 6))
    for i in range(nsteps):
        for m in c["minerals"]:
            A = m["orientations"][i]
            w = m["fractions"][i] * phis[asm.index(m["phase"])]
            rot = np.einsum("nai,nbj,nck,ndl,abcd->nijkl", A, A, A, A, C4[m["phase"]])   # rotate(C, A^T)
            ref[i] += T.elastic_tensor_to_voigt(np.einsum("n,nijkl->ijkl", w, rot))
    if np.abs(avg - ref).max() > tol * sc:
        f.append("Voigt average differs from the volume-weighted sum of the rotated single-crystal tensors of each grain's own phase")
    # texture-independent moduli (one mineral per phase, weights sum to one)
    unit = all(abs(float(np.sum(f)) - 1.0) < 1e-9 for m in c["minerals"] for f in m["fractions"])   # the clause's own hypothesis
    if unit and sorted(m["phase"] for m in c["minerals"]) == sorted(asm):
        Kx = sum(phis[asm.index(p)] * KG(np.array(c["tensors"][p]))[0] for p in asm)
        Gx = sum(phis[asm.index(p)] * KG(np.array(c["tensors"][p]))[1] for p in asm)
        for i in range(nsteps):
            K, G_ = KG(avg[i])
            if abs(K - Kx) > tol * sc or abs(G_ - Gx) > tol * sc:
                f.append(f"bulk/shear moduli of the average ({K:.9g}, {G_:.9g}) differ from the phase-weighted single-crystal Voigt moduli ({Kx:.9g}, {Gx:.9g})")
                break
    # co-rotation with the reference frame: A -> A.Q^T
    Q = G.haar(np.random.default_rng(7))
    c2 = dict(c, minerals=[dict(m, orientations=[o @ Q.T for o in m["orientations"]]) for m in c["minerals"]],
              pres={k: v for k, v in pres.items() if k != "orientations"})     # the rotated numbers are float64 numbers
    r2 = impl(c2)
    if r2[0] == "OK":
        for i in range(nsteps):
            want = T.elastic_tensor_to_voigt(T.rotate(T.voigt_to_elastic_tensor(avg[i].copy()), Q.copy()))
            if np.abs(r2[1][i] - want).max() > 10 * tol * sc:
                f.append("Voigt average does not co-rotate with the reference frame")
                break
    else:
        f.append("rotated-frame call raised")
    # order independence
    c3 = dict(c, minerals=list(reversed(c["minerals"])))
    r3 = impl(c3)
    if r3[0] != "OK" or np.abs(r3[1] - avg).max() > tol * sc:
        f.append("result depends on the order of the mineral list")
    c4 = dict(c, assemblage=list(reversed(asm)), phis=phis[::-1])
    r4 = impl(c4)
    if r4[0] != "OK" or np.abs(r4[1] - avg).max() > tol * sc:
        f.append("result depends on the order in which the phases are listed")
    # one aligned grain
    p = c["minerals"][0]["phase"]
    one = dict(assemblage=[p], phis=np.array([1.0]), tensors=c["tensors"],
               pres={k: v for k, v in pres.items() if k in ("phase", "assemblage_items")},   # same representation of the ordinals
               minerals=[dict(phase=p, n_grains=1, orientations=[np.eye(3)[None]], fractions=[np.array([1.0])])])
    r5 = impl(one)
    if r5[0] != "OK" or np.abs(r5[1][0] - np.array(c["tensors"][p])).max() > tol * sc:
        f.append("one aligned grain does not return the single-crystal tensor of its phase")
    return f


def oracle_rejects(c):
    r = impl(c)
    if c["kind"] in ("bad_ngrains", "bad_osteps", "bad_fsteps") and not (r[0] == "ERR" and r[1] == "ValueError"):
        return [f"minerals with mismatched counts ({c['kind']}) were not rejected with ValueError: {r[:2] if r[0] == 'ERR' else 'returned a result'}"]
    return []


# --------------------------------------------------------------------------
# stateful stream: StiffnessTensors instances that live across several calls
# --------------------------------------------------------------------------
# A sequence = base case (assemblage, phis, minerals, initial constants) + a variant + steps.
# Every step modifies the constants of an instance (attribute assignment or in-place write, the
# two ways the docstring of voigt_averages tells users to customise) and then averages again
# with the SAME instance.  Each call must give what a fresh instance holding the constants
# that the instance holds AT THAT CALL gives (= the model evaluated on those constants).
SEQ_VARIANTS = ["reuse", "reuse", "reuse", "pre_customised", "subclass", "twins", "default_arg"]
_NAMES = {OL: "olivine", EN: "enstatite"}


def gen_seq(rng, variant=None):
    base = gen_case(rng, "valid")
    base["minerals"] = [dict(m, orientations=m["orientations"][:2], fractions=m["fractions"][:2]) for m in base["minerals"]]
    variant = variant or SEQ_VARIANTS[int(rng.integers(0, len(SEQ_VARIANTS)))]
    steps = []
    for _ in range(int(rng.integers(2, 4))):
        mods = []
        for ph in (OL, EN):
            if rng.random() < 0.7:
                how = ["assign", "inplace", "scale"][int(rng.integers(0, 3))]
                mods.append(dict(phase=ph, how=how, matrix=G.spd6(rng, 150.0), factor=float(rng.uniform(0.5, 1.5))))
        if not mods:
            mods.append(dict(phase=int(base["minerals"][0]["phase"]), how="assign", matrix=G.spd6(rng, 150.0), factor=1.0))
        steps.append(mods)
    if variant == "default_arg":
        base["tensors"] = [G.OLIVINE.copy(), G.ENSTATITE.copy()]
        steps = []
    return dict(base, kind="stateful", variant=variant, steps=steps)


def _apply(st, held, mods):
    """modify the instance `st` and the harness's own record `held` of what it must hold"""
    for md in mods:
        name = _NAMES[md["phase"]]
        if md["how"] == "assign":
            setattr(st, name, np.array(md["matrix"]))
            held[md["phase"]] = np.array(md["matrix"])
        elif md["how"] == "inplace":
            getattr(st, name)[...] = md["matrix"]
            held[md["phase"]] = np.array(md["matrix"])
        else:  # scale: in-place multiplication of the array the instance already holds
            arr = getattr(st, name)
            arr *= md["factor"]
            held[md["phase"]] = held[md["phase"]] * md["factor"]


def run_seq(sc):
    """Execute the sequence on the implementation.  Returns [(label, held_constants, result)],
    result = ("OK", array) | ("ERR", code, text); held_constants = [olivine, enstatite] the
    instance used for that call must hold."""
    import dataclasses
    import pydrex.minerals as M
    plain = dict(sc, kind="valid")
    ms, asm, phis, _ = build(plain)
    t0 = [np.array(sc["tensors"][0]), np.array(sc["tensors"][1])]
    out = []

    def call(label, st, held, **kw):
        try:
            if st is None:
                r = ("OK", np.asarray(M.voigt_averages(ms, asm, phis), dtype=float))
            else:
                r = ("OK", np.asarray(M.voigt_averages(ms, asm, phis, st), dtype=float))
        except Exception as e:  # noqa: BLE001
            r = ("ERR", common.exc_code(e), str(e))
        seen = None if st is None else [np.array(st.olivine), np.array(st.enstatite)]
        out.append((label, [h.copy() for h in held], r, seen))

    v = sc["variant"]
    if v == "default_arg":
        call("default elastic_tensors argument", None, t0)
        return out
    if v == "reuse":
        st = M.StiffnessTensors(olivine=t0[0].copy(), enstatite=t0[1].copy())
        held = [t0[0].copy(), t0[1].copy()]
        call("first use", st, held)
        for k, mods in enumerate(sc["steps"]):
            _apply(st, held, mods)
            call(f"same instance after modification {k + 1} ({', '.join(_NAMES[m['phase']] + ':' + m['how'] for m in mods)})", st, held)
    elif v == "pre_customised":
        st = M.StiffnessTensors()
        held = [G.OLIVINE.copy(), G.ENSTATITE.copy()]
        _apply(st, held, sc["steps"][0])
        call("default instance customised before its first use", st, held)
        for k, mods in enumerate(sc["steps"][1:]):
            _apply(st, held, mods)
            call(f"same instance after modification {k + 2}", st, held)
    elif v == "subclass":
        a, b = t0[0].copy(), t0[1].copy()
        Sub = dataclasses.make_dataclass(
            "CustomTensors",
            [("olivine", np.ndarray, dataclasses.field(default_factory=lambda: a.copy())),
             ("enstatite", np.ndarray, dataclasses.field(default_factory=lambda: b.copy()))],
            bases=(M.StiffnessTensors,))
        st = Sub()
        held = [a.copy(), b.copy()]
        call("subclass with overridden defaults", st, held)
        for k, mods in enumerate(sc["steps"]):
            _apply(st, held, mods)
            call(f"subclass instance after modification {k + 1}", st, held)
        call("second instance of the subclass (defaults)", Sub(), [a.copy(), b.copy()])
    elif v == "twins":
        st1 = M.StiffnessTensors(olivine=t0[0].copy(), enstatite=t0[1].copy())
        st2 = M.StiffnessTensors(olivine=t0[0].copy(), enstatite=t0[1].copy())
        h1, h2 = [t0[0].copy(), t0[1].copy()], [t0[0].copy(), t0[1].copy()]
        call("twin 1, first use", st1, h1)
        call("twin 2 (identical constants), first use", st2, h2)
        for k, mods in enumerate(sc["steps"]):
            _apply(st1, h1, mods)
            call(f"twin 2 after twin 1 was modified ({k + 1})", st2, h2)
            call(f"twin 1 after modification {k + 1}", st1, h1)
    return out


def seq_expected_cases(sc, calls):
    return [dict(sc, kind="valid", tensors=[h[0], h[1]]) for _, h, _, _ in calls]


def oracle_seq(sc):
    """Property oracle for a sequence: every call must equal the call on a FRESH instance that
    holds the same constants, which in turn must satisfy C10 (oracle above)."""
    f = []
    calls = run_seq(sc)
    for (label, held, r, seen), c in zip(calls, seq_expected_cases(sc, calls)):
        if seen is not None and (np.abs(seen[0] - held[0]).max() > 0 or np.abs(seen[1] - held[1]).max() > 0):
            f.append(f"[{sc['variant']}: {label}] the instance does not hold the constants it was given")
        fresh = impl(c)
        if r[0] == "ERR" or fresh[0] == "ERR":
            if not (r[0] == fresh[0] == "ERR" and r[1] == fresh[1]):
                f.append(f"[{sc['variant']}: {label}] outcome differs from a fresh StiffnessTensors instance with the same constants")
            continue
        sc_ = max(1.0, float(np.abs(fresh[1]).max()))
        if np.abs(r[1] - fresh[1]).max() > 1e-9 * sc_:
            f.append(f"[{sc['variant']}: {label}] voigt_averages does not use the constants the StiffnessTensors instance holds at the call "
                     f"(differs from a fresh instance with the same constants by {np.abs(r[1] - fresh[1]).max():.3e})")
    if not f:
        c0 = dict(sc, kind="valid")
        f += oracle(c0)
    return f


def encode_any(c):
    d = encode(c)
    if c.get("kind") == "stateful":
        d["variant"] = c["variant"]
        d["steps"] = [[{"phase": m["phase"], "how": m["how"], "factor": hx(m["factor"]),
                        "matrix": [hx(x) for x in np.asarray(m["matrix"]).reshape(-1)]} for m in mods] for mods in c["steps"]]
    return d


def decode_any(d):
    c = decode(d)
    if d.get("kind") == "stateful":
        u = common.unhx
        c["variant"] = d["variant"]
        c["steps"] = [[dict(phase=m["phase"], how=m["how"], factor=u(m["factor"]),
                            matrix=np.array([u(x) for x in m["matrix"]]).reshape(6, 6)) for m in mods] for mods in d["steps"]]
    return c


def fails_of(c):
    k = c.get("kind", "valid")
    if k == "stateful":
        return oracle_seq(c)
    if k.startswith("magnitude:"):
        return oracle(c)
    if k.startswith("presentation:"):
        # the property read on another presentation of the same numbers; a presentation numba / NumPy has no
        # typing for may be refused loudly
        what, kind = k.split(":")[1:3]
        try:
            build_and_call(c)
        except Exception as e:  # noqa: BLE001
            if type(e).__name__ in G.REFUSAL and may_refuse(what, kind):
                return []
        return oracle(c)
    return oracle(c) if k == "valid" else oracle_rejects(c)


def build_and_call(c):
    import pydrex.minerals as M
    ms, asm, phis, st = build(c)
    return M.voigt_averages(ms, asm, phis, st)


def gen_seqs(chk, tier):
    rng = np.random.default_rng(chk.seed + 2)
    n = 21 if tier == "quick" else 150
    return [gen_seq(rng, SEQ_VARIANTS[k % len(SEQ_VARIANTS)]) for k in range(n)]


def compare_seqs(chk, seqs):
    """stateful correspondence: every call of every sequence vs the extracted model evaluated
    on the constants the instance holds at that call"""
    runs = [run_seq(sc) for sc in seqs]
    exp = [seq_expected_cases(sc, calls) for sc, calls in zip(seqs, runs)]
    lines = [model_line(c) for cs in exp for c in cs]
    mres = common.run_model(lines, group=G.GROUP) if lines else []
    bad, k = [], 0
    hist = chk.cov.setdefault("histogram", {})
    for sc, calls, cs in zip(seqs, runs, exp):
        for (label, held, r, seen), c in zip(calls, cs):
            m = mres[k]
            k += 1
            key = f"stateful|{sc['variant']}|call={label.split(' (')[0].rstrip('0123456789 ')}"
            hist[key] = hist.get(key, 0) + 1
            chk.note_case(("voigt-stateful", sc["variant"], label, model_line(c)), nontrivial=(r[0] == "OK"),
                          sample={"kind": "stateful", "variant": sc["variant"], "call": label,
                                  "impl": r[1] if r[0] == "ERR" else [float(v) for v in r[1].reshape(-1)[:3]],
                                  "model": m[1] if m[0] == "ERR" else [float(v) for v in m[1][:3]]})
            if seen is not None and (np.abs(seen[0] - held[0]).max() > 0 or np.abs(seen[1] - held[1]).max() > 0):
                bad.append((sc, f"[{sc['variant']}: {label}] instance attributes differ from the constants assigned"))
            if r[0] == "ERR" or m[0] == "ERR":
                if not (r[0] == m[0] == "ERR" and r[1] == m[1]):
                    bad.append((sc, f"[{sc['variant']}: {label}] implementation: {r[:2] if r[0] == 'ERR' else 'OK'}, model: {m[:2] if m[0] == 'ERR' else 'OK'}"))
                continue
            okc, idx = common.vec_close(list(r[1].reshape(-1)), m[1], rtol=1e-9)
            if not okc:
                bad.append((sc, f"[{sc['variant']}: {label}] component {idx}: implementation (instance reused) vs model on the constants held at the call differ"))
    chk.cov["stateful_sequences"] = len(seqs)
    chk.cov["stateful_calls"] = k
    return bad


KINDS = ["valid"] * 8 + ["bad_ngrains", "bad_osteps", "bad_fsteps", "phase_missing", "phis_short"]


# --------------------------------------------------------------------------
# presentations: the same numbers with another dtype / memory layout / container
# --------------------------------------------------------------------------
def signed_perm(rng):
    """an exactly orthogonal integer matrix"""
    p = np.eye(3)[rng.permutation(3)]
    return p * rng.choice([-1.0, 1.0], size=3)[:, None]


def f32(a):
    return np.asarray(a, dtype=np.float32).astype(float)


PRES_PLAN = [  # (what is presented, kind, how the numbers are chosen so that the presentation is exact)
    ("tensors", k) for k in ("int64", "int32", "float32", "fortran", "strided", "reversed", "readonly")] + [
    ("orientations", k) for k in ("int64", "int32", "float32", "fortran", "strided", "reversed", "readonly", "list")] + [
    ("fractions", k) for k in ("int64", "int32", "float32", "strided", "reversed", "readonly", "list")] + [
    ("phis", k) for k in ("tuple", "array", "float32", "int")] + [("minerals", "tuple"), ("assemblage", "tuple"),
    ("all", "int64"), ("all", "float32"), ("all", "fortran")] + [
    # ordinal representations (see PHASE_KINDS): of Mineral.phase, of the assemblage's entries, of both
    ("phase", k) for k in PHASE_KINDS] + [("assemblage_items", k) for k in ASM_ITEM_KINDS] + [
    ("ordinals", k) for k in ASM_ITEM_KINDS]


def gen_pres_case(rng, what, kind, asm=None):
    """a valid case whose numbers are exactly representable in the presentation, + c['pres']"""
    c = gen_case(rng, "valid", asm=asm)
    ns = len(c["minerals"][0]["orientations"])
    if what in ORD_WHATS and kind in ORD_MIXED:
        # representations can only be mixed among several minerals: at least three (phases of the assemblage in turn)
        n0 = c["minerals"][0]["n_grains"]
        while len(c["minerals"]) < 3:
            ph = c["assemblage"][len(c["minerals"]) % len(c["assemblage"])]
            c["minerals"].append(dict(phase=int(ph), n_grains=n0, orientations=[np.array([G.haar(rng) for _ in range(n0)]) for _ in range(ns)],
                                      fractions=[rng.dirichlet(np.ones(n0)) for _ in range(ns)]))
        # the representation belongs to the mineral, not to its position: reordering the list (oracle) keeps it
        for k, m in enumerate(c["minerals"]):
            m["repr"] = ("from_file" if k == 0 else "enum") if kind == "mixed_file" else ("pyint", "enum", "np.uint8")[k % 3]
    ng = min(c["minerals"][0]["n_grains"], 6)
    integer = what not in ORD_WHATS and (kind in G.PRES_INTEGER or kind == "int")
    single = kind == "float32"
    for m in c["minerals"]:
        m["n_grains"] = ng
        m["orientations"] = [o[:ng] for o in m["orientations"]]
        m["fractions"] = [f[:ng] / f[:ng].sum() for f in m["fractions"]]
    if what in ("tensors", "all"):
        if integer:
            c["tensors"] = [G.int_sym6(rng, 300) for _ in range(2)]        # generic (Haar) orientations stay float64
        elif single:
            c["tensors"] = [f32(t) for t in c["tensors"]]
    if what in ("orientations", "all"):
        for m in c["minerals"]:
            if integer:
                m["orientations"] = [np.array([signed_perm(rng) for _ in range(ng)]) for _ in range(ns)]
            elif single:
                m["orientations"] = [f32(o) for o in m["orientations"]]
    if what in ("fractions", "all"):
        for m in c["minerals"]:
            if integer:
                m["fractions"] = [rng.integers(0, 4, size=ng).astype(float) for _ in range(ns)]
            elif single:
                m["fractions"] = [f32(f) for f in m["fractions"]]
    if what == "phis":
        if kind == "int":
            c["phis"] = np.array([float(v) for v in rng.integers(0, 3, size=len(c["phis"]))])
        elif kind == "float32":
            c["phis"] = f32(c["phis"])
    keys = {"all": ("tensors", "orientations", "fractions"), "ordinals": ("phase", "assemblage_items")}.get(what, (what,))
    c["pres"] = {k: kind for k in keys}
    c["kind"] = f"presentation:{what}:{kind}"
    return c


def gen_pres_cases(chk, tier):
    rng = np.random.default_rng(chk.seed + 11)
    reps = 1 if tier == "quick" else 12
    cases = []
    for r in range(reps):
        for j, (w, k) in enumerate(PRES_PLAN):
            # ordinal representations: assemblage from a fixed cycle (the family meets all four on every seed), others drawn
            cases.append(gen_pres_case(rng, w, k, asm=ASMS[(j + r) % 4] if w in ORD_WHATS else None))
    # ... and once more per repetition on a two-phase aggregate (both orders), where dropping / confusing one phase shows
    ords = [(w, k) for w, k in PRES_PLAN if w in ORD_WHATS]
    rng2 = np.random.default_rng(chk.seed + 17)
    for r in range(reps):
        for j, (w, k) in enumerate(ords):
            cases.append(gen_pres_case(rng2, w, k, asm=ASMS[2 + (j + r) % 2]))
    return cases


def compare_pres(chk, cases):
    """implementation on the presented objects vs the extracted model on the same numbers (1e-9; 1e-5 where float32
    arithmetic is involved), or a loud refusal of an integer / list presentation (G.REFUSAL; may_refuse); never another value.
    The model is a pure function of the numbers: the call must also leave every array reachable from its arguments alone
    (argguard.guarded), and the ordinal objects the caller put into the minerals / the assemblage must still be there."""
    import pydrex.minerals as M
    mres = common.run_model([model_line(c) for c in cases], group=G.GROUP)
    bad = []
    hist = chk.cov.setdefault("presentation_histogram", {})
    ohist = chk.cov.setdefault("ordinal_representation_histogram", {})
    for c, m in zip(cases, mres):
        what, kind = c["kind"].split(":")[1:]
        faults = []
        try:
            ms, asm, phis, st = build(c)
            held = [x.phase for x in ms] + list(asm)
            if what in ORD_WHATS:
                # what the call really gets: types of the ordinal objects (a file round trip leaves np.uint8, pickle the member)
                for okey in (f"{what}:{kind}|Mineral.phase={'+'.join(sorted({type(x.phase).__name__ for x in ms}))}"
                             f"|assemblage items={'+'.join(sorted({type(x).__name__ for x in asm}))}",
                             f"assemblage={tuple(c['assemblage'])}", f"minerals={len(ms)}"):
                    ohist[okey] = ohist.get(okey, 0) + 1
            res, faults = argguard.guarded(M.voigt_averages, (ms, asm, phis, st))
            if any(a is not b for a, b in zip(held, [x.phase for x in ms] + list(asm))):
                faults.append("the call replaced a phase ordinal object of its arguments")
            r = ("OK", np.asarray(res, dtype=float))
        except Exception as e:  # noqa: BLE001
            r = ("ERR", type(e).__name__, str(e)[:200])
        bad += [(c, f"{what}:{kind}: {ft}") for ft in faults]
        chk.note_case(("voigt-presentation", c["kind"], model_line(c)), nontrivial=(r[0] == "OK"),
                      sample={"kind": c["kind"], "impl": r[1] if r[0] == "ERR" else [float(v) for v in r[1].reshape(-1)[:3]]})
        key = f"{what}:{kind}"
        if r[0] == "ERR":
            refused = r[1] in G.REFUSAL and may_refuse(what, kind)
            hist[key] = "refused" if refused else "raised"
            if not refused:
                bad.append((c, f"{key}: raised {r[1]}: {r[2]}"))
            continue
        if m[0] != "OK":
            bad.append((c, f"{key}: model {m[:2]}, implementation OK"))
            continue
        okc, idx = common.vec_close(list(r[1].reshape(-1)), m[1], rtol=1e-5 if kind == "float32" else 1e-9)
        if okc:
            hist.setdefault(key, "same value")
        else:
            hist[key] = "DIFFERENT VALUE"
            bad.append((c, f"{key}: component {idx}: implementation {r[1].reshape(-1)[idx]!r} vs model on the same numbers {m[1][idx]!r}"))
    chk.cov["presentation_cases"] = len(cases)
    chk.cov["ordinal_representation_cases"] = sum(1 for c in cases if c["kind"].split(":")[1] in ORD_WHATS)
    return bad


# --------------------------------------------------------------------------
# magnitudes: the average is linear in the stiffness constants -- the unit they are expressed in does not matter
# --------------------------------------------------------------------------
MAG_PLAN = [("scaled", k) for k in (-60, -40, -34, -30, -20, 20, 40, 60)] + [("odd", t) for t in (3e-11, 2.0 ** -40, 1e-15, 1e12)]


def gen_mag_case(rng, what, v):
    """scaled: both stiffness matrices in units of 2^v;  odd: one coupling constant of each matrix replaced by v"""
    c = gen_case(rng, "valid")
    ng = min(c["minerals"][0]["n_grains"], 6)
    for m in c["minerals"]:
        m["n_grains"] = ng
        m["orientations"] = [o[:ng] for o in m["orientations"]]
        m["fractions"] = [f[:ng] / f[:ng].sum() for f in m["fractions"]]
    if what == "scaled":
        c["tensors"] = [t * 2.0 ** v for t in c["tensors"]]
    else:
        for t in c["tensors"]:
            i, j = sorted(int(x) for x in rng.integers(0, 6, size=2))
            t[i, j] = t[j, i] = v
    c["kind"] = f"magnitude:{what}:{v!r}"
    return c


def gen_mag_cases(chk, tier):
    rng = np.random.default_rng(chk.seed + 13)
    return [gen_mag_case(rng, w, v) for _ in range(1 if tier == "quick" else 10) for w, v in MAG_PLAN]


def compare_mag(chk, cases):
    """implementation vs extracted model with a tolerance relative to the size of the stiffness constants (no absolute floor)"""
    mres = common.run_model([model_line(c) for c in cases], group=G.GROUP)
    bad = []
    hist = chk.cov.setdefault("magnitude_histogram", {})
    for c, m in zip(cases, mres):
        r = impl(c)
        hist[c["kind"]] = hist.get(c["kind"], 0) + 1
        chk.note_case(("voigt-magnitude", c["kind"], model_line(c)), nontrivial=(r[0] == "OK"),
                      sample={"kind": c["kind"], "impl": r[1] if r[0] == "ERR" else [float(v) for v in r[1].reshape(-1)[:3]]})
        if r[0] == "ERR" or m[0] == "ERR":
            if not (r[0] == m[0] == "ERR" and r[1] == m[1]):
                bad.append((c, f"{c['kind']}: implementation {r[:2] if r[0] == 'ERR' else 'OK'}, model {m[:2] if m[0] == 'ERR' else 'OK'}"))
            continue
        scale = max(float(np.abs(t).max()) for t in c["tensors"])
        okc, idx = common.vec_close(list(r[1].reshape(-1)), m[1], rtol=0.0, atol=1e-10 * scale)
        if not okc:
            bad.append((c, f"{c['kind']}: component {idx}: implementation {r[1].reshape(-1)[idx]!r} vs model {m[1][idx]!r} (stiffness scale {scale:.3g})"))
    return bad


def gen_cases(chk, tier):
    rng = np.random.default_rng(chk.seed)
    n = 260 if tier == "quick" else 3000      # ~0.2 s per case in the extracted model (rotate4 over lists)
    cases = [gen_case(rng, KINDS[k % len(KINDS)]) for k in range(n)]
    for _ in range(1 if tier == "quick" else 5):
        cases.append(gen_case(rng, "valid", big=True))
    return cases


def compare(chk, cases):
    mres = common.run_model([model_line(c) for c in cases], group=G.GROUP)
    bad = []
    hist = chk.cov.setdefault("histogram", {})
    for c, m in zip(cases, mres):
        r = impl(c)
        key = f"{c['kind']}|asm={tuple(c['assemblage'])}|minerals={tuple(x['phase'] for x in c['minerals'])}"
        hist[key] = hist.get(key, 0) + 1
        chk.note_case(("voigt", model_line(c)), nontrivial=(r[0] == "OK"),
                      sample={"kind": c["kind"], "assemblage": c["assemblage"], "minerals": [x["phase"] for x in c["minerals"]],
                              "impl": r[1] if r[0] == "ERR" else [float(v) for v in r[1].reshape(-1)[:3]],
                              "model": m[1] if m[0] == "ERR" else [float(v) for v in m[1][:3]]})
        if r[0] == "ERR" or m[0] == "ERR":
            if not (r[0] == m[0] == "ERR" and r[1] == m[1]):
                bad.append((c, f"implementation: {r[:2] if r[0] == 'ERR' else 'OK'}, model: {m[:2] if m[0] == 'ERR' else 'OK'}"))
            continue
        okc, idx = common.vec_close(list(r[1].reshape(-1)), m[1], rtol=1e-9)
        if not okc:
            bad.append((c, f"component {idx}: implementation vs model differ"))
    return bad


def search(chk, extra=()):
    rng = np.random.default_rng(chk.seed + 1)
    pool = [c for c in extra] + [gen_seq(rng, SEQ_VARIANTS[k % len(SEQ_VARIANTS)]) for k in range(14)] \
        + [gen_pres_case(rng, w, k) for w, k in PRES_PLAN] + [gen_mag_case(rng, w, v) for w, v in MAG_PLAN] \
        + [gen_case(rng, KINDS[k % len(KINDS)]) for k in range(60)]
    found, seen = [], set()
    for c in pool:
        fails = fails_of(c)
        new = [m.split("(")[0] for m in fails if m.split("(")[0] not in seen]
        if new:
            seen.update(new)
            found.append((c, fails))
            if len(found) >= 3:
                break
    return found


def run(chk):
    ok, br = proofs.prove(chk, FILES, PROP, groups=(G.GROUP,), gen_modules=("tensors",))
    chk.cov["trusted_base"] = common.TRUSTED_COMMON + [
        "hand-written Model_voigt.voigt_averages (validation, triple loop, lookups: stiffness by phase ordinal, phase fraction by position in the assemblage); tied by this differential run "
        "(all sizes) AND by tie T at small sizes: gen/Gen_voigt.v is regenerated from the real voigt_averages on every run (translator/specs_tensors_glue.py: real Mineral / StiffnessTensors objects "
        "with symbolic contents, PhaseOrd = symbolic MineralPhase ordinal forking on its members, the real StiffnessTensors.__iter__, tensor kernels as calls of Gen_tensors; emit_coq plain_let_calls) "
        "and Inst_voigt*.v equate its 26 configurations with the model",
        "the per-grain kernels are the generated Gen_tensors.k_voigt_to_elastic_tensor / k_elastic_tensor_to_voigt and rotate4, tied to the generated k_rotate by Inst_tensors.rotate4_is_k_rotate",
        "StiffnessTensors.__iter__ yields (olivine, enstatite) = phase-ordinal order (the harness passes the tensors in that order; checked by the differential run with distinct custom tensors)",
    ]
    chk.cov["rule"] = ("synthetic minerals built directly from arrays: assemblages (ol), (en), (ol,en), (en,ol); mineral list in random order, a phase listed twice in 25% of cases; "
                       "1-4 snapshots, 1-30 grains (+300-grain textures), Haar orientations, Dirichlet volumes (alpha 0.3/1/10), phase fractions on the simplex, "
                       "built-in or random SPD stiffness pairs; error stream: unequal n_grains, unequal orientation / fraction snapshot counts, phase missing from the assemblage, "
                       "too few phase fractions; implementation vs extracted model at 1e-9 and same exception class; non-trivial = the call returns a result; "
                       "STATEFUL stream: StiffnessTensors instances living across calls -- one instance reused over [average, modify olivine and/or enstatite "
                       "(attribute assignment / in-place overwrite / in-place scaling), average, ...], a default instance customised before first use, a subclass "
                       "with overridden defaults (and a second instance of it), two instances with identical constants of which one is modified, the default "
                       "elastic_tensors argument; every call vs the model evaluated on the constants the instance holds at that call; "
                       "PRESENTATION stream: the same numbers with another dtype / layout / container -- stiffness attributes int64 / int32 / float32 / Fortran / strided / reversed / read-only "
                       "(generic orientations), orientations int (signed permutations) / float32 / Fortran / strided / reversed / read-only / nested list, fractions int / float32 / strided / "
                       "reversed / read-only / list, phase_fractions tuple / ndarray / np.float32 / int, minerals and assemblage as tuples, everything at once: same value as the model on the "
                       "same numbers or a loud refusal (every such call is also guarded: no array reachable from the arguments is modified); "
                       "ORDINAL REPRESENTATIONS (part of the presentation stream; coverage.ordinal_representation_histogram): the same phase held as another object -- Mineral.phase as "
                       "plain int / np.uint8 / int8 / int32 / int64 / uint64 / intp, as left by Mineral.save + Mineral.from_file / Mineral.load (with and without postfix: np.uint8), "
                       "by pickle / deepcopy (the member), one restored mineral among fresh ones, alternating representations; the assemblage's entries as plain int / np.uint8 / np.int64; both; "
                       "assemblages from a fixed cycle (all four) + every representation once more on a two-phase aggregate; what the package restores itself may not be refused; "
                       "MAGNITUDE stream: stiffness constants in units of 2^k (k = -60 .. 60) and with one coupling constant of 3e-11 / 2^-40 / 1e-15 / 1e12, "
                       "tolerance relative to the size of the constants (no absolute floor)")
    bad = []
    if br.drivers.get(G.GROUP, 1) is None:
        cases = gen_cases(chk, chk.tier)
        bad = compare(chk, cases)
        bad += compare_seqs(chk, gen_seqs(chk, chk.tier))
        bad += compare_pres(chk, gen_pres_cases(chk, chk.tier))
        bad += compare_mag(chk, gen_mag_cases(chk, chk.tier))
        chk.cov["traces_validated_against_impl"] = len(cases) + chk.cov.get("stateful_calls", 0)
    chk.cov["disagreements"] = len(bad)
    if ok and not bad:
        return
    found = search(chk, extra=[c for c, _ in bad[:20]])
    if found:
        for c, fails in found:
            chk.replay({"kind": "property-violation", "call": "pydrex.minerals.voigt_averages", "input": encode_any(c),
                        "observed": fails, "required": "C10 (see properties.jsonl)",
                        "broken": chk.cov.get("broken_obligations", []), "disagreements": [m for _, m in bad[:3]]})
    else:
        chk.replay({"kind": "unproved", "broken": chk.cov.get("broken_obligations", []),
                    "disagreements": [{"input": encode_any(c), "detail": m} for c, m in bad[:3]],
                    "note": "proof obligation or correspondence no longer checks; no failing input found by the search"},
                   no_input=True)


def replay(d):
    common.use_repo_source()
    if d.get("kind") != "property-violation":
        print("replay file names a broken obligation; re-run the check itself")
        return 1
    c = decode_any(d["input"])
    fails = fails_of(c)
    for f in fails:
        print("still fails:", f)
    return 1 if fails else 0
