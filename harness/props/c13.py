"""C13 -- eigenvalue-based texture and strain diagnostics are objective.

Proofs: coq/Properties/C13.v (Model_diag.v / Proofs_diag.v).  Correspondence: the public
functions symmetry_pgr, bingham_average, coaxial_index, finite_strain,
angle_fse_simpleshear against the extracted model, which is fed the RECORDED outputs of the
LAPACK oracle (scipy.linalg.eigh / eigvalsh are wrapped from outside, in this process);
the oracle hypothesis eig_spec is residual-checked on every recorded call, and the matrix
handed to LAPACK is compared with the model's scatter / left Cauchy-Green matrix.

Call sequences (Model_diag_session.v): the diagnostics are pure functions of the CONTENTS of
their argument.  Sessions execute histories of calls on live ndarray objects that are modified
in place between the calls (refill, in-place frame rotation / permutation / row sign flips,
copies between objects, calls through views, float32 / strided / Fortran-ordered objects,
results scribbled on by the caller); every call is compared with the model evaluated on the
CURRENT contents, with the same call on a fresh copy, and the matrices handed to LAPACK over
the whole history with the extracted session model.  Any dependence on the call history or on
the identity of the object is a disagreement; its replay lists the call sequence."""
from __future__ import annotations

import itertools
import math
import re

import numpy as np

import common
import proofs
from common import hx

FILES = ["Model_diag.v", "Proofs_diag.v", "gen/Gen_diag.v", "Proofs_diag_inst.v", "Proofs_diag_more.v", "Proofs_diag_angle.v", "Model_diag_session.v", "Proofs_diag_session.v", "Model_diag_fse_session.v", "Proofs_diag_fse_session.v",
         "Entry_diag.v", "Extract_diag.v"]
PROP = "Properties/C13.v"
GROUP = "diag"
AXES = "abc"
RTOL = 1e-10
SPEC_TOL = 1e-10


# --------------------------------------------------------------------------
# oracle recorder
# --------------------------------------------------------------------------
class Recorder:
    """Wraps scipy.linalg.eigh / eigvalsh (module attributes looked up by pydrex at call
    time).  Nothing in /repo is touched."""

    def __init__(self):
        import scipy.linalg as la
        self.la = la
        self.calls = []
        self._eigh, self._eigvalsh = la.eigh, la.eigvalsh

    def __enter__(self):
        rec = self

        def eigh(a, *args, **kw):
            out = rec._eigh(a, *args, **kw)
            rec.calls.append(("eigh", np.array(a, dtype=float, copy=True), args, dict(kw),
                              (np.array(out[0], copy=True), np.array(out[1], copy=True))))
            return out

        def eigvalsh(a, *args, **kw):
            out = rec._eigvalsh(a, *args, **kw)
            rec.calls.append(("eigvalsh", np.array(a, dtype=float, copy=True), args, dict(kw),
                              np.array(out, copy=True)))
            return out

        self.la.eigh, self.la.eigvalsh = eigh, eigvalsh
        return self

    def __exit__(self, *a):
        self.la.eigh, self.la.eigvalsh = self._eigh, self._eigvalsh

    def take(self):
        c, self.calls = self.calls, []
        return c


def lower6(S):
    return [float(S[0, 0]), float(S[1, 0]), float(S[1, 1]), float(S[2, 0]), float(S[2, 1]), float(S[2, 2])]


def sym_from_lower(S):
    L = np.tril(S)
    return L + L.T - np.diag(np.diag(S))


def spec_residuals(call, SPEC_TOL=SPEC_TOL):
    """eig_spec / vals_spec residuals of one recorded LAPACK call; list of failures.  (float32 input means the
    single-precision LAPACK routine: the caller passes a tolerance at that precision.)"""
    name, A, args, kw, out = call
    fails = []
    if args or any(k not in ("driver",) for k in kw):
        fails.append(f"{name} called with unexpected arguments {args} {kw} (model assumes lower=True, full spectrum)")
    if A.shape != (3, 3):
        return fails + [f"{name} called on shape {A.shape}"]
    S = sym_from_lower(A)
    lam = out if name == "eigvalsh" else out[0]
    if not np.all(np.isfinite(S)):
        return fails  # nothing to check on a non-finite matrix
    nrm = max(np.abs(S).max(), 1e-300)
    if not (lam[0] <= lam[1] <= lam[2]):
        fails.append(f"{name}: eigenvalues not ascending {lam}")
    tr = np.trace(S)
    e2 = (S[0, 0] * S[1, 1] - S[1, 0] ** 2) + (S[0, 0] * S[2, 2] - S[2, 0] ** 2) + (S[1, 1] * S[2, 2] - S[2, 1] ** 2)
    det = np.linalg.det(S)
    l1, l2, l3 = (float(x) for x in lam)
    if abs(tr - (l1 + l2 + l3)) > SPEC_TOL * nrm:
        fails.append(f"{name}: trace residual {abs(tr - (l1 + l2 + l3)):.3e}")
    if abs(e2 - (l1 * l2 + l1 * l3 + l2 * l3)) > SPEC_TOL * nrm ** 2:
        fails.append(f"{name}: second invariant residual {abs(e2 - (l1 * l2 + l1 * l3 + l2 * l3)):.3e}")
    if abs(det - l1 * l2 * l3) > SPEC_TOL * nrm ** 3:
        fails.append(f"{name}: determinant residual {abs(det - l1 * l2 * l3):.3e}")
    if name == "eigh":
        V = out[1]
        r = np.abs(S @ V - V * lam[None, :]).max()
        if r > SPEC_TOL * nrm:
            fails.append(f"eigh: |S v - lambda v| = {r:.3e}")
        g = np.abs(V.T @ V - np.eye(3)).max()
        if g > SPEC_TOL:
            fails.append(f"eigh: eigenvectors not orthonormal ({g:.3e})")
    return fails


# --------------------------------------------------------------------------
# generators
# --------------------------------------------------------------------------
def haar(rng, n=None):
    from scipy.spatial.transform import Rotation
    m = Rotation.random(1 if n is None else n, random_state=rng).as_matrix()
    return m[0] if n is None else m


def aligned_bases():
    """the 24 proper signed permutation matrices: every crystal axis (row) along +-x, +-y or +-z"""
    ms = []
    for perm in itertools.permutations(range(3)):
        for sg in itertools.product((1.0, -1.0), repeat=3):
            m = np.zeros((3, 3))
            for i, (p, g) in enumerate(zip(perm, sg)):
                m[i, p] = g
            if np.linalg.det(m) > 0:
                ms.append(m)
    return ms


def texture(rng, kind, n):
    from scipy.spatial.transform import Rotation
    if kind == "random":
        return haar(rng, n)
    if kind == "single":
        return np.repeat(haar(rng)[None], n, axis=0)
    if kind == "clustered":
        base = Rotation.from_matrix(haar(rng))
        noise = Rotation.from_rotvec(rng.normal(0, 0.15, (n, 3)))
        return (noise * base).as_matrix()
    if kind == "girdled":
        base = Rotation.from_matrix(haar(rng))
        spin = Rotation.from_rotvec(np.c_[np.zeros(n), np.zeros(n), rng.uniform(0, 2 * np.pi, n)])
        noise = Rotation.from_rotvec(rng.normal(0, 0.05, (n, 3)))
        return (noise * spin * base).as_matrix()
    if kind == "aligned":     # grains exactly aligned with the reference axes (signed axis permutations)
        ms = aligned_bases()
        base = ms[int(rng.integers(len(ms)))]
        return np.repeat(base[None], n, axis=0)
    if kind == "girdle_exact":  # a-axes exactly along x and y alternately: (P, G, R) = (0, 1, 0) for a and b, (1, 0, 0) for c
        e = np.eye(3)
        rz = np.array([[0.0, 1.0, 0.0], [-1.0, 0.0, 0.0], [0.0, 0.0, 1.0]])
        return np.stack([e if i % 2 == 0 else rz for i in range(n)])
    if kind == "isotropic3":  # scatter matrix exactly the identity: excluded from coaxial_index
        e = np.eye(3)
        return np.stack([e, e[[1, 2, 0]], e[[2, 0, 1]]])
    raise ValueError(kind)


FLIPS = np.array([np.diag(d) for d in ([1, 1, 1], [1, -1, -1], [-1, 1, -1], [-1, -1, 1])], dtype=float)


def variants(rng, os):
    n = len(os)
    Q = haar(rng)
    yield "base", os, None
    yield "frame", os @ Q.T, Q
    yield "perm", os[rng.permutation(n)], None
    yield "twofold", FLIPS[rng.integers(0, 4, n)] @ os, None


def gen_textures(chk, tier):
    rng = np.random.default_rng(chk.seed)
    sizes = [1, 2, 3, 7, 20, 100, 1000, 10000] if tier == "quick" else [1, 2, 3, 5, 7, 20, 100, 500, 1000, 3000, 10000, 10000]
    reps = 1 if tier == "quick" else 4
    out = []
    k = 0
    for _ in range(reps):
        for kind in ("random", "clustered", "girdled", "single", "aligned", "girdle_exact"):
            for n in (sizes if kind not in ("aligned", "girdle_exact") else [1, 2, 3, 4, 5, 6] if kind == "aligned" else [2, 4]):
                out.append(dict(kind=kind, n=n, os=texture(rng, kind, n), axis=AXES[k % 3],
                                axis2=AXES[(k // 3 + k + 1) % 3], seed=int(rng.integers(1 << 30))))
                k += 1
    out.append(dict(kind="isotropic3", n=3, os=texture(rng, "isotropic3", 3), axis="a", axis2="b", seed=1))
    return out


F_KINDS = ("random", "near_singular", "shear", "stretch", "sym_spd", "sym_indefinite", "sym_negdef", "sym_detneg",
           "diagonal", "stretch_halfturn", "minus_identity", "rotation")


def exact_sym(U, lam):
    """U diag(lam) U^T made EXACTLY symmetric (bitwise S == S.T)"""
    S = U @ np.diag(np.asarray(lam, dtype=float)) @ U.T
    return (S + S.T) / 2


def halfturn(U, k):
    """half-turn about column k of the orthogonal U (exactly symmetric)"""
    d = -np.ones(3)
    d[k] = 1.0
    return exact_sym(U, d)


def gen_F(chk, tier):
    """deformation gradients with a partner rotation Q.  Besides generic F: EXACTLY symmetric F (positive definite,
    indefinite, negative definite, negative determinant), diagonal F with signs, a stretch combined with a half-turn
    about one of its principal axes (F = V.Q = Q.V is symmetric and indefinite; the partner Q is that half-turn, so
    F.Q and Q.F are the symmetric positive definite V), -I, pure rotations."""
    rng = np.random.default_rng(chk.seed + 7)
    n = 4 * len(F_KINDS) if tier == "quick" else 40 * len(F_KINDS)
    out = []
    for i in range(n):
        kind = F_KINDS[i % len(F_KINDS)]
        rep = i // len(F_KINDS)
        Q = haar(rng)
        U = haar(rng) if rep % 2 else np.eye(3)          # principal axes: generic / the coordinate axes
        s = np.sort(np.exp(rng.normal(0, 0.7, 3)))[::-1] * np.array([1.5, 1.0, 0.6])   # distinct stretches, s0 largest
        if kind == "random":
            F = rng.normal(0, 1, (3, 3))
        elif kind == "near_singular":
            V = haar(rng)
            F = haar(rng) @ np.diag([rng.uniform(0.5, 3), rng.uniform(1e-3, 0.5), 10.0 ** rng.uniform(-9, -3)]) @ V.T
        elif kind == "shear":
            F = np.eye(3)
            F[1, 0] = rng.uniform(0, 8)
        elif kind == "stretch":
            W = haar(rng)
            F = W @ np.diag(np.exp(rng.normal(0, 0.7, 3))) @ W.T
        elif kind == "sym_spd":
            F = exact_sym(U, s)
        elif kind == "sym_indefinite":      # det > 0, the eigenvalue of largest magnitude is negative
            F = exact_sym(U, [-s[0], -s[1], s[2]])
        elif kind == "sym_negdef":
            F = exact_sym(U, -s)
        elif kind == "sym_detneg":          # a mirror combined with a stretch
            F = exact_sym(U, [-s[0], s[1], s[2]] if rep % 4 < 2 else [s[0], s[1], -s[2]])
        elif kind == "diagonal":
            sg = np.array([(-1.0, -1.0, 1.0), (1.0, -1.0, -1.0), (-1.0, 1.0, -1.0), (1.0, 1.0, 1.0)][rep % 4])
            F = np.diag(np.array([2.0, 1.0, 0.5])[rng.permutation(3)] * sg)
            Q = np.diag(sg)                 # the half-turn that undoes the signs
        elif kind == "stretch_halfturn":    # F = V.Q with Q a half-turn about a principal axis other than the long one
            k = 1 + rep % 2
            Q = halfturn(U, k)
            d = -np.ones(3)
            d[k] = 1.0
            F = exact_sym(U, s * d)
        elif kind == "minus_identity":
            F = -np.eye(3) if rep % 2 == 0 else exact_sym(U, [-1.0, -1.0, -1.0])
        else:                               # rotation (incl. exact half-turns: symmetric, eigenvalues 1, -1, -1)
            F = halfturn(U, rep % 3) if rep % 2 == 0 else haar(rng)
        out.append(dict(kind=kind, F=F, Q=Q))
    return out


def gen_angles(chk, tier):
    """(vector, axis[, plane normal]) for diagnostics.smallest_angle (the COMPILED numba kernel is called)"""
    rng = np.random.default_rng(chk.seed + 17)
    e = np.eye(3)
    cases = []

    def add(kind, v, a, p=None):
        cases.append(dict(kind=kind, v=np.array(v, dtype=float), a=np.array(a, dtype=float),
                          p=None if p is None else np.array(p, dtype=float)))

    for i in range(3):
        for j in range(3):
            for sg in (1.0, -1.0):
                add("basis", e[i], sg * e[j])
                add("basis+plane", e[i] + e[(i + 1) % 3], sg * e[j], e[(i + 1) % 3])
    r2 = float(np.sqrt(2))
    add("doctest", [1, 0, 0], [r2, r2, 0]); add("doctest", [1, 0, 0], [-r2, r2, 0])
    add("zero-vector", [0, 0, 0], [1, 0, 0]); add("zero-axis", [1, 0, 0], [0, 0, 0]); add("zero-both", [0, 0, 0], [0, 0, 0])
    add("vector-along-normal", [0, 0, 2], [1, 0, 0], [0, 0, 1]); add("zero-axis+plane", [1, 2, 3], [0, 0, 0], [0, 0, 1])
    add("negative-zero", [-0.0, 0.0, -0.0], [1, 0, 0])

    def unit():
        x = rng.normal(0, 1, 3)
        return x / np.linalg.norm(x)

    for k in range(48 if tier == "quick" else 480):
        u, w = unit(), unit()
        kind = ("unit", "scaled", "near-parallel", "near-antiparallel", "near-orthogonal", "parallel-scaled", "plane", "plane-non-unit-normal")[k % 8]
        p = None
        if kind == "unit":
            v, a = u, w
        elif kind == "scaled":
            v, a = 3.7 * u, 0.01 * w
        elif kind == "near-parallel":
            v, a = u, u + 10.0 ** rng.uniform(-12, -4) * w
        elif kind == "near-antiparallel":
            v, a = u, -u + 10.0 ** rng.uniform(-12, -4) * w
        elif kind == "near-orthogonal":
            t = np.cross(u, w)
            v, a = u, t / np.linalg.norm(t) + 10.0 ** rng.uniform(-14, -6) * u
        elif kind == "parallel-scaled":      # |cos| can exceed 1 by rounding: the clip is active
            v, a = rng.uniform(0.1, 9) * u, (-1) ** k * rng.uniform(0.1, 9) * u
        elif kind == "plane":
            v, a, p = u * rng.uniform(0.5, 2), w, unit()
        else:
            v, a, p = u, w, unit() * rng.uniform(0.2, 3)
        add(kind, v, a, p)
        add(kind + ":axis-reversed", v, -a, p)
        if k % 3 == 0:
            add(kind + ":vector-reversed", -v, a, p)
    return cases


def angle_rtol(x, ulps=64):
    """relative tolerance (of max(1, x)) for an angle x in degrees obtained as arccos(c): c carries a few ulps of rounding
    (the compiled kernel uses fastmath, the model plain left-to-right arithmetic) and d arccos / dc = 1 / sin(theta), unbounded
    at theta = 0 where the error is sqrt(2 ulps eps) instead"""
    eps = ulps * 2.220446049250313e-16
    s = abs(math.sin(math.radians(x)))
    tol = math.degrees(min(math.sqrt(2 * eps), eps / max(s, 1e-300))) + 1e-10
    return tol / max(1.0, abs(x))


def angle_call(dg, c, style="positional"):
    f64 = lambda x: np.ascontiguousarray(x, dtype=np.float64)   # noqa: E731
    try:
        if style == "keyword":
            x = (dg.smallest_angle(vector=f64(c["v"]), axis=f64(c["a"])) if c["p"] is None
                 else dg.smallest_angle(f64(c["v"]), f64(c["a"]), plane=f64(c["p"])))
        else:
            x = dg.smallest_angle(f64(c["v"]), f64(c["a"])) if c["p"] is None else dg.smallest_angle(f64(c["v"]), f64(c["a"]), f64(c["p"]))
        return ("OK", float(x))
    except Exception as e:  # noqa: BLE001
        return ("ERR", common.exc_code(e))


def oracle_angle(dg, c, style="positional"):
    """smallest_angle read directly: in [0, 90]; the angle whose cosine is |w.a| / (|w||a|), w = the (projected) vector;
    ZeroDivisionError exactly when w or the axis is the zero vector; unchanged when the axis or the vector is reversed"""
    fails = []
    v, a, p = c["v"], c["a"], c["p"]
    w = v if p is None else v - p * np.dot(v, p)
    r = angle_call(dg, c, style)
    d = np.linalg.norm(w) * np.linalg.norm(a)
    if d == 0:
        return [] if r == ("ERR", "DivZero") else [f"zero (projected) vector or axis: expected ZeroDivisionError, got {r}"]
    if r[0] != "OK":
        return [f"raised {r[1]}"]
    x = r[1]
    if not (-1e-9 <= x <= 90 + 1e-9):
        fails.append(f"angle {x!r} outside [0, 90]")
    ref = float(np.rad2deg(np.arccos(min(1.0, abs(np.dot(w, a)) / d))))
    if abs(x - ref) > 1e-5:
        fails.append(f"angle {x!r} but arccos(|w.a| / (|w||a|)) = {ref!r} degrees")
    for what, c2 in (("axis", dict(c, a=-a)), ("vector", dict(c, v=-v))):
        r2 = angle_call(dg, c2, style)
        if r2[0] != "OK" or abs(r2[1] - x) > 1e-6:
            fails.append(f"angle changes when the {what} is reversed: {x!r} -> {r2[1]!r}")
    return fails


# --------------------------------------------------------------------------
# call sequences on live objects (Model_diag_session.v)
# --------------------------------------------------------------------------
SESSION_FAMILIES = ("refill", "inplace-frame", "inplace-perm", "inplace-flip", "repeat-interleave",
                    "two-objects", "views", "mixed", "float32", "strided", "fortran")
SESSION_KINDS = ("random", "clustered", "girdled", "single", "aligned")
FN_OF = {"pgr": "symmetry_pgr", "bingham": "bingham_average", "coaxial": "coaxial_index"}


def row_signs(rng, n, mode):
    """(n, 3) factors +-1 for the crystal axes (rows) of every grain"""
    if mode == "twofold":      # the two-fold rotations about a crystal axis flip the two others
        return np.array([np.diag(FLIPS[k]) for k in rng.integers(0, 4, n)], dtype=float).reshape(n, 3)
    if mode == "one-row":      # o[:, r, :] *= -1 for one crystal axis of every grain
        sg = np.ones((n, 3))
        sg[:, int(rng.integers(3))] = -1.0
        return sg
    return rng.choice([-1.0, 1.0], size=(n, 3))


def build_session(rng, family, n):
    """one call history; every array in it is float64, the executor converts"""
    nb = 2 if family in ("two-objects", "mixed") else 1
    kinds = [SESSION_KINDS[int(rng.integers(len(SESSION_KINDS)))] for _ in range(4)]
    tex = [texture(rng, k, n) for k in kinds]
    init = [tex[0]] + ([tex[0].copy() if family == "two-objects" else tex[1]] if nb == 2 else [])
    ax = AXES[int(rng.integers(3))]
    ax2 = AXES[(AXCODE[ax] + 1 + int(rng.integers(2))) % 3]
    steps = []

    def c(op, b=0, axis=ax, axis2=ax2, via="same", scribble=False):
        d = dict(op=op, b=b, axis=axis, via=via)
        if op == "coaxial":
            d["axis2"] = axis2
        if op == "bingham" and scribble:
            d["scribble"] = True
        steps.append(d)

    def trio(b=0, via="same"):
        c("pgr", b, via=via); c("bingham", b, via=via, scribble=bool(rng.integers(2))); c("coaxial", b, via=via)

    def mut(kind, b=0):
        if kind == "fill":
            steps.append(dict(op="fill", b=b, os=texture(rng, SESSION_KINDS[int(rng.integers(len(SESSION_KINDS)))], n)))
        elif kind == "rotate":
            steps.append(dict(op="rotate", b=b, Q=haar(rng)))
        elif kind == "perm":
            steps.append(dict(op="perm", b=b, p=[int(x) for x in rng.permutation(n)]))
        elif kind == "flip":
            steps.append(dict(op="flip", b=b, s=row_signs(rng, n, ("twofold", "one-row", "any")[int(rng.integers(3))])))
        else:
            steps.append(dict(op="copy", b=b, src=1 - b))

    if family == "refill":
        for k in range(3):
            if k:
                steps.append(dict(op="fill", b=0, os=tex[k]))
            for a in AXES:
                c("pgr", axis=a)
            c("bingham"); c("coaxial")
    elif family == "inplace-frame":
        trio(); mut("rotate"); trio(); mut("rotate"); c("bingham"); c("pgr")
    elif family == "inplace-perm":
        trio(); mut("perm"); trio(); mut("perm"); c("bingham")
    elif family == "inplace-flip":
        trio()
        for mode in ("twofold", "one-row"):
            steps.append(dict(op="flip", b=0, s=row_signs(rng, n, mode)))
            trio()
    elif family == "repeat-interleave":
        c("pgr"); c("pgr"); c("bingham", scribble=True); c("pgr", axis=ax2); c("coaxial"); c("bingham")
        c("pgr", axis=AXES[3 - AXCODE[ax] - AXCODE[ax2]]); c("coaxial", axis=ax2, axis2=ax); c("bingham", axis=ax2); c("pgr")
    elif family == "two-objects":
        c("pgr", 0); c("pgr", 1); c("bingham", 1); mut("fill", 1); c("pgr", 0); c("pgr", 1); c("bingham", 1)
        c("coaxial", 1); c("coaxial", 0); steps.append(dict(op="copy", b=0, src=1)); trio(0); mut("rotate", 1); trio(1); c("pgr", 0)
    elif family == "views":
        for via in ("same", "view", "rview", "copy"):
            c("pgr", via=via)
        c("bingham", via="list"); c("bingham", via="rview"); c("coaxial", via="view")
        mut("fill")
        for via in ("rview", "view", "same", "copy"):
            c("pgr", via=via)
        c("bingham", via="view"); c("bingham", via="list"); mut("rotate"); c("bingham", via="rview"); c("coaxial", via="rview")
    elif family == "big":
        c("pgr"); c("bingham"); mut("fill"); c("pgr"); c("bingham"); mut("rotate"); c("bingham"); c("coaxial")
    else:  # mixed, float32, strided, fortran: a random walk over all operations
        trio()
        for _ in range(6):
            b = int(rng.integers(nb))
            mut(("fill", "rotate", "perm", "flip", "copy" if nb == 2 else "fill")[int(rng.integers(5))], b)
            which = int(rng.integers(4))
            if which == 3:
                trio(b)
            else:
                c(("pgr", "bingham", "coaxial")[which], b, scribble=True)
    return dict(family=family, n=n, nb=nb, init=init, steps=steps,
                dtype="float32" if family == "float32" else "float64",
                layout={"strided": "strided", "fortran": "fortran"}.get(family, "C"))


def gen_sessions(chk, tier):
    rng = np.random.default_rng(chk.seed + 23)
    sizes = [1, 2, 3, 7, 20, 100] if tier == "quick" else [1, 2, 3, 5, 7, 20, 50, 100, 200]
    out = []
    for _ in range(1 if tier == "quick" else 4):
        for fam in SESSION_FAMILIES:
            for n in sizes:
                out.append(build_session(rng, fam, n))
    for fam, n in (("refill", 1000), ("big", 10000)) + (() if tier == "quick" else (("mixed", 3000), ("float32", 3000), ("big", 10000))):
        out.append(build_session(rng, fam, n))
    return out


def describe_step(st):
    b = f"buf{st['b']}"
    if st["op"] in FN_OF:
        arg = {"same": b, "view": b + "[:]", "rview": f"rev_{b} (= {b}[::-1], created at the start)", "copy": b + ".copy()",
               "list": b + ".tolist()"}[st.get("via", "same")]
        ax = f"axis1={st['axis']!r}, axis2={st['axis2']!r}" if st["op"] == "coaxial" else f"axis={st['axis']!r}"
        return f"{FN_OF[st['op']]}({arg}, {ax})" + ("; result[...] = 7.0" if st.get("scribble") else "")
    return {"fill": f"{b}[...] = <another texture>", "rotate": f"np.matmul({b}, Q.T, out={b})", "perm": f"{b}[...] = {b}[p]",
            "flip": f"{b} *= signs[:, :, None]", "copy": f"{b}[...] = buf{st.get('src')}"}[st["op"]]


def make_buffers(sess):
    dt = np.float32 if sess["dtype"] == "float32" else np.float64
    bufs = []
    for a in sess["init"]:
        a = np.asarray(a, dtype=float)
        if sess["layout"] == "strided":
            big = np.zeros((2 * len(a) + 1, 3, 3), dtype=dt)
            buf = big[1::2]
            buf[...] = a
        elif sess["layout"] == "fortran":
            buf = np.asfortranarray(a.astype(dt))
        else:
            buf = np.array(a, dtype=dt)
        bufs.append(buf)
    return bufs


def exec_session(dg, sess, rec=None):
    """runs the history in this process on the same ndarray objects; one event per call"""
    bufs = make_buffers(sess)
    rviews = [b[::-1] for b in bufs]
    fns = {"pgr": dg.symmetry_pgr, "bingham": dg.bingham_average, "coaxial": dg.coaxial_index}
    events = []
    kept = []

    def run1(f, *a, **kw):
        if rec is not None:
            return call(rec, f, *a, **kw)
        try:
            return ("OK", f(*a, **kw), [])
        except Exception as e:  # noqa: BLE001
            return ("ERR", common.exc_code(e), [])

    for i, st in enumerate(sess["steps"]):
        buf = bufs[st["b"]]
        op = st["op"]
        if op == "fill":
            buf[...] = st["os"]
        elif op == "rotate":
            np.matmul(buf, np.asarray(st["Q"]).T.astype(buf.dtype), out=buf)
        elif op == "perm":
            buf[...] = buf[np.asarray(st["p"], dtype=int)]
        elif op == "flip":
            buf *= np.asarray(st["s"]).astype(buf.dtype)[:, :, None]
        elif op == "copy":
            buf[...] = bufs[st["src"]]
        else:
            via = st.get("via", "same")
            arg = {"same": lambda: buf, "view": lambda: buf[:], "rview": lambda: rviews[st["b"]],
                   "copy": lambda: buf.copy(), "list": lambda: buf.tolist()}[via]()
            contents = np.array(arg, dtype=float)
            kw = dict(axis1=st["axis"], axis2=st["axis2"]) if op == "coaxial" else dict(axis=st["axis"])
            r = run1(fns[op], arg, **kw)
            res = (r[0], np.array(r[1], dtype=float, copy=True) if r[0] == "OK" else r[1])
            if st.get("scribble") and r[0] == "OK" and isinstance(r[1], np.ndarray):
                try:
                    r[1][...] = 7.0     # the caller owns the result
                except ValueError:
                    pass
            elif r[0] == "OK" and isinstance(r[1], np.ndarray):
                kept.append((i, r[1], np.array(r[1], copy=True)))    # must still hold these values at the end of the history
            modified = not np.array_equal(np.array(arg, dtype=float), contents, equal_nan=True)
            fresh_arg = np.array(np.asarray(arg), copy=True)
            f = run1(fns[op], fresh_arg, **kw)
            fresh = (f[0], np.array(f[1], dtype=float, copy=True) if f[0] == "OK" else f[1])
            events.append(dict(step=i, op=op, b=st["b"], axis=st["axis"], axis2=st.get("axis2"), via=via,
                               contents=contents, res=res, calls=r[2], fresh=fresh, fresh_calls=f[2], modified=modified))
    for i, obj, snap in kept:     # a result handed out earlier is the caller's: later calls / updates must not change it
        if not np.array_equal(obj, snap, equal_nan=True):
            for e in events:
                if e["step"] == i:
                    e["result_changed_later"] = (snap.tolist(), np.array(obj).tolist())
    return events


def session_line(sess, memo=0):
    """the history for the extracted session model; calls through the reversed view are left out"""
    n = sess["n"]
    codes, fl = [], []
    for a in sess["init"]:
        fl += flat(a)
    for st in sess["steps"]:
        op, b = st["op"], st["b"]
        if op == "fill":
            codes += [0, b]; fl += flat(st["os"])
        elif op == "rotate":
            codes += [1, b]; fl += flat(st["Q"])
        elif op == "perm":
            codes += [2, b] + list(st["p"])
        elif op == "flip":
            codes += [3, b]; fl += flat(st["s"])
        elif op == "copy":
            codes += [4, b, st["src"]]
        elif st.get("via") == "rview":
            continue
        elif op == "coaxial":
            codes += [7, b, AXCODE[st["axis"]], AXCODE[st["axis2"]]]
        else:
            codes += [5 if op == "pgr" else 6, b, AXCODE[st["axis"]]]
    return common.model_line("session", [memo, n, sess["nb"]] + codes, fl)


def sess_to_json(sess):
    def enc(st):
        d = dict(st)
        for k in ("os", "Q", "s"):
            if k in d:
                d[k] = [hx(x) for x in np.asarray(d[k], dtype=float).reshape(-1)]
        return d
    return dict(call="session", family=sess["family"], n_grains=sess["n"], n_objects=sess["nb"], dtype=sess["dtype"],
                layout=sess["layout"], call_sequence=[f"{i}: {describe_step(st)}" for i, st in enumerate(sess["steps"])],
                init=[[hx(x) for x in np.asarray(a, dtype=float).reshape(-1)] for a in sess["init"]],
                steps=[enc(st) for st in sess["steps"]])


def sess_from_json(i):
    u = common.unhx
    n = i["n_grains"]

    def dec(st):
        d = dict(st)
        if "os" in d:
            d["os"] = np.array([u(x) for x in d["os"]]).reshape(n, 3, 3)
        if "Q" in d:
            d["Q"] = np.array([u(x) for x in d["Q"]]).reshape(3, 3)
        if "s" in d:
            d["s"] = np.array([u(x) for x in d["s"]]).reshape(n, 3)
        return d
    return dict(family=i.get("family", "replay"), n=n, nb=i["n_objects"], dtype=i["dtype"], layout=i["layout"],
                init=[np.array([u(x) for x in a]).reshape(n, 3, 3) for a in i["init"]], steps=[dec(st) for st in i["steps"]])


# --------------------------------------------------------------------------
# finite_strain call sequences on live deformation-gradient objects (Model_diag_fse_session.v)
# --------------------------------------------------------------------------
FSE_FAMILIES = ("update-chain", "rotations-only", "symmetric-halfturn", "two-objects", "views", "random-walk",
                "float32", "fortran", "strided")
FSE_CODE = {"set": 0, "right": 1, "left": 2, "scale": 3, "transp": 4, "copy": 5, "strain": 6}


def build_fse_session(rng, family, k):
    cases = gen_F_list(rng)
    c0 = cases[k % len(cases)]
    nb = 2 if family == "two-objects" else 1
    init = [c0["F"]] + ([cases[(k + 5) % len(cases)]["F"]] if nb == 2 else [])
    steps = []

    def call(b=0, via="same", scribble=None):
        steps.append(dict(op="strain", b=b, via=via, scribble=bool(len(steps) % 2) if scribble is None else scribble))

    def upd(kind, b=0, **kw):
        if kind in ("right", "left"):
            steps.append(dict(op=kind, b=b, Q=kw.get("Q", haar(rng))))
        elif kind == "scale":
            steps.append(dict(op="scale", b=b, c=float(kw.get("c", rng.uniform(0.3, 3)))))
        elif kind == "set":
            steps.append(dict(op="set", b=b, G=kw.get("G", cases[int(rng.integers(len(cases)))]["F"])))
        elif kind == "transp":
            steps.append(dict(op="transp", b=b))
        else:
            steps.append(dict(op="copy", b=b, src=1 - b))

    if family == "update-chain":
        call(); call(); upd("right"); call(); upd("left"); call(); upd("scale"); call(); upd("transp"); call(); upd("set"); call(); call()
    elif family == "rotations-only":
        call()
        for _ in range(4):
            upd("right"); call(); upd("left"); call()
    elif family == "symmetric-halfturn":      # an exactly symmetric stretch, its half-turn partner applied in place on either side
        U = haar(rng) if k % 2 else np.eye(3)
        st = np.sort(np.exp(rng.normal(0, 0.7, 3)))[::-1] * np.array([1.5, 1.0, 0.6])
        init = [exact_sym(U, st)]
        Q = halfturn(U, 1 + k % 2)
        call(); upd("right", Q=Q); call(); upd("left", Q=Q); call(); upd("scale", c=-1.0); call(); upd("left", Q=Q); call()
        upd("set", G=-np.eye(3)); call(); upd("set", G=exact_sym(U, -st)); call()
    elif family == "two-objects":
        call(0); call(1); upd("set", 1); call(0); call(1); upd("copy", 0); call(0); upd("right", 1); call(1); call(0); upd("copy", 1); call(1)
    elif family == "views":
        for via in ("same", "view", "copy", "ttview"):
            call(via=via)
        upd("set")
        for via in ("ttview", "view", "same", "copy"):
            call(via=via)
        upd("left"); call(via="view"); upd("transp"); call(via="ttview")
    else:   # random-walk, float32, fortran, strided
        call()
        for _ in range(7):
            upd(("right", "left", "scale", "transp", "set")[int(rng.integers(5))]); call()
    return dict(family=family, nb=nb, init=[np.array(a, dtype=float) for a in init], steps=steps,
                dtype="float32" if family == "float32" else "float64",
                layout={"fortran": "fortran", "strided": "strided"}.get(family, "C"))


def gen_F_list(rng):
    class _C:      # gen_F wants a check object only for its seed
        seed = int(rng.integers(1 << 30))
    return gen_F(_C, "quick")


def gen_fse_sessions(chk, tier):
    rng = np.random.default_rng(chk.seed + 31)
    out = []
    for rep in range(2 if tier == "quick" else 12):
        for i, fam in enumerate(FSE_FAMILIES):
            out.append(build_fse_session(rng, fam, rep * len(FSE_FAMILIES) + i))
    return out


def describe_fstep(st):
    b = f"F{st['b']}"
    if st["op"] == "strain":
        arg = {"same": b, "view": b + "[:]", "copy": b + ".copy()", "ttview": b + ".T.T"}[st.get("via", "same")]
        return f"finite_strain({arg})" + ("; axis[...] = 7.0" if st.get("scribble") else "")
    return {"set": f"{b}[...] = G", "right": f"{b}[...] = {b} @ Q", "left": f"{b}[...] = Q @ {b}", "scale": f"{b} *= {st.get('c')!r}",
            "transp": f"{b}[...] = {b}.T.copy()", "copy": f"{b}[...] = F{st.get('src')}"}[st["op"]]


def make_fobjs(sess):
    dt = np.float32 if sess["dtype"] == "float32" else np.float64
    objs = []
    for a in sess["init"]:
        if sess["layout"] == "strided":
            big = np.zeros((7, 7), dtype=dt)
            o = big[1::2, 0:6:2]
            o[...] = a
        elif sess["layout"] == "fortran":
            o = np.asfortranarray(a.astype(dt))
        else:
            o = np.array(a, dtype=dt)
        objs.append(o)
    return objs


def exec_fse_session(dg, sess, rec=None):
    objs = make_fobjs(sess)
    events = []
    kept = []

    def run1(f, *a):
        if rec is not None:
            return call(rec, f, *a)
        try:
            return ("OK", f(*a), [])
        except Exception as e:  # noqa: BLE001
            return ("ERR", common.exc_code(e), [])

    for i, st in enumerate(sess["steps"]):
        o = objs[st["b"]]
        op = st["op"]
        if op == "set":
            o[...] = st["G"]
        elif op == "right":
            o[...] = o @ np.asarray(st["Q"]).astype(o.dtype)
        elif op == "left":
            o[...] = np.asarray(st["Q"]).astype(o.dtype) @ o
        elif op == "scale":
            o *= o.dtype.type(st["c"])
        elif op == "transp":
            o[...] = o.T.copy()
        elif op == "copy":
            o[...] = objs[st["src"]]
        else:
            via = st.get("via", "same")
            arg = {"same": lambda: o, "view": lambda: o[:], "copy": lambda: o.copy(), "ttview": lambda: o.T.T}[via]()
            contents = np.array(arg, dtype=float)
            r = run1(dg.finite_strain, arg)
            res = (r[0], (float(r[1][0]), np.array(r[1][1], dtype=float, copy=True)) if r[0] == "OK" else r[1])
            if st.get("scribble") and r[0] == "OK":
                try:
                    r[1][1][...] = 7.0
                except ValueError:
                    pass
            elif r[0] == "OK":
                kept.append((i, r[1][1], np.array(r[1][1], copy=True)))
            modified = not np.array_equal(np.array(arg, dtype=float), contents, equal_nan=True)
            f = run1(dg.finite_strain, np.array(np.asarray(arg), copy=True))
            fresh = (f[0], (float(f[1][0]), np.array(f[1][1], dtype=float, copy=True)) if f[0] == "OK" else f[1])
            events.append(dict(step=i, b=st["b"], via=via, contents=contents, res=res, calls=r[2], fresh=fresh, fresh_calls=f[2], modified=modified))
    for i, obj, snap in kept:
        if not np.array_equal(obj, snap, equal_nan=True):
            for e in events:
                if e["step"] == i:
                    e["result_changed_later"] = (snap.tolist(), np.array(obj).tolist())
    return events


def fse_session_line(sess, memo=0):
    codes, fl = [], []
    for a in sess["init"]:
        fl += flat(a)
    for st in sess["steps"]:
        op, b = st["op"], st["b"]
        codes += [FSE_CODE[op], b]
        if op == "set":
            fl += flat(st["G"])
        elif op in ("right", "left"):
            fl += flat(st["Q"])
        elif op == "scale":
            fl += [float(st["c"])]
        elif op == "copy":
            codes += [st["src"]]
    return common.model_line("fse_session", [memo, sess["nb"]] + codes, fl)


def fsess_to_json(sess):
    def enc(st):
        d = dict(st)
        for k in ("G", "Q"):
            if k in d:
                d[k] = [hx(x) for x in np.asarray(d[k], dtype=float).reshape(-1)]
        if "c" in d:
            d["c"] = hx(d["c"])
        return d
    return dict(call="fse_session", family=sess["family"], n_objects=sess["nb"], dtype=sess["dtype"], layout=sess["layout"],
                call_sequence=[f"{i}: {describe_fstep(st)}" for i, st in enumerate(sess["steps"])],
                init=[[hx(x) for x in a.reshape(-1)] for a in sess["init"]], steps=[enc(st) for st in sess["steps"]])


def fsess_from_json(i):
    u = common.unhx

    def dec(st):
        d = dict(st)
        for k in ("G", "Q"):
            if k in d:
                d[k] = np.array([u(x) for x in d[k]]).reshape(3, 3)
        if "c" in d:
            d["c"] = u(d["c"])
        return d
    return dict(family=i.get("family", "replay"), nb=i["n_objects"], dtype=i["dtype"], layout=i["layout"],
                init=[np.array([u(x) for x in a]).reshape(3, 3) for a in i["init"]], steps=[dec(st) for st in i["steps"]])


def oracle_fse_session(dg, sess):
    """the property read on a finite_strain call sequence: every call returns (largest principal stretch - 1, long axis) of the
    CURRENT contents, the same as for a fresh copy, and modifies nothing; along the history of one object the value is unchanged by
    in-place rotations on either side and by transposition, scales with `F *= c`, and the axis stays (F @ Q) / co-rotates (Q @ F)."""
    fails, first = [], None
    tol = 1e-4 if sess["dtype"] == "float32" else 1e-8
    with np.errstate(all="ignore"):
        events = {e["step"]: e for e in exec_fse_session(dg, sess)}
    track = [None] * sess["nb"]      # per object: (value, axis, gap) expected from the previous call, transported through the updates
    for i, st in enumerate(sess["steps"]):
        b, op = st["b"], st["op"]
        if op in ("set", "copy"):
            track[b] = None
        elif op == "right":
            pass
        elif op == "left" and track[b] is not None:
            v, ax, gap = track[b]
            track[b] = (v, None if ax is None else np.asarray(st["Q"]) @ ax, gap)
        elif op == "scale" and track[b] is not None:
            v, ax, gap = track[b]
            track[b] = ((v + 1) * abs(st["c"]) - 1, ax, gap)
        elif op == "transp" and track[b] is not None:
            track[b] = (track[b][0], None, track[b][2])
        if op != "strain":
            continue
        e = events[i]
        where = f"step {i} [{describe_fstep(st)}]"
        mine = []
        if e["res"][0] != "OK":
            mine.append(f"{where}: raised {e['res'][1]}")
        else:
            val, axv = e["res"][1]
            U, sv, _ = np.linalg.svd(e["contents"])
            t = tol * max(1.0, sv[0])
            gap = (sv[0] ** 2 - sv[1] ** 2) / max(sv[0] ** 2, 1e-300)
            if abs(val - (sv[0] - 1)) > t:
                mine.append(f"{where}: value {val!r} is not the largest principal stretch of the current contents minus one ({sv[0] - 1!r})")
            if gap > 1e-4 and not same_axis(axv, U[:, 0], 100 * tol / gap):
                mine.append(f"{where}: axis {axv.tolist()} is not the long axis of the strain ellipsoid of the current contents")
            f = e["fresh"]
            if f[0] != "OK":
                mine.append(f"{where}: the same call on a fresh copy raised {f[1]}")
            elif abs(f[1][0] - val) > t or (gap > 1e-4 and not same_axis(axv, f[1][1], 100 * tol / gap)):
                mine.append(f"{where}: ({val!r}, {axv.tolist()}) for the live object, ({f[1][0]!r}, {f[1][1].tolist()}) for a fresh copy of its contents")
            if e["modified"]:
                mine.append(f"{where}: the call modified its argument")
            if e.get("result_changed_later"):
                mine.append(f"{where}: the returned axis was changed by a later call / update: {e['result_changed_later']}")
            if track[b] is not None:
                v0, ax0, gap0 = track[b]
                if abs(val - v0) > 10 * t * max(1.0, abs(v0)):
                    mine.append(f"{where}: value {val!r}, but the in-place updates since the previous call on this object imply {v0!r}")
                if ax0 is not None and min(gap, gap0) > 1e-4 and not same_axis(axv, ax0, 1000 * tol / min(gap, gap0)):
                    mine.append(f"{where}: axis {axv.tolist()} does not follow the in-place rotations since the previous call (expected +-{ax0.tolist()})")
            track[b] = (val, axv, gap)
        if mine and first is None:
            first = i
        fails += mine
    return fails, first


def minimise_fse_session(dg, sess, first):
    cur = dict(sess, steps=list(sess["steps"][:first + 1]))
    if not oracle_fse_session(dg, cur)[0]:
        cur = dict(sess, steps=list(sess["steps"]))
    k = len(cur["steps"]) - 1
    while k >= 0:
        cand = dict(cur, steps=cur["steps"][:k] + cur["steps"][k + 1:])
        if oracle_fse_session(dg, cand)[0]:
            cur = cand
        k -= 1
    return cur


# --------------------------------------------------------------------------
# implementation calls (recorded)
# --------------------------------------------------------------------------
def call(rec, f, *a, **kw):
    rec.take()
    try:
        r = f(*a, **kw)
        return ("OK", r, rec.take())
    except Exception as e:  # noqa: BLE001
        return ("ERR", common.exc_code(e), rec.take())


def flat(os):
    return [float(x) for x in np.asarray(os, dtype=float).reshape(-1)]


AXCODE = {"a": 0, "b": 1, "c": 2}


GEN_TWIN = {"scatter": "gen_scatter", "pgr": "gen_pgr", "bingham": "gen_bingham", "coaxial": "gen_coaxial", "lcg": "gen_lcg",
            "fse": "gen_fse", "fse_angle": "gen_fse_angle", "smallest_angle": "gen_angle"}


class Run:
    """collects model lines + expectations, runs them in one batch.  Every case of 1, 2 or 3 grains (and every
    finite-strain / angle case) is ALSO run through the extracted GENERATED definitions (gen/Gen_diag.v, entries gen_*):
    the code regenerated from the source must reproduce the implementation on binary64 inputs too (NaN included)."""

    def __init__(self):
        self.lines, self.expect = [], []
        self.n_gen = 0

    def add(self, entry, ints, floats, expected, meta, rtol=RTOL, scale=1.0):
        self.lines.append(common.model_line(entry, ints, floats))
        self.expect.append((expected, meta, rtol, scale))
        twin = GEN_TWIN.get(entry)
        if twin and (not ints or 1 <= ints[-1] <= 3):
            exp2 = expected
            if entry == "scatter" and expected[0] == "OK":     # the generated function returns the full 3x3 array
                v = expected[1]
                exp2 = ("OK", [v[0], 0.0, 0.0, v[1], v[2], 0.0, v[3], v[4], v[5]])
            self.lines.append(common.model_line(twin, [0] if entry == "fse" else ints, floats))
            self.expect.append((exp2, dict(meta, generated_code=twin), rtol, scale))
            self.n_gen += 1

    def add_line(self, line, expected, meta, rtol=RTOL, scale=1.0):
        self.lines.append(line)
        self.expect.append((expected, meta, rtol, scale))

    def compare(self):
        bad = []
        if not self.lines:
            return bad
        res = common.run_model(self.lines, group=GROUP)
        for (exp, meta, rtol, scale), m in zip(self.expect, res):
            if exp[0] == "ERR" or m[0] == "ERR":
                if not (exp[0] == m[0] and exp[1] == m[1]):
                    bad.append((meta, f"implementation {exp[:2]} vs model {m[:2] if m[0] == 'ERR' else 'OK'}"))
                continue
            a = [float(x) / scale for x in exp[1]]
            b = [float(x) / scale for x in m[1]]
            ok, idx = common.vec_close(a, b, rtol=rtol)
            if not ok:
                bad.append((meta, f"component {idx}: implementation {[float(x) for x in exp[1]]!r} vs model {m[1]!r}"))
        return bad


def correspondence(chk, tier):
    import pydrex.diagnostics as dg
    import pydrex.utils as ut
    run = Run()
    bad = []
    hist = chk.cov.setdefault("histogram", {"kind": {}, "op": {}, "axis": {}, "n_grains": {}, "function": {}, "fse_kind": {}})
    spec_checked = 0

    def bump(k, v):
        hist[k][str(v)] = hist[k].get(str(v), 0) + 1

    def check_calls(calls, meta, expect_names, spec_tol=SPEC_TOL):
        nonlocal spec_checked
        names = [c[0] for c in calls]
        if names != expect_names:
            bad.append((meta, f"LAPACK calls {names}, model expects {expect_names}"))
            return False
        for c in calls:
            spec_checked += 1
            for f in spec_residuals(c, spec_tol):
                bad.append((meta, "oracle hypothesis: " + f))
        return True

    with Recorder() as rec:
        for t in gen_textures(chk, tier):
            rng = np.random.default_rng(t["seed"])
            for op, os, Q in variants(rng, t["os"]):
                n = len(os)
                fl = flat(os)
                ax, ax2 = t["axis"], t["axis2"]
                meta0 = dict(kind=t["kind"], n=n, op=op, axis=ax, axis2=ax2, os=os)
                bump("kind", t["kind"]); bump("op", op); bump("axis", ax); bump("n_grains", n)
                # symmetry_pgr
                r = call(rec, dg.symmetry_pgr, os, axis=ax)
                meta = dict(meta0, function="symmetry_pgr"); bump("function", "symmetry_pgr")
                if r[0] == "OK" and check_calls(r[2], meta, ["eigvalsh"]):
                    c = r[2][0]
                    run.add("scatter", [AXCODE[ax], n], fl, ("OK", lower6(c[1])), dict(meta, what="matrix passed to eigvalsh"), scale=max(1.0, n))
                    run.add("pgr", [AXCODE[ax], n], fl + list(c[4]), ("OK", list(r[1])), meta)
                elif r[0] == "ERR":
                    bad.append((meta, f"implementation raised {r[1]}"))
                chk.note_case(("pgr", ax, op, os.tobytes()), nontrivial=n > 1 and t["kind"] != "single",
                              sample=dict(function="symmetry_pgr", kind=t["kind"], n_grains=n, op=op, axis=ax,
                                          result=[float(x) for x in r[1]] if r[0] == "OK" else r[1])
                              if len(chk.cov["samples"]) < 2 else None)
                # bingham_average
                r = call(rec, dg.bingham_average, os, axis=ax)
                meta = dict(meta0, function="bingham_average"); bump("function", "bingham_average")
                if r[0] == "OK" and check_calls(r[2], meta, ["eigh"]):
                    c = r[2][0]
                    run.add("scatter", [AXCODE[ax], n], fl, ("OK", lower6(c[1])), dict(meta, what="matrix passed to eigh"), scale=max(1.0, n))
                    run.add("bingham", [AXCODE[ax], n], fl + list(c[4][0]) + flat(c[4][1]), ("OK", list(r[1])), meta)
                elif r[0] == "ERR":
                    bad.append((meta, f"implementation raised {r[1]}"))
                chk.note_case(("bingham", ax, op, os.tobytes()), nontrivial=n > 1)
                # coaxial_index
                r = call(rec, dg.coaxial_index, os, axis1=ax, axis2=ax2)
                meta = dict(meta0, function="coaxial_index"); bump("function", "coaxial_index")
                if r[0] == "OK" and check_calls(r[2], meta, ["eigvalsh", "eigvalsh"]):
                    run.add("coaxial", [AXCODE[ax], AXCODE[ax2], n], fl + list(r[2][0][4]) + list(r[2][1][4]),
                            ("OK", [float(r[1])]), meta)
                elif r[0] == "ERR":
                    bad.append((meta, f"implementation raised {r[1]}"))
                chk.note_case(("coaxial", ax, ax2, op, os.tobytes()), nontrivial=n > 1 and t["kind"] != "isotropic3")
        # call sequences on live objects (see Model_diag_session.v)
        hist.update({k: hist.get(k, {}) for k in ("session_family", "session_step", "session_via", "session_storage",
                                                   "session_inplace_ops_before_call", "session_grains")})
        NAMES = {"pgr": ["eigvalsh"], "bingham": ["eigh"], "coaxial": ["eigvalsh", "eigvalsh"]}
        for sess in gen_sessions(chk, tier):
            fam, n = sess["family"], sess["n"]
            bump("session_family", fam); bump("session_grains", n); bump("session_storage", sess["dtype"] + "/" + sess["layout"])
            for st in sess["steps"]:
                bump("session_step", st["op"])
            srt = 1e-5 if sess["dtype"] == "float32" else RTOL   # float32 objects: the six sums are accumulated in float32
            events = exec_session(dg, sess, rec)
            seq = [f"{i}: {describe_step(st)}" for i, st in enumerate(sess["steps"])]
            trace_ok, trace_expect = sess["dtype"] == "float64" and n <= 200, []
            for e in events:
                op, ax, ax2 = e["op"], e["axis"], e["axis2"]
                nmut = sum(1 for st in sess["steps"][:e["step"]] if st["op"] not in FN_OF)
                bump("session_via", e["via"]); bump("session_inplace_ops_before_call", min(nmut, 6)); bump("function", FN_OF[op] + ":session")
                fl = flat(e["contents"])
                meta = dict(kind="session:" + fam, n=n, op=f"step {e['step']}", axis=ax, axis2=ax2, function=FN_OF[op], via=e["via"],
                            session=sess, step=e["step"], call_sequence=seq[:e["step"] + 1])
                r = e["res"]
                chk.note_case(("session", fam, op, ax, ax2, e["via"], nmut, e["contents"].tobytes()), nontrivial=n > 1 and nmut > 0,
                              sample=dict(function=FN_OF[op] + " in a call sequence", family=fam, n_grains=n, step=e["step"],
                                          call_sequence=seq[:e["step"] + 1][-4:],
                                          result=[float(x) for x in np.atleast_1d(r[1])] if r[0] == "OK" else r[1])
                              if (e["step"] > 3 and n in (3, 7) and len(chk.cov["samples"]) < 4) else None)
                if r[0] != "OK":
                    bad.append((meta, f"implementation raised {r[1]}")); trace_ok = False
                    continue
                if not check_calls(e["calls"], meta, NAMES[op]):
                    trace_ok = False
                    continue
                cs = e["calls"]
                for c, a in zip(cs, (ax, ax2)):
                    run.add("scatter", [AXCODE[a], n], fl, ("OK", lower6(c[1])),
                            dict(meta, what=f"matrix passed to {c[0]} vs the scatter matrix of the CURRENT contents"), rtol=srt, scale=max(1.0, n))
                    if e["via"] != "rview":
                        trace_expect += lower6(c[1])
                if op == "pgr":
                    run.add("pgr", [AXCODE[ax], n], fl + list(cs[0][4]), ("OK", list(r[1])), meta)
                elif op == "bingham":
                    run.add("bingham", [AXCODE[ax], n], fl + list(cs[0][4][0]) + flat(cs[0][4][1]), ("OK", list(r[1])), meta)
                else:
                    run.add("coaxial", [AXCODE[ax], AXCODE[ax2], n], fl + list(cs[0][4]) + list(cs[1][4]), ("OK", [float(r[1])]), meta)
                if e["modified"]:
                    bad.append((meta, "the call modified its argument"))
                if e.get("result_changed_later"):
                    bad.append((meta, f"the array returned by this call was changed by a LATER call / update: {e['result_changed_later']}"))
                # purity: the same call on a fresh copy of the contents
                f = e["fresh"]
                if f[0] != "OK" or [c[0] for c in e["fresh_calls"]] != NAMES[op]:
                    bad.append((meta, f"the same call on a fresh copy of the argument: {f[:2] if f[0] != 'OK' else [c[0] for c in e['fresh_calls']]}"))
                    continue
                for c, c2 in zip(cs, e["fresh_calls"]):
                    if not np.allclose(c[1], c2[1], rtol=0, atol=1e-12 * max(1.0, n), equal_nan=True):
                        bad.append((meta, f"matrix passed to {c[0]} depends on the call history / the identity of the object: "
                                          f"{lower6(c[1])} for the live object, {lower6(c2[1])} for a fresh copy of its contents"))
                same = (np.allclose(r[1], f[1], rtol=0, atol=1e-12, equal_nan=True) if op != "bingham"
                        else same_axis(np.asarray(r[1]), np.asarray(f[1]), 1e-12))
                if all(np.array_equal(c[1], c2[1]) for c, c2 in zip(cs, e["fresh_calls"])) and not same:
                    bad.append((meta, f"result {np.atleast_1d(r[1]).tolist()} for the live object, {np.atleast_1d(f[1]).tolist()} for a fresh copy of its contents"))
            if trace_ok and trace_expect:
                run.add_line(session_line(sess), ("OK", trace_expect),
                             dict(kind="session:" + fam, n=n, op="whole history", function="session", session=sess, call_sequence=seq,
                                  what="session trace"), scale=max(1.0, n))
        # invalid axis specifiers (match statement: anything but exactly "a" / "b" / "c" raises ValueError)
        os = haar(np.random.default_rng(chk.seed + 3), 3)
        BADAX = ("d", "x", "", "A", " a", "a ", "ab", None, 0)
        for fn, entry in ((dg.symmetry_pgr, "pgr"), (dg.bingham_average, "bingham")):
            for badax in BADAX:
                r = call(rec, fn, os, axis=badax)
                run.add(entry, [7, 3], flat(os) + [0.0] * 12, ("ERR", r[1]) if r[0] == "ERR" else ("OK", []),
                        dict(function=fn.__name__, axis=badax, os=os, n=3, kind="random", op="invalid-axis"))
                bump("function", fn.__name__ + ":invalid-axis")
                chk.note_case((entry, badax), nontrivial=True)
        for badax in BADAX:
            for pos in (0, 1):
                kw = dict(axis1=badax, axis2="a") if pos == 0 else dict(axis1="b", axis2=badax)
                r = call(rec, dg.coaxial_index, os, **kw)
                run.add("coaxial", [7, 0, 3] if pos == 0 else [1, 7, 3], flat(os) + [0.0] * 6,
                        ("ERR", r[1]) if r[0] == "ERR" else ("OK", []),
                        dict(function="coaxial_index", axis=repr(kw), os=os, n=3, kind="random", op="invalid-axis"))
                bump("function", "coaxial_index:invalid-axis")
                chk.note_case(("coaxial", badax, pos), nontrivial=True)
        # legal but unusual spellings of a valid axis (numpy string scalar)
        for k, a in enumerate(AXES):
            r = call(rec, dg.symmetry_pgr, os, axis=np.str_(a))
            meta = dict(function="symmetry_pgr", axis=a, os=os, n=3, kind="random", op="axis as np.str_")
            bump("function", "symmetry_pgr:np.str_ axis")
            if r[0] == "OK" and check_calls(r[2], meta, ["eigvalsh"]):
                run.add("scatter", [k, 3], flat(os), ("OK", lower6(r[2][0][1])), dict(meta, what="matrix passed to eigvalsh"), scale=3.0)
                run.add("pgr", [k, 3], flat(os) + list(r[2][0][4]), ("OK", list(r[1])), meta)
            else:
                bad.append((meta, f"implementation: {r[:2]}"))
            chk.note_case(("pgr-npstr", a), nontrivial=True)
        # degenerate / malformed stream: no grains, all-zero matrices, matrices that are not rotations
        # (the formulas are still those of the model; P+G+R = 1 and the ranges are not claimed here)
        hist.setdefault("degenerate", {})
        drng = np.random.default_rng(chk.seed + 5)
        for dk, dos in (("empty", np.zeros((0, 3, 3))), ("zero-matrices", np.zeros((3, 3, 3))),
                        ("gaussian-rows", drng.normal(0, 1, (5, 3, 3))), ("scaled-rotations", 3.0 * haar(drng, 6)),
                        ("one-grain-rank-one", np.ones((1, 3, 3)))):
            n = len(dos)
            fl = flat(dos)
            for k, a in enumerate(AXES):
                bump("degenerate", dk)
                meta0 = dict(kind="degenerate:" + dk, n=n, op="base", axis=a, axis2=AXES[(k + 1) % 3])
                with np.errstate(all="ignore"):
                    r = call(rec, dg.symmetry_pgr, dos, axis=a)
                    rb = call(rec, dg.bingham_average, dos, axis=a)
                    rc = call(rec, dg.coaxial_index, dos, axis1=a, axis2=AXES[(k + 1) % 3])
                meta = dict(meta0, function="symmetry_pgr")
                if r[0] == "OK" and check_calls(r[2], meta, ["eigvalsh"]):
                    run.add("scatter", [k, n], fl, ("OK", lower6(r[2][0][1])), dict(meta, what="matrix passed to eigvalsh"), scale=max(1.0, n))
                    run.add("pgr", [k, n], fl + list(r[2][0][4]), ("OK", list(r[1])), meta)
                elif r[0] == "ERR":
                    bad.append((meta, f"implementation raised {r[1]}"))
                meta = dict(meta0, function="bingham_average")
                if rb[0] == "OK" and check_calls(rb[2], meta, ["eigh"]):
                    run.add("bingham", [k, n], fl + list(rb[2][0][4][0]) + flat(rb[2][0][4][1]), ("OK", list(rb[1])), meta)
                elif rb[0] == "ERR":
                    bad.append((meta, f"implementation raised {rb[1]}"))
                meta = dict(meta0, function="coaxial_index")
                if rc[0] == "OK" and check_calls(rc[2], meta, ["eigvalsh", "eigvalsh"]):
                    run.add("coaxial", [k, (k + 1) % 3, n], fl + list(rc[2][0][4]) + list(rc[2][1][4]), ("OK", [float(rc[1])]), meta)
                elif rc[0] == "ERR":
                    bad.append((meta, f"implementation raised {rc[1]}"))
                chk.note_case(("degenerate", dk, a), nontrivial=False)
        # finite strain
        for c in gen_F(chk, tier):
            F, Q = c["F"], c["Q"]
            for op, G in (("base", F), ("right", F @ Q), ("left", Q @ F)):
                r = call(rec, dg.finite_strain, G)
                meta = dict(function="finite_strain", kind=c["kind"], op=op, F=G)
                bump("fse_kind", c["kind"]); bump("function", "finite_strain")
                if r[0] == "OK" and check_calls(r[2], meta, ["eigh"]):
                    k = r[2][0]
                    sc = max(1.0, float(np.abs(k[1]).max()))
                    run.add("lcg", [], flat(G), ("OK", lower6(k[1])), dict(meta, what="matrix passed to eigh"), scale=sc)
                    run.add("fse", [], flat(G) + list(k[4][0]) + flat(k[4][1]), ("OK", [float(r[1][0])] + list(r[1][1])), meta)
                elif r[0] == "ERR":
                    bad.append((meta, f"implementation raised {r[1]}"))
                chk.note_case(("fse", op, G.tobytes()), nontrivial=True,
                              sample=dict(function="finite_strain", kind=c["kind"], op=op, F=[float(x) for x in G.reshape(-1)],
                                          result=[float(r[1][0])] + [float(x) for x in r[1][1]] if r[0] == "OK" else r[1])
                              if len(chk.cov["samples"]) < 6 else None)
        # every LAPACK driver finite_strain accepts (keyword and positional), and the texture diagnostics called
        # WITHOUT axis arguments (defaults: "a"; axis1 "b", axis2 "a") / with positional axis arguments
        hist.setdefault("argument_convention", {})
        for c in gen_F(chk, tier)[:len(F_KINDS)]:
            G = c["F"]
            for drv in ("ev", "evd", "evr", "evx"):
                for how in ("keyword", "positional"):
                    r = call(rec, dg.finite_strain, G, driver=drv) if how == "keyword" else call(rec, dg.finite_strain, G, drv)
                    meta = dict(function="finite_strain", kind=c["kind"], op=f"driver={drv!r} ({how})", F=G)
                    bump("argument_convention", f"finite_strain driver={drv} {how}")
                    if r[0] == "OK" and check_calls(r[2], meta, ["eigh"]):
                        k = r[2][0]
                        if k[3].get("driver") != drv:
                            bad.append((meta, f"LAPACK was called with {k[3]} instead of the caller's driver"))
                        run.add("lcg", [], flat(G), ("OK", lower6(k[1])), dict(meta, what="matrix passed to eigh"), scale=max(1.0, float(np.abs(k[1]).max())))
                        run.add("fse", [], flat(G) + list(k[4][0]) + flat(k[4][1]), ("OK", [float(r[1][0])] + list(r[1][1])), meta)
                        run.add_line(common.model_line("gen_fse", [1], flat(G) + list(k[4][0]) + flat(k[4][1])),
                                     ("OK", [float(r[1][0])] + list(r[1][1])), dict(meta, generated_code="gen_fse (driver=)"))
                    elif r[0] == "ERR":
                        bad.append((meta, f"implementation raised {r[1]}"))
                    chk.note_case(("fse-driver", drv, how, G.tobytes()), nontrivial=True)
        drng2 = np.random.default_rng(chk.seed + 13)
        for n in (1, 2, 3, 9):
            dos = texture(drng2, "clustered", n)
            fl = flat(dos)
            for how, a_pgr, a_co in (("defaults", (), ()), ("positional", ("c",), ("c", "b")), ("positional", ("b",), ("a", "a"))):
                k_pgr = AXCODE[a_pgr[0]] if a_pgr else 0
                k_co = (AXCODE[a_co[0]], AXCODE[a_co[1]]) if a_co else (1, 0)
                bump("argument_convention", f"texture diagnostics {how}")
                r = call(rec, dg.symmetry_pgr, dos, *a_pgr)
                meta = dict(function="symmetry_pgr", kind="clustered", n=n, op=f"axis arguments {how} {a_pgr}", axis=AXES[k_pgr], axis2=AXES[k_co[1]], os=dos)
                if r[0] == "OK" and check_calls(r[2], meta, ["eigvalsh"]):
                    run.add("scatter", [k_pgr, n], fl, ("OK", lower6(r[2][0][1])), dict(meta, what="matrix passed to eigvalsh"), scale=max(1.0, n))
                    run.add("pgr", [k_pgr, n], fl + list(r[2][0][4]), ("OK", list(r[1])), meta)
                    if n == 1 and how == "defaults":
                        run.add_line(common.model_line("gen_default", [0], fl + list(r[2][0][4])), ("OK", list(r[1])), dict(meta, generated_code="gen_default 0"))
                else:
                    bad.append((meta, f"implementation: {r[:2]}"))
                r = call(rec, dg.bingham_average, dos, *a_pgr)
                meta = dict(meta, function="bingham_average")
                if r[0] == "OK" and check_calls(r[2], meta, ["eigh"]):
                    run.add("scatter", [k_pgr, n], fl, ("OK", lower6(r[2][0][1])), dict(meta, what="matrix passed to eigh"), scale=max(1.0, n))
                    run.add("bingham", [k_pgr, n], fl + list(r[2][0][4][0]) + flat(r[2][0][4][1]), ("OK", list(r[1])), meta)
                    if n == 1 and how == "defaults":
                        run.add_line(common.model_line("gen_default", [1], fl + list(r[2][0][4][0]) + flat(r[2][0][4][1])), ("OK", list(r[1])),
                                     dict(meta, generated_code="gen_default 1"))
                else:
                    bad.append((meta, f"implementation: {r[:2]}"))
                r = call(rec, dg.coaxial_index, dos, *a_co)
                meta = dict(meta, function="coaxial_index", op=f"axis arguments {how} {a_co}", axis=AXES[k_co[0]])
                if r[0] == "OK" and check_calls(r[2], meta, ["eigvalsh", "eigvalsh"]):
                    run.add("coaxial", [k_co[0], k_co[1], n], fl + list(r[2][0][4]) + list(r[2][1][4]), ("OK", [float(r[1])]), meta)
                    if n == 1 and how == "defaults":
                        run.add_line(common.model_line("gen_default", [2], fl + list(r[2][0][4]) + list(r[2][1][4])), ("OK", [float(r[1])]),
                                     dict(meta, generated_code="gen_default 2"))
                else:
                    bad.append((meta, f"implementation: {r[:2]}"))
                chk.note_case(("argconv", how, a_pgr, a_co, dos.tobytes()), nontrivial=True)
        # presentations of the argument: integer dtype (exactly aligned grains / integer F), float32, read-only arrays
        hist.setdefault("presentation", {})
        for pres in ("int64", "float32", "read-only", "fortran-order"):
            base = aligned_bases()
            pos = np.stack([base[3], base[7], base[3]])
            if pres == "int64":
                arg, Farg = pos.astype(np.int64), np.array([[2, 0, 0], [1, 1, 0], [0, 0, 3]], dtype=np.int64)
            elif pres == "float32":
                arg, Farg = pos.astype(np.float32), np.array([[2, 0, 0], [1, 1, 0], [0, 0, 3]], dtype=np.float32)
            elif pres == "read-only":
                arg, Farg = texture(drng2, "clustered", 3), drng2.normal(0, 1, (3, 3))
                arg.setflags(write=False); Farg.setflags(write=False)
            else:
                arg, Farg = np.asfortranarray(texture(drng2, "girdled", 3)), np.asfortranarray(drng2.normal(0, 1, (3, 3)))
            fl = flat(arg)
            ptol = 1e-5 if pres == "float32" else RTOL
            for k, a in enumerate(AXES):
                bump("presentation", pres)
                meta = dict(function="symmetry_pgr", kind="presentation:" + pres, n=3, op="base", axis=a, axis2=AXES[(k + 1) % 3], os=np.array(arg, dtype=float))
                r = call(rec, dg.symmetry_pgr, arg, axis=a)
                if r[0] == "OK" and check_calls(r[2], meta, ["eigvalsh"]):
                    run.add("scatter", [k, 3], fl, ("OK", lower6(r[2][0][1])), dict(meta, what="matrix passed to eigvalsh"), rtol=ptol, scale=3.0)
                    run.add("pgr", [k, 3], fl + list(r[2][0][4]), ("OK", list(r[1])), meta)
                else:
                    bad.append((meta, f"implementation: {r[:2]}"))
                r = call(rec, dg.bingham_average, arg, axis=a)
                meta = dict(meta, function="bingham_average")
                if r[0] == "OK" and check_calls(r[2], meta, ["eigh"]):
                    run.add("bingham", [k, 3], fl + list(r[2][0][4][0]) + flat(r[2][0][4][1]), ("OK", list(r[1])), meta)
                else:
                    bad.append((meta, f"implementation: {r[:2]}"))
                chk.note_case(("presentation", pres, a), nontrivial=True)
            r = call(rec, dg.finite_strain, Farg)
            meta = dict(function="finite_strain", kind="presentation:" + pres, op="base", F=np.array(Farg, dtype=float))
            if r[0] == "OK" and check_calls(r[2], meta, ["eigh"], spec_tol=1e-4 if pres == "float32" else SPEC_TOL):
                kk = r[2][0]
                run.add("lcg", [], flat(Farg), ("OK", lower6(kk[1])), dict(meta, what="matrix passed to eigh"), rtol=ptol, scale=max(1.0, float(np.abs(kk[1]).max())))
                run.add("fse", [], flat(Farg) + list(kk[4][0]) + flat(kk[4][1]), ("OK", [float(r[1][0])] + list(r[1][1])), meta, rtol=ptol)
            else:
                bad.append((meta, f"implementation: {r[:2]}"))
            chk.note_case(("presentation-F", pres), nontrivial=True)
        # finite strain on ONE deformation-gradient object that is modified in place between the calls; the caller
        # scribbles on every returned axis (it owns the result)
        hist.setdefault("fse_sequence", {})
        for c in gen_F(chk, tier)[:12 if tier == "quick" else 60]:
            G, Q = np.array(c["F"], copy=True), c["Q"]
            for op in ("first call", "repeat", "in place F[...] = F.Q", "in place F[...] = Q.F", "in place F *= 2", "repeat"):
                if op.endswith("F.Q"):
                    G[...] = G @ Q
                elif op.endswith("Q.F"):
                    G[...] = Q @ G
                elif op.endswith("*= 2"):
                    G *= 2.0
                cur = G.copy()
                r = call(rec, dg.finite_strain, G)
                meta = dict(function="finite_strain", kind=c["kind"], op="sequence: " + op, F=cur)
                bump("fse_sequence", op); bump("function", "finite_strain:sequence")
                if r[0] == "OK" and check_calls(r[2], meta, ["eigh"]):
                    k = r[2][0]
                    sc = max(1.0, float(np.abs(k[1]).max()))
                    run.add("lcg", [], flat(cur), ("OK", lower6(k[1])), dict(meta, what="matrix passed to eigh vs F.F^T of the CURRENT contents"), scale=sc)
                    run.add("fse", [], flat(cur) + list(k[4][0]) + flat(k[4][1]), ("OK", [float(r[1][0])] + [float(x) for x in r[1][1]]), meta)
                    try:
                        r[1][1][...] = 7.0
                    except ValueError:
                        pass
                    if not np.array_equal(G, cur):
                        bad.append((meta, "finite_strain modified its argument"))
                elif r[0] == "ERR":
                    bad.append((meta, f"implementation raised {r[1]}"))
                chk.note_case(("fse-seq", op, cur.tobytes()), nontrivial=op != "first call")
        # finite_strain call sequences on live objects (Model_diag_fse_session.v)
        for k in ("fse_session_family", "fse_session_step", "fse_session_via", "fse_session_storage"):
            hist.setdefault(k, {})
        for sess in gen_fse_sessions(chk, tier):
            fam = sess["family"]
            bump("fse_session_family", fam); bump("fse_session_storage", sess["dtype"] + "/" + sess["layout"])
            for st in sess["steps"]:
                bump("fse_session_step", st["op"])
            srt = 1e-5 if sess["dtype"] == "float32" else RTOL
            events = exec_fse_session(dg, sess, rec)
            seq = [f"{i}: {describe_fstep(st)}" for i, st in enumerate(sess["steps"])]
            trace_ok, trace_expect, tscale = sess["dtype"] == "float64", [], 1.0
            for e in events:
                bump("fse_session_via", e["via"]); bump("function", "finite_strain:session")
                nupd = sum(1 for st in sess["steps"][:e["step"]] if st["op"] != "strain")
                meta = dict(function="finite_strain", kind="fse-session:" + fam, op=f"step {e['step']}", fsession=sess, step=e["step"],
                            call_sequence=seq[:e["step"] + 1], F=e["contents"])
                chk.note_case(("fse-session", fam, e["via"], nupd, e["contents"].tobytes()), nontrivial=nupd > 0,
                              sample=dict(function="finite_strain in a call sequence", family=fam, step=e["step"], call_sequence=seq[:e["step"] + 1][-4:],
                                          result=[e["res"][1][0]] + e["res"][1][1].tolist() if e["res"][0] == "OK" else e["res"][1])
                              if (fam == "update-chain" and e["step"] == 5 and len(chk.cov["samples"]) < 7) else None)
                r = e["res"]
                if r[0] != "OK":
                    bad.append((meta, f"implementation raised {r[1]}")); trace_ok = False
                    continue
                if not check_calls(e["calls"], meta, ["eigh"], spec_tol=1e-4 if sess["dtype"] == "float32" else SPEC_TOL):
                    trace_ok = False
                    continue
                k = e["calls"][0]
                sc = max(1.0, float(np.abs(k[1]).max()))
                tscale = max(tscale, sc)
                cur = e["contents"]
                run.add("lcg", [], flat(cur), ("OK", lower6(k[1])), dict(meta, what="matrix passed to eigh vs F.F^T of the CURRENT contents"), rtol=srt, scale=sc)
                run.add("fse", [], flat(cur) + list(k[4][0]) + flat(k[4][1]), ("OK", [r[1][0]] + list(r[1][1])), meta, rtol=srt)
                trace_expect += lower6(k[1])
                if e["modified"]:
                    bad.append((meta, "finite_strain modified its argument"))
                if e.get("result_changed_later"):
                    bad.append((meta, f"the axis returned by this call was changed by a LATER call / update: {e['result_changed_later']}"))
                f = e["fresh"]
                if f[0] != "OK" or [c[0] for c in e["fresh_calls"]] != ["eigh"]:
                    bad.append((meta, f"the same call on a fresh copy of the argument: {f[:1]}"))
                    continue
                k2 = e["fresh_calls"][0]
                if not np.allclose(k[1], k2[1], rtol=0, atol=1e-12 * sc, equal_nan=True):
                    bad.append((meta, f"matrix passed to eigh depends on the call history / the identity of the object: {lower6(k[1])} for the live object, "
                                      f"{lower6(k2[1])} for a fresh copy of its contents"))
                elif np.array_equal(k[1], k2[1]) and not (abs(r[1][0] - f[1][0]) <= 1e-12 * sc and same_axis(r[1][1], f[1][1], 1e-12)):
                    bad.append((meta, f"result ({r[1][0]!r}, {r[1][1].tolist()}) for the live object, ({f[1][0]!r}, {f[1][1].tolist()}) for a fresh copy of its contents"))
            if trace_ok and trace_expect:
                run.add_line(fse_session_line(sess), ("OK", trace_expect),
                             dict(function="finite_strain", kind="fse-session:" + fam, op="whole history", fsession=sess, call_sequence=seq,
                                  what="fse session trace"), rtol=1e-9, scale=tscale)
        # closed-form angle helper
        rng = np.random.default_rng(chk.seed + 11)
        for s in [0.0, 0.5, 1.0, 1e-9, 1e6] + list(rng.uniform(0, 10, 25 if tier == "quick" else 300)):
            r = call(rec, ut.angle_fse_simpleshear, float(s))
            run.add("fse_angle", [], [s], ("OK", [float(r[1])]) if r[0] == "OK" else ("ERR", r[1]),
                    dict(function="angle_fse_simpleshear", strain=float(s)))
            bump("function", "angle_fse_simpleshear")
            chk.note_case(("angle", float(s)), nontrivial=s != 0)
        # the same strain VALUES in other representations (Python / NumPy integers, binary32, 0-d / 1-element arrays, lists): the
        # model is fed the float value, the implementation the presentation (seeded change C13f: integer reciprocal)
        hist.setdefault("strain_presentation", {})
        for sv in [0.0, 1.0, 2.0, 3.0, 5.0, 10.0, 1000.0, 0.5, 0.25] + [float(v) for v in rng.integers(2, 40, 4 if tier == "quick" else 40)]:
            for kind in STRAIN_PRESENTATIONS[1:]:
                sp = present_strain(sv, kind)
                if sp is None:
                    continue
                r = call(rec, ut.angle_fse_simpleshear, sp)
                val = None
                if r[0] == "OK":
                    try:
                        val = float(np.asarray(r[1], dtype=float).reshape(-1)[0])
                    except Exception:  # noqa: BLE001
                        r = ("ERR", "TypeError")
                run.add("fse_angle", [], [sv], ("OK", [val]) if r[0] == "OK" else ("ERR", r[1]),
                        dict(function="angle_fse_simpleshear", strain=sv, strain_as=kind, gamma=2 * sv),
                        rtol=1e-6 if kind == "np.float32" else RTOL)
                bump("function", "angle_fse_simpleshear"); bump("strain_presentation", kind)
                chk.note_case(("angle", sv, kind), nontrivial=sv != 0)
        # smallest_angle: the compiled numba kernel vs the model (and the generated definitions)
        hist.setdefault("angle_kind", {})
        for c in gen_angles(chk, tier):
            r = angle_call(dg, c)
            fl = flat(c["v"]) + flat(c["a"]) + ([] if c["p"] is None else flat(c["p"]))
            bump("angle_kind", c["kind"].split(":")[0]); bump("function", "smallest_angle")
            run.add("smallest_angle", [], fl, ("OK", [r[1]]) if r[0] == "OK" else ("ERR", r[1]),
                    dict(function="smallest_angle", kind=c["kind"], angle_case=c), rtol=angle_rtol(r[1]) if r[0] == "OK" else RTOL)
            rk = angle_call(dg, c, "keyword")
            bump("argument_convention", "smallest_angle keyword arguments")
            if rk != r and not (r[0] == "OK" and rk[0] == "OK" and (rk[1] == r[1] or (math.isnan(rk[1]) and math.isnan(r[1])))):
                bad.append((dict(function="smallest_angle", kind=c["kind"], angle_case=c, op="keyword vs positional arguments"),
                            f"smallest_angle(v, a[, p]) = {r} but with keyword arguments {rk}"))
            chk.note_case(("smallest_angle", c["kind"], tuple(fl)), nontrivial=r[0] == "OK" and 0 < r[1] < 90)
    cmp_bad = run.compare()
    for m, d in cmp_bad:
        if m.get("what") == "session trace":      # does the implementation behave like the refuted memoising variant?
            exp = next(e for e, mm, _, _ in run.expect if mm is m)
            mm = common.run_model([session_line(m["session"], memo=1)], group=GROUP)[0]
            if mm[0] == "OK" and common.vec_close([x / max(1.0, m["n"]) for x in exp[1]], [x / max(1.0, m["n"]) for x in mm[1]], rtol=RTOL)[0]:
                m["note"] = ("the matrices handed to LAPACK over this history are those of the model variant that remembers the scatter "
                             "matrix per (object, row) and never invalidates it (refuted: C13_session_memo_refuted)")
    for m, d in cmp_bad:
        if m.get("what") == "fse session trace":
            exp = next(e for e, mm, _, _ in run.expect if mm is m)
            mm = common.run_model([fse_session_line(m["fsession"], memo=1)], group=GROUP)[0]
            if mm[0] == "OK" and common.vec_close(exp[1], mm[1], rtol=1e-9)[0]:
                m["note"] = ("the matrices handed to LAPACK over this history are those of the model variant that remembers F.F^T per object "
                             "and never invalidates it (refuted: C13_fse_session_memo_refuted)")
    bad += cmp_bad
    chk.cov["oracle_calls_residual_checked"] = spec_checked
    chk.cov["traces_validated_against_impl"] = len(run.lines)
    chk.cov["cases_also_run_through_generated_code"] = run.n_gen
    return bad


# --------------------------------------------------------------------------
# property oracle (only used to find a failing input after something broke)
# --------------------------------------------------------------------------
def ref_scatter(os, row):
    a = np.asarray(os)[:, row, :]
    return a.T @ a


# ---- call STYLES: every optional argument of the public diagnostics passed by keyword and positionally.  The property does not
# depend on how an argument is spelled; a signature change that re-binds a positional argument (seeded C13e) shows up only here.
FSE_STYLES = ["default"] + [f"{how}:{d}" for d in ("ev", "evd", "evr", "evx") for how in ("keyword", "positional")]
TEX_STYLES = ["keyword", "positional"]
ANGLE_STYLES = ["positional", "keyword"]


def fse_call(dg, F, style="default"):
    if style == "default":
        return dg.finite_strain(F)
    how, d = style.split(":")
    return dg.finite_strain(F, driver=d) if how == "keyword" else dg.finite_strain(F, d)


def describe_fse_style(style):
    if style == "default":
        return "finite_strain(F)"
    how, d = style.split(":")
    return f"finite_strain(F, driver={d!r})" if how == "keyword" else f"finite_strain(F, {d!r})"


def tex_calls(dg, style):
    """(symmetry_pgr, bingham_average, coaxial_index) as functions of (os, axis[, axis2]) in the given call style"""
    if style == "positional":
        return (lambda o, a: dg.symmetry_pgr(o, a), lambda o, a: dg.bingham_average(o, a), lambda o, a, b: dg.coaxial_index(o, a, b))
    return (lambda o, a: dg.symmetry_pgr(o, axis=a), lambda o, a: dg.bingham_average(o, axis=a),
            lambda o, a, b: dg.coaxial_index(o, axis1=a, axis2=b))


def same_axis(u, v, tol):
    return min(np.abs(u - v).max(), np.abs(u + v).max()) <= tol


def oracle_texture(dg, os, ax, ax2, rng, style="keyword"):
    fails = []
    row, row2 = AXCODE[ax], AXCODE[ax2]
    n = len(os)
    tol = 1e-9
    f_pgr, f_bingham, f_coaxial = tex_calls(dg, style)
    try:
        pgr = np.array(f_pgr(os, ax), dtype=float)
        b = np.asarray(f_bingham(os, ax), dtype=float)
    except Exception as e:  # noqa: BLE001
        return [f"raised {type(e).__name__}: {e}"]
    if np.any(pgr < -tol) or np.any(pgr > 1 + tol):
        fails.append(f"P, G, R = {pgr.tolist()} not all in [0, 1]")
    if abs(pgr.sum() - 1) > tol:
        fails.append(f"P + G + R = {pgr.sum()!r}")
    S = ref_scatter(os, row)
    w, V = np.linalg.eigh(S)
    exp = np.array([(w[2] - w[1]), 2 * (w[1] - w[0]), 3 * w[0]]) / w.sum()
    if np.abs(exp - pgr).max() > 1e-8:
        fails.append(f"P, G, R = {pgr.tolist()} but the scatter matrix of the {ax}-axes gives {exp.tolist()}")
    gap = (w[2] - w[1]) / max(w[2], 1e-300)
    if abs(b @ b - 1) > tol:
        fails.append(f"Bingham mean is not a unit vector (|b|^2 = {b @ b!r})")
    if np.abs(S @ b - w[2] * b).max() > 1e-8 * max(1.0, w[2]):
        fails.append("Bingham mean is not the principal eigenvector of the scatter matrix")
    w2 = np.linalg.eigvalsh(ref_scatter(os, row2))
    aniso = (w[2] - w[0]) > 1e-9 * n and (w2[2] - w2[0]) > 1e-9 * n
    ba = None
    if aniso:
        ba = float(f_coaxial(os, ax, ax2))
        if not (-tol <= ba <= 1 + tol):
            fails.append(f"coaxial index {ba!r} outside [0, 1]")
    for op, os2, Q in variants(rng, os):
        if op == "base":
            continue
        pgr2 = np.array(f_pgr(os2, ax), dtype=float)
        if np.abs(pgr2 - pgr).max() > 1e-8:
            fails.append(f"P, G, R change under {op}: {pgr.tolist()} -> {pgr2.tolist()}")
        if aniso:
            ba2 = float(f_coaxial(os2, ax, ax2))
            if abs(ba2 - ba) > 1e-7:
                fails.append(f"coaxial index changes under {op}: {ba!r} -> {ba2!r}")
        if gap > 1e-6:
            b2 = np.asarray(f_bingham(os2, ax), dtype=float)
            tgt = Q @ b if Q is not None else b
            if not same_axis(b2, tgt, 1e-7 / gap):
                fails.append(f"Bingham mean does not {'co-rotate' if Q is not None else 'stay fixed'} under {op}")
    return fails


def ref_pgr(os, row):
    w = np.linalg.eigvalsh(ref_scatter(os, row))
    return np.array([(w[2] - w[1]), 2 * (w[1] - w[0]), 3 * w[0]]) / w.sum()


def oracle_session(dg, sess):
    """the property read on a call sequence: every call must give the diagnostics of the CURRENT contents of
    its argument (ranges, P+G+R = 1, principal eigenvector), the same as for a fresh copy; P, G, R and the BA
    index of an object are unchanged by in-place frame rotations / reorderings / sign relabellings of that
    object and its Bingham mean co-rotates (stays) up to sign.  Returns (failures, index of the first failing step)."""
    fails, first = [], None
    ftol = 1e-4 if sess["dtype"] == "float32" else 1e-8
    tol = 1e-9 if sess["dtype"] != "float32" else 1e-5
    with np.errstate(all="ignore"):
        events = exec_session(dg, sess)
    # per object: epoch (changes at fill / copy) and the frame rotation accumulated since the epoch began
    epoch = [0] * sess["nb"]
    Qacc = [np.eye(3) for _ in range(sess["nb"])]
    seen = {}
    ev = {e["step"]: e for e in events}
    for i, st in enumerate(sess["steps"]):
        b = st["b"]
        if st["op"] in ("fill", "copy"):
            epoch[b] += 1 + i * 1000
            Qacc[b] = np.eye(3)
            continue
        if st["op"] == "rotate":
            Qacc[b] = np.asarray(st["Q"]) @ Qacc[b]
            continue
        if st["op"] not in FN_OF:
            continue
        e = ev[i]
        os, op = e["contents"], e["op"]
        row = AXCODE[e["axis"]]
        n = len(os)
        where = f"step {i} [{describe_step(st)}]"
        mine = []
        if e["res"][0] != "OK":
            mine.append(f"{where}: raised {e['res'][1]}")
        else:
            val = e["res"][1]
            S = ref_scatter(os, row)
            w, _ = np.linalg.eigh(S)
            gap = (w[2] - w[1]) / max(w[2], 1e-300)
            aniso = True
            if op == "pgr":
                exp = ref_pgr(os, row)
                if np.any(val < -tol) or np.any(val > 1 + tol) or abs(val.sum() - 1) > tol:
                    mine.append(f"{where}: P, G, R = {val.tolist()} not in [0, 1] / not summing to 1")
                if np.abs(exp - val).max() > ftol:
                    mine.append(f"{where}: P, G, R = {val.tolist()} but the scatter matrix of the {e['axis']}-axes of the current contents gives {exp.tolist()}")
            elif op == "bingham":
                if abs(val @ val - 1) > tol:
                    mine.append(f"{where}: Bingham mean is not a unit vector (|b|^2 = {val @ val!r})")
                if np.abs(S @ val - w[2] * val).max() > ftol * max(1.0, w[2]):
                    mine.append(f"{where}: Bingham mean {val.tolist()} is not the principal eigenvector of the scatter matrix of the current contents")
            else:
                row2 = AXCODE[e["axis2"]]
                w2 = np.linalg.eigvalsh(ref_scatter(os, row2))
                aniso = (w[2] - w[0]) > 1e-3 * n and (w2[2] - w2[0]) > 1e-3 * n
                if aniso:
                    p1, p2 = ref_pgr(os, row), ref_pgr(os, row2)
                    exp = 0.5 * (2 - p1[0] / (p1[1] + p1[0]) - p2[1] / (p2[1] + p2[0]))
                    v = float(val)
                    if not (-tol <= v <= 1 + tol):
                        mine.append(f"{where}: coaxial index {v!r} outside [0, 1]")
                    if abs(v - exp) > 10 * ftol:
                        mine.append(f"{where}: coaxial index {v!r} but the current contents give {exp!r}")
            # a fresh copy of the same values
            f = e["fresh"]
            if f[0] != "OK":
                mine.append(f"{where}: the same call on a fresh copy raised {f[1]}")
            elif op == "bingham":
                if gap > 1e-6 and not same_axis(val, f[1], 1e-7 / gap):
                    mine.append(f"{where}: Bingham mean {val.tolist()} for the live object, {f[1].tolist()} for a fresh copy of its contents")
            elif aniso and not np.allclose(val, f[1], rtol=0, atol=ftol, equal_nan=True):
                mine.append(f"{where}: {np.atleast_1d(val).tolist()} for the live object, {np.atleast_1d(f[1]).tolist()} for a fresh copy of its contents")
            if e["modified"]:
                mine.append(f"{where}: the call modified its argument")
            if e.get("result_changed_later"):
                mine.append(f"{where}: the returned array was changed by a later call / update: {e['result_changed_later']}")
            # objectivity along the history of the object (same contents up to frame / order / signs)
            key = (b, op, e["axis"], e["axis2"], epoch[b])
            if key not in seen:
                seen[key] = (i, val, Qacc[b].copy(), gap)
            else:
                j, v0, Q0, gap0 = seen[key]
                Qrel = Qacc[b] @ Q0.T
                if op == "bingham":
                    if gap0 > 1e-6 and not same_axis(val, Qrel @ v0, 1e-7 / gap0 + 100 * tol):
                        mine.append(f"{where}: Bingham mean does not co-rotate / stay fixed under the in-place frame rotations, reorderings and sign "
                                    f"relabellings since step {j}: {val.tolist()} vs +-{(Qrel @ v0).tolist()}")
                elif aniso and not np.allclose(val, v0, rtol=0, atol=10 * ftol, equal_nan=True):
                    mine.append(f"{where}: {FN_OF[op]} changed from {np.atleast_1d(v0).tolist()} (step {j}) to {np.atleast_1d(val).tolist()} although the object was only "
                                f"rotated / reordered / sign-relabelled in place in between")
        if mine and first is None:
            first = i
        fails += mine
    return fails, first


def minimise_session(dg, sess, first):
    """smallest history (greedy) that still fails: cut after the first failing call, then drop steps one by one"""
    cur = dict(sess, steps=list(sess["steps"][:first + 1]))
    if not oracle_session(dg, cur)[0]:
        cur = dict(sess, steps=list(sess["steps"]))      # the failure needs LATER steps (a returned array changed afterwards)
    k = len(cur["steps"]) - 1
    while k >= 0:
        cand = dict(cur, steps=cur["steps"][:k] + cur["steps"][k + 1:])
        if oracle_session(dg, cand)[0]:
            cur = cand
        k -= 1
    return cur



def oracle_F(dg, ut, F, Q, style="default"):
    fails = []
    try:
        val, axv = fse_call(dg, F, style)
    except Exception as e:  # noqa: BLE001
        return [f"raised {type(e).__name__}: {e}"]
    U, s, _ = np.linalg.svd(F)
    tol = 1e-8 * max(1.0, s[0])
    if abs(val - (s[0] - 1)) > tol:
        fails.append(f"value {val!r} is not the largest principal stretch minus one ({s[0] - 1!r})")
    gap = (s[0] ** 2 - s[1] ** 2) / max(s[0] ** 2, 1e-300)
    if gap > 1e-6 and not same_axis(np.asarray(axv), U[:, 0], 1e-7 / gap):
        fails.append("axis is not the long axis of the strain ellipsoid (first left singular vector of F)")
    v2, a2 = fse_call(dg, F @ Q, style)
    if abs(v2 - val) > tol or (gap > 1e-6 and not same_axis(np.asarray(a2), np.asarray(axv), 1e-7 / gap)):
        fails.append("result changes under a prior rigid rotation F -> F.Q")
    v3, a3 = fse_call(dg, Q @ F, style)
    if abs(v3 - val) > tol or (gap > 1e-6 and not same_axis(np.asarray(a3), Q @ np.asarray(axv), 1e-7 / gap)):
        fails.append("result does not co-rotate under a subsequent rotation F -> Q.F")
    return fails


STRAIN_PRESENTATIONS = ("float", "int", "np.int64", "np.int32", "np.float32", "0-d int array", "int array", "float array")   # lists are refused (TypeError) by the unchanged code


def present_strain(s, kind):
    """the strain value s handed to angle_fse_simpleshear in another representation (integer kinds only for whole numbers:
    None otherwise); the helper is a closed form of the VALUE, whatever its dtype / container (seeded change C13f)"""
    whole = float(s) == int(s)
    if kind == "float":
        return float(s)
    if kind == "np.float32":
        return np.float32(s) if float(np.float32(s)) == float(s) else None
    if kind == "float array":
        return np.array([float(s)])
    if not whole:
        return None
    return {"int": int(s), "np.int64": np.int64(int(s)), "np.int32": np.int32(int(s)), "0-d int array": np.array(int(s)),
            "int array": np.array([int(s)])}[kind]


def oracle_shear(dg, ut, g, style="default", strain_as="float"):
    F = np.eye(3)
    F[1, 0] = g
    _, axv = fse_call(dg, F, style)
    sp = present_strain(g / 2, strain_as)
    if sp is None:
        sp = g / 2
    th = float(np.asarray(np.deg2rad(ut.angle_fse_simpleshear(sp)), dtype=float).reshape(-1)[0])
    tgt = np.array([np.cos(th), np.sin(th), 0.0])
    if g > 1e-3 and not same_axis(np.asarray(axv), tgt, 1e-7 / min(1.0, g)):
        return [f"simple shear gamma={g!r}: axis {list(axv)} differs from the closed-form angle {float(np.rad2deg(th))!r} deg"
                f" of angle_fse_simpleshear({sp!r}) [strain given as {strain_as}]"]
    return []


def search(chk, extra=()):
    import pydrex.diagnostics as dg
    import pydrex.utils as ut
    rng = np.random.default_rng(chk.seed + 1)
    found, seen = [], set()

    def add(payload, fails):
        sig = re.sub(r"[-+\d.e\[\], ]+", "#", fails[0])[:40]
        if sig in seen or len(found) >= 3:
            return
        seen.add(sig)
        found.append((payload, fails))

    pool = []
    for m in extra:
        if "os" in m and m.get("n", 1 << 30) <= 200:
            pool.append((m["os"], m.get("axis", "a") if m.get("axis") in AXCODE else "a", m.get("axis2", "b")))
    for kind in ("clustered", "girdled", "random", "single", "aligned", "aligned", "aligned"):
        for n in (1, 2, 5, 30):
            for ax in AXES:
                pool.append((texture(rng, kind, n), ax, AXES[(AXCODE[ax] + 1) % 3]))
    # exactly axis-aligned textures, systematically: each of the 24 proper signed axis permutations
    # (every crystal axis along every reference axis, both senses) x all three crystal axes,
    # as a single-orientation texture and mixed with a second aligned orientation
    bases = aligned_bases()
    for k, base in enumerate(bases):
        other = bases[(7 * k + 5) % len(bases)]
        for ax in AXES:
            pool.append((np.repeat(base[None], 3, axis=0), ax, AXES[(AXCODE[ax] + 1) % 3]))
            pool.append((np.stack([base, base, other]), ax, AXES[(AXCODE[ax] + 2) % 3]))
    for os, ax, ax2 in pool:
        for style in TEX_STYLES:
            fails = oracle_texture(dg, os, ax, ax2, np.random.default_rng(chk.seed + 2), style)
            if fails:
                add(dict(call="texture", orientations=[hx(x) for x in os.reshape(-1)], n_grains=len(os), axis=ax, axis2=ax2, style=style,
                         call_style=f"axis arguments passed {'positionally' if style == 'positional' else 'by keyword'}"), fails)
                break
    # call sequences: the histories that disagreed, then small histories of every family
    spool, ids = [], set()
    for m in extra:
        if "session" in m and id(m["session"]) not in ids and m["session"]["n"] <= 200:
            ids.add(id(m["session"]))
            spool.append(m["session"])
    spool.sort(key=lambda q: q["n"] * len(q["steps"]))
    srng = np.random.default_rng(chk.seed + 29)
    for n in (2, 5, 30):
        for fam in SESSION_FAMILIES:
            spool.append(build_session(srng, fam, n))
    for sess in spool:
        if len(found) >= 3:
            break
        fails, first = oracle_session(dg, sess)
        if fails:
            small = minimise_session(dg, sess, first)
            add(sess_to_json(small), oracle_session(dg, small)[0] or fails)
    fpool = [(m["F"], haar(rng)) for m in extra if "F" in m]
    fpool += [(c["F"], c["Q"]) for c in gen_F(chk, "quick")]
    for F, Q in fpool:
        for style in FSE_STYLES:
            fails = oracle_F(dg, ut, F, Q, style)
            if fails:
                add(dict(call="finite_strain", F=[hx(x) for x in F.reshape(-1)], Q=[hx(x) for x in Q.reshape(-1)], style=style,
                         call_style=describe_fse_style(style)), [f"[{describe_fse_style(style)}] " + f for f in fails])
                break
    fspool, fids = [], set()
    for m in extra:
        if "fsession" in m and id(m["fsession"]) not in fids:
            fids.add(id(m["fsession"]))
            fspool.append(m["fsession"])
    fspool.sort(key=lambda q: len(q["steps"]))
    frng = np.random.default_rng(chk.seed + 37)
    for k, fam in enumerate(FSE_FAMILIES + FSE_FAMILIES):
        fspool.append(build_fse_session(frng, fam, k))
    for sess in fspool:
        if len(found) >= 3:
            break
        fails, first = oracle_fse_session(dg, sess)
        if fails:
            small = minimise_fse_session(dg, sess, first)
            add(fsess_to_json(small), oracle_fse_session(dg, small)[0] or fails)
    apool = [m["angle_case"] for m in extra if "angle_case" in m] + gen_angles(chk, "quick")
    for c in apool:
        for style in ANGLE_STYLES:
            fails = oracle_angle(dg, c, style)
            if fails:
                add(dict(call="smallest_angle", vector=[hx(x) for x in c["v"]], axis=[hx(x) for x in c["a"]],
                         plane=None if c["p"] is None else [hx(x) for x in c["p"]], style=style), fails)
                break
    for g in (0.5, 1.0, 2.0, 5.0, 4.0, 6.0, 20.0, 7.0):
        hit = False
        for style in FSE_STYLES:
            for strain_as in STRAIN_PRESENTATIONS:
                if present_strain(g / 2, strain_as) is None:
                    continue
                fails = oracle_shear(dg, ut, g, style, strain_as)
                if fails:
                    add(dict(call="simple_shear", gamma=hx(g), style=style, call_style=describe_fse_style(style), strain_as=strain_as),
                        [f"[{describe_fse_style(style)}] " + f for f in fails])
                    hit = True
                    break
            if hit:
                break
    return found


def run(chk):
    ok, br = proofs.prove(chk, FILES, PROP, groups=(GROUP,), gen_modules=(GROUP,))
    chk.cov["trusted_base"] = common.TRUSTED_COMMON[:1] + common.TRUSTED_COMMON[2:] + [
        "hand-written Model_diag.v (scatter matrix, P/G/R, coaxial index, Bingham mean, finite strain, angle helper): tie T at 1, 2, 3 grains -- gen/Gen_diag.v is regenerated from stats._scatter_matrix, diagnostics.symmetry_pgr / coaxial_index / bingham_average / finite_strain and utils.angle_fse_simpleshear on every run (translator/specs_diag.py) and Proofs_diag_inst.v proves generated = model for every input array, every axis code and every array-level LAPACK function; for any number of grains the list model is tied by this differential run (tie H)",
        "translator/specs_diag.py: NumPy float64 semantics of array elements (arithmetic never raises), np.zeros / np.sum (left to right) / np.sqrt / np.arctan / np.rad2deg / 3x3 @ / transpose / slicing of object arrays, scipy.linalg.norm of a 3-vector = sqrt(x.x); the axis specifier as a symbolic string compared with literals through == (code = big-endian UTF-8 value - 97); la.eigvalsh / la.eigh become calls of a function parameter (one positional 3x3 argument, no keyword except finite_strain's own driver= passed through, else the translator fails closed); signatures and default arguments are checked with inspect; two additive clauses in translator/emit_coq.py (parameter kind `oracle`)",
        "LAPACK (scipy.linalg.eigh / eigvalsh) is an oracle: theorems assume vals_spec / eig_spec (ascending eigenvalues, characteristic polynomial, S v = lambda v, orthonormal v); the harness checks the residuals of every recorded call (<= 1e-10 |S|) and that the matrix given to LAPACK equals the model's matrix",
        "np.sum / matmul accumulate in a different order than the model's left-to-right sums (compared to 1e-10)",
        "hand-written Model_diag_session.v (call histories on live objects modified in place); tied by executing the same histories in one Python process on the same ndarray objects: matrices handed to LAPACK vs the extracted `run false`, every result vs the one-call entries on the current contents and vs the same call on a fresh copy; NumPy's in-place operations (slice assignment, matmul out=, *=) are trusted to do what the model's fill / rotate / permute / flip say (the contents are read back and the model's own state evolution is compared to 1e-10); float32 objects: sums accumulated in float32, compared to 1e-5",
    ]
    chk.cov["rule"] = ("textures: {random (Haar), clustered, girdled, single orientation} x n_grains in {1,2,3,7,20,100,1000,10000} "
                       "[thorough: more sizes, 4 repetitions] x {as generated, frame rotated by a Haar Q, permuted, two-fold relabelled per grain}, "
                       "axes a/b/c cycled; each texture variant is passed to symmetry_pgr, bingham_average and coaxial_index (2 axes); invalid axis strings; "
                       "deformation gradients: {random Gaussian, near singular (sigma_3 down to 1e-9), simple shear, symmetric stretch} x {F, F.Q, Q.F}; "
                       "angle helper on strains in [0, 10] and extremes.  distinct = distinct (function, axis, op, input bytes); "
                       "non-trivial = more than one grain and not a single-orientation texture for P/G/R (not exactly isotropic for the coaxial index), every F.  "
                       "Exact boundary textures: aligned (P = 1), girdle_exact (a-axes along x and y alternately: G = 1), isotropic3 (R = 1).  "
                       "Call sequences (sessions): families {refill one buffer with successive textures, in-place frame rotation (np.matmul out=), in-place permutation, "
                       "in-place row sign flips (two-fold, one crystal axis, arbitrary), repeated / interleaved calls and different axes on one object, two objects with equal contents and "
                       "copies between them, calls through views / a persistent reversed view / copies / lists, random walks, float32, strided and Fortran-ordered objects} "
                       "x n_grains in {1,2,3,7,20,100} + 1000 + 10000; every call in a history is one case (distinct = function, axes, via, number of in-place operations before the call, "
                       "contents bytes; non-trivial = more than one grain and at least one in-place modification of an object before the call); the caller overwrites returned arrays.  "
                       "finite_strain on one F object modified in place (F.Q, Q.F, *= 2) with repeated calls.  Invalid / unusual axis specifiers (upper case, whitespace, None, 0, np.str_) for all three "
                       "functions incl. both coaxial arguments.  Degenerate stream (histogram `degenerate`): no grains, zero matrices, Gaussian rows, scaled rotations, rank-one grain (formulas only).  "
                       "Round 5: deformation gradients of 12 kinds incl. EXACTLY symmetric F (positive definite / indefinite / negative definite / det < 0), diagonal F with signs, "
                       "stretch x half-turn about a principal axis with that half-turn as the partner rotation, -I, rotations; every LAPACK driver (keyword / positional) and the texture "
                       "diagnostics without / with positional axis arguments (`argument_convention`); int64 / float32 / read-only / Fortran-ordered arguments (`presentation`); "
                       "smallest_angle (compiled kernel): +-basis vectors, zero vectors, scaled, near parallel / antiparallel / orthogonal, exactly parallel non-normalised, with unit and "
                       "non-unit plane normals, axis / vector reversed (`angle_kind`); finite_strain call sequences on live 3x3 objects updated in place (`fse_session_*`: families "
                       "update-chain, rotations-only, symmetric-halfturn, two-objects, views, random-walk, float32, fortran, strided; every call is one case, non-trivial = at least one in-place "
                       "update before it); kept results must be unchanged at the end of a history.  Every case of <= 3 grains, every finite-strain case and every angle is ALSO evaluated by the "
                       "extracted GENERATED definitions (`cases_also_run_through_generated_code`).")
    bad = []
    if br.drivers.get(GROUP, 1) is None:
        bad = correspondence(chk, chk.tier)
    chk.cov["disagreements"] = len(bad)
    if ok and not bad:
        return
    found = search(chk, extra=[m for m, _ in bad])
    # up to 6 disagreements, one per (function, kind of disagreement)
    shown, sigs = [], set()
    for m, d in sorted(bad, key=lambda md: 0 if md[0].get("note") else 1):
        sig = (m.get("function"), m.get("what"), re.sub(r"[-+\d.e\[\], ]+", "#", d)[:30])
        if sig not in sigs and len(shown) < 6:
            sigs.add(sig)
            shown.append((m, d))
    dis = [{k: v for k, v in m.items() if k not in ("os", "F", "session", "angle_case", "fsession")} | {"detail": d[:600]} for m, d in shown]
    if found:
        for payload, fails in found:
            chk.replay({"kind": "property-violation", "input": payload, "observed": fails,
                        "required": "C13 (see properties.jsonl)", "broken": chk.cov.get("broken_obligations", []),
                        "disagreements": dis})
    else:
        chk.replay({"kind": "unproved", "broken": chk.cov.get("broken_obligations", []), "disagreements": dis,
                    "note": "proof obligation or correspondence no longer checks; no failing input found by the search"},
                   no_input=True)


def replay(d):
    common.use_repo_source()
    import pydrex.diagnostics as dg
    import pydrex.utils as ut
    if d.get("kind") != "property-violation":
        print("replay file names a broken obligation; re-run the check itself")
        return 1
    i = d["input"]
    u = common.unhx
    if i["call"] == "texture":
        os = np.array([u(x) for x in i["orientations"]]).reshape(i["n_grains"], 3, 3)
        fails = oracle_texture(dg, os, i["axis"], i["axis2"], np.random.default_rng(d.get("seed", 0) + 2), i.get("style", "keyword"))
    elif i["call"] == "session":
        fails = oracle_session(dg, sess_from_json(i))[0]
    elif i["call"] == "fse_session":
        fails = oracle_fse_session(dg, fsess_from_json(i))[0]
    elif i["call"] == "smallest_angle":
        fails = oracle_angle(dg, dict(v=np.array([u(x) for x in i["vector"]]), a=np.array([u(x) for x in i["axis"]]),
                                      p=None if i["plane"] is None else np.array([u(x) for x in i["plane"]])), i.get("style", "positional"))
    elif i["call"] == "finite_strain":
        fails = oracle_F(dg, ut, np.array([u(x) for x in i["F"]]).reshape(3, 3), np.array([u(x) for x in i["Q"]]).reshape(3, 3),
                         i.get("style", "default"))
    else:
        fails = oracle_shear(dg, ut, u(i["gamma"]), i.get("style", "default"), i.get("strain_as", "float"))
    for f in fails:
        print("still fails:", f)
    return 1 if fails else 0
