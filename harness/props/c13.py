"""C13 -- eigenvalue-based texture and strain diagnostics are objective.

Proofs: coq/Properties/C13.v (Model_diag.v / Proofs_diag.v).  Correspondence: the public
functions symmetry_pgr, bingham_average, coaxial_index, finite_strain,
angle_fse_simpleshear against the extracted model, which is fed the RECORDED outputs of the
LAPACK oracle (scipy.linalg.eigh / eigvalsh are wrapped from outside, in this process);
the oracle hypothesis eig_spec is residual-checked on every recorded call, and the matrix
handed to LAPACK is compared with the model's scatter / left Cauchy-Green matrix."""
from __future__ import annotations

import itertools
import math
import re

import numpy as np

import common
import proofs
from common import hx

FILES = ["Model_diag.v", "Proofs_diag.v", "Entry_diag.v", "Extract_diag.v"]
PROP = "Properties/C13.v"
GROUP = "diag"
AXES = "abc"
RTOL = 1e-10
SPEC_TOL = 1e-10


# --------------------------------------------------------------------------
# oracle recorder
# --------------------------------------------------------------------------
class Recorder:
    """Wraps scipy.linalg.eigh / eigvalsh (module attributes looked up by pydrex at call
    time).  Nothing in /repo is touched."""

    def __init__(self):
        import scipy.linalg as la
        self.la = la
        self.calls = []
        self._eigh, self._eigvalsh = la.eigh, la.eigvalsh

    def __enter__(self):
        rec = self

        def eigh(a, *args, **kw):
            out = rec._eigh(a, *args, **kw)
            rec.calls.append(("eigh", np.array(a, dtype=float, copy=True), args, dict(kw),
                              (np.array(out[0], copy=True), np.array(out[1], copy=True))))
            return out

        def eigvalsh(a, *args, **kw):
            out = rec._eigvalsh(a, *args, **kw)
            rec.calls.append(("eigvalsh", np.array(a, dtype=float, copy=True), args, dict(kw),
                              np.array(out, copy=True)))
            return out

        self.la.eigh, self.la.eigvalsh = eigh, eigvalsh
        return self

    def __exit__(self, *a):
        self.la.eigh, self.la.eigvalsh = self._eigh, self._eigvalsh

    def take(self):
        c, self.calls = self.calls, []
        return c


def lower6(S):
    return [S[0, 0], S[1, 0], S[1, 1], S[2, 0], S[2, 1], S[2, 2]]


def sym_from_lower(S):
    L = np.tril(S)
    return L + L.T - np.diag(np.diag(S))


def spec_residuals(call):
    """eig_spec / vals_spec residuals of one recorded LAPACK call; list of failures."""
    name, A, args, kw, out = call
    fails = []
    if args or any(k not in ("driver",) for k in kw):
        fails.append(f"{name} called with unexpected arguments {args} {kw} (model assumes lower=True, full spectrum)")
    if A.shape != (3, 3):
        return fails + [f"{name} called on shape {A.shape}"]
    S = sym_from_lower(A)
    lam = out if name == "eigvalsh" else out[0]
    if not np.all(np.isfinite(S)):
        return fails  # nothing to check on a non-finite matrix
    nrm = max(np.abs(S).max(), 1e-300)
    if not (lam[0] <= lam[1] <= lam[2]):
        fails.append(f"{name}: eigenvalues not ascending {lam}")
    tr = np.trace(S)
    e2 = (S[0, 0] * S[1, 1] - S[1, 0] ** 2) + (S[0, 0] * S[2, 2] - S[2, 0] ** 2) + (S[1, 1] * S[2, 2] - S[2, 1] ** 2)
    det = np.linalg.det(S)
    l1, l2, l3 = (float(x) for x in lam)
    if abs(tr - (l1 + l2 + l3)) > SPEC_TOL * nrm:
        fails.append(f"{name}: trace residual {abs(tr - (l1 + l2 + l3)):.3e}")
    if abs(e2 - (l1 * l2 + l1 * l3 + l2 * l3)) > SPEC_TOL * nrm ** 2:
        fails.append(f"{name}: second invariant residual {abs(e2 - (l1 * l2 + l1 * l3 + l2 * l3)):.3e}")
    if abs(det - l1 * l2 * l3) > SPEC_TOL * nrm ** 3:
        fails.append(f"{name}: determinant residual {abs(det - l1 * l2 * l3):.3e}")
    if name == "eigh":
        V = out[1]
        r = np.abs(S @ V - V * lam[None, :]).max()
        if r > SPEC_TOL * nrm:
            fails.append(f"eigh: |S v - lambda v| = {r:.3e}")
        g = np.abs(V.T @ V - np.eye(3)).max()
        if g > SPEC_TOL:
            fails.append(f"eigh: eigenvectors not orthonormal ({g:.3e})")
    return fails


# --------------------------------------------------------------------------
# generators
# --------------------------------------------------------------------------
def haar(rng, n=None):
    from scipy.spatial.transform import Rotation
    m = Rotation.random(1 if n is None else n, random_state=rng).as_matrix()
    return m[0] if n is None else m


def aligned_bases():
    """the 24 proper signed permutation matrices: every crystal axis (row) along +-x, +-y or +-z"""
    ms = []
    for perm in itertools.permutations(range(3)):
        for sg in itertools.product((1.0, -1.0), repeat=3):
            m = np.zeros((3, 3))
            for i, (p, g) in enumerate(zip(perm, sg)):
                m[i, p] = g
            if np.linalg.det(m) > 0:
                ms.append(m)
    return ms


def texture(rng, kind, n):
    from scipy.spatial.transform import Rotation
    if kind == "random":
        return haar(rng, n)
    if kind == "single":
        return np.repeat(haar(rng)[None], n, axis=0)
    if kind == "clustered":
        base = Rotation.from_matrix(haar(rng))
        noise = Rotation.from_rotvec(rng.normal(0, 0.15, (n, 3)))
        return (noise * base).as_matrix()
    if kind == "girdled":
        base = Rotation.from_matrix(haar(rng))
        spin = Rotation.from_rotvec(np.c_[np.zeros(n), np.zeros(n), rng.uniform(0, 2 * np.pi, n)])
        noise = Rotation.from_rotvec(rng.normal(0, 0.05, (n, 3)))
        return (noise * spin * base).as_matrix()
    if kind == "aligned":     # grains exactly aligned with the reference axes (signed axis permutations)
        ms = aligned_bases()
        base = ms[int(rng.integers(len(ms)))]
        return np.repeat(base[None], n, axis=0)
    if kind == "isotropic3":  # scatter matrix exactly the identity: excluded from coaxial_index
        e = np.eye(3)
        return np.stack([e, e[[1, 2, 0]], e[[2, 0, 1]]])
    raise ValueError(kind)


FLIPS = np.array([np.diag(d) for d in ([1, 1, 1], [1, -1, -1], [-1, 1, -1], [-1, -1, 1])], dtype=float)


def variants(rng, os):
    n = len(os)
    Q = haar(rng)
    yield "base", os, None
    yield "frame", os @ Q.T, Q
    yield "perm", os[rng.permutation(n)], None
    yield "twofold", FLIPS[rng.integers(0, 4, n)] @ os, None


def gen_textures(chk, tier):
    rng = np.random.default_rng(chk.seed)
    sizes = [1, 2, 3, 7, 20, 100, 1000, 10000] if tier == "quick" else [1, 2, 3, 5, 7, 20, 100, 500, 1000, 3000, 10000, 10000]
    reps = 1 if tier == "quick" else 4
    out = []
    k = 0
    for _ in range(reps):
        for kind in ("random", "clustered", "girdled", "single", "aligned"):
            for n in (sizes if kind != "aligned" else [1, 2, 3, 4, 5, 6]):
                out.append(dict(kind=kind, n=n, os=texture(rng, kind, n), axis=AXES[k % 3],
                                axis2=AXES[(k // 3 + k + 1) % 3], seed=int(rng.integers(1 << 30))))
                k += 1
    out.append(dict(kind="isotropic3", n=3, os=texture(rng, "isotropic3", 3), axis="a", axis2="b", seed=1))
    return out


def gen_F(chk, tier):
    rng = np.random.default_rng(chk.seed + 7)
    n = 40 if tier == "quick" else 400
    out = []
    for i in range(n):
        kind = ("random", "near_singular", "shear", "stretch")[i % 4]
        if kind == "random":
            F = rng.normal(0, 1, (3, 3))
        elif kind == "near_singular":
            U, V = haar(rng), haar(rng)
            F = U @ np.diag([rng.uniform(0.5, 3), rng.uniform(1e-3, 0.5), 10.0 ** rng.uniform(-9, -3)]) @ V.T
        elif kind == "shear":
            F = np.eye(3)
            F[1, 0] = rng.uniform(0, 8)
        else:
            U = haar(rng)
            F = U @ np.diag(np.exp(rng.normal(0, 0.7, 3))) @ U.T
        out.append(dict(kind=kind, F=F, Q=haar(rng)))
    return out


# --------------------------------------------------------------------------
# implementation calls (recorded)
# --------------------------------------------------------------------------
def call(rec, f, *a, **kw):
    rec.take()
    try:
        r = f(*a, **kw)
        return ("OK", r, rec.take())
    except Exception as e:  # noqa: BLE001
        return ("ERR", common.exc_code(e), rec.take())


def flat(os):
    return [float(x) for x in np.asarray(os, dtype=float).reshape(-1)]


AXCODE = {"a": 0, "b": 1, "c": 2}


class Run:
    """collects model lines + expectations, runs them in one batch"""

    def __init__(self):
        self.lines, self.expect = [], []

    def add(self, entry, ints, floats, expected, meta, rtol=RTOL, scale=1.0):
        self.lines.append(common.model_line(entry, ints, floats))
        self.expect.append((expected, meta, rtol, scale))

    def compare(self):
        bad = []
        if not self.lines:
            return bad
        res = common.run_model(self.lines, group=GROUP)
        for (exp, meta, rtol, scale), m in zip(self.expect, res):
            if exp[0] == "ERR" or m[0] == "ERR":
                if not (exp[0] == m[0] and exp[1] == m[1]):
                    bad.append((meta, f"implementation {exp[:2]} vs model {m[:2] if m[0] == 'ERR' else 'OK'}"))
                continue
            a = [float(x) / scale for x in exp[1]]
            b = [float(x) / scale for x in m[1]]
            ok, idx = common.vec_close(a, b, rtol=rtol)
            if not ok:
                bad.append((meta, f"component {idx}: implementation {[float(x) for x in exp[1]]!r} vs model {m[1]!r}"))
        return bad


def correspondence(chk, tier):
    import pydrex.diagnostics as dg
    import pydrex.utils as ut
    run = Run()
    bad = []
    hist = chk.cov.setdefault("histogram", {"kind": {}, "op": {}, "axis": {}, "n_grains": {}, "function": {}, "fse_kind": {}})
    spec_checked = 0

    def bump(k, v):
        hist[k][str(v)] = hist[k].get(str(v), 0) + 1

    def check_calls(calls, meta, expect_names):
        nonlocal spec_checked
        names = [c[0] for c in calls]
        if names != expect_names:
            bad.append((meta, f"LAPACK calls {names}, model expects {expect_names}"))
            return False
        for c in calls:
            spec_checked += 1
            for f in spec_residuals(c):
                bad.append((meta, "oracle hypothesis: " + f))
        return True

    with Recorder() as rec:
        for t in gen_textures(chk, tier):
            rng = np.random.default_rng(t["seed"])
            for op, os, Q in variants(rng, t["os"]):
                n = len(os)
                fl = flat(os)
                ax, ax2 = t["axis"], t["axis2"]
                meta0 = dict(kind=t["kind"], n=n, op=op, axis=ax, axis2=ax2, os=os)
                bump("kind", t["kind"]); bump("op", op); bump("axis", ax); bump("n_grains", n)
                # symmetry_pgr
                r = call(rec, dg.symmetry_pgr, os, axis=ax)
                meta = dict(meta0, function="symmetry_pgr"); bump("function", "symmetry_pgr")
                if r[0] == "OK" and check_calls(r[2], meta, ["eigvalsh"]):
                    c = r[2][0]
                    run.add("scatter", [AXCODE[ax], n], fl, ("OK", lower6(c[1])), dict(meta, what="matrix passed to eigvalsh"), scale=max(1.0, n))
                    run.add("pgr", [AXCODE[ax], n], fl + list(c[4]), ("OK", list(r[1])), meta)
                elif r[0] == "ERR":
                    bad.append((meta, f"implementation raised {r[1]}"))
                chk.note_case(("pgr", ax, op, os.tobytes()), nontrivial=n > 1 and t["kind"] != "single",
                              sample=dict(function="symmetry_pgr", kind=t["kind"], n_grains=n, op=op, axis=ax,
                                          result=[float(x) for x in r[1]] if r[0] == "OK" else r[1]))
                # bingham_average
                r = call(rec, dg.bingham_average, os, axis=ax)
                meta = dict(meta0, function="bingham_average"); bump("function", "bingham_average")
                if r[0] == "OK" and check_calls(r[2], meta, ["eigh"]):
                    c = r[2][0]
                    run.add("scatter", [AXCODE[ax], n], fl, ("OK", lower6(c[1])), dict(meta, what="matrix passed to eigh"), scale=max(1.0, n))
                    run.add("bingham", [AXCODE[ax], n], fl + list(c[4][0]) + flat(c[4][1]), ("OK", list(r[1])), meta)
                elif r[0] == "ERR":
                    bad.append((meta, f"implementation raised {r[1]}"))
                chk.note_case(("bingham", ax, op, os.tobytes()), nontrivial=n > 1)
                # coaxial_index
                r = call(rec, dg.coaxial_index, os, axis1=ax, axis2=ax2)
                meta = dict(meta0, function="coaxial_index"); bump("function", "coaxial_index")
                if r[0] == "OK" and check_calls(r[2], meta, ["eigvalsh", "eigvalsh"]):
                    run.add("coaxial", [AXCODE[ax], AXCODE[ax2], n], fl + list(r[2][0][4]) + list(r[2][1][4]),
                            ("OK", [float(r[1])]), meta)
                elif r[0] == "ERR":
                    bad.append((meta, f"implementation raised {r[1]}"))
                chk.note_case(("coaxial", ax, ax2, op, os.tobytes()), nontrivial=n > 1 and t["kind"] != "isotropic3")
        # invalid axis specifiers
        os = haar(np.random.default_rng(chk.seed + 3), 4)
        for fn, entry in ((dg.symmetry_pgr, "pgr"), (dg.bingham_average, "bingham")):
            for badax in ("d", "x", ""):
                r = call(rec, fn, os, axis=badax)
                run.add(entry, [7, 4], flat(os) + [0.0] * 12, ("ERR", r[1]) if r[0] == "ERR" else ("OK", []),
                        dict(function=fn.__name__, axis=badax, os=os, n=4, kind="random", op="invalid-axis"))
                bump("function", fn.__name__ + ":invalid-axis")
                chk.note_case((entry, badax), nontrivial=True)
        # finite strain
        for c in gen_F(chk, tier):
            F, Q = c["F"], c["Q"]
            for op, G in (("base", F), ("right", F @ Q), ("left", Q @ F)):
                r = call(rec, dg.finite_strain, G)
                meta = dict(function="finite_strain", kind=c["kind"], op=op, F=G)
                bump("fse_kind", c["kind"]); bump("function", "finite_strain")
                if r[0] == "OK" and check_calls(r[2], meta, ["eigh"]):
                    k = r[2][0]
                    sc = max(1.0, float(np.abs(k[1]).max()))
                    run.add("lcg", [], flat(G), ("OK", lower6(k[1])), dict(meta, what="matrix passed to eigh"), scale=sc)
                    run.add("fse", [], flat(G) + list(k[4][0]) + flat(k[4][1]), ("OK", [float(r[1][0])] + list(r[1][1])), meta)
                elif r[0] == "ERR":
                    bad.append((meta, f"implementation raised {r[1]}"))
                chk.note_case(("fse", op, G.tobytes()), nontrivial=True,
                              sample=dict(function="finite_strain", kind=c["kind"], op=op, F=[float(x) for x in G.reshape(-1)],
                                          result=[float(r[1][0])] + [float(x) for x in r[1][1]] if r[0] == "OK" else r[1]))
        # closed-form angle helper
        rng = np.random.default_rng(chk.seed + 11)
        for s in [0.0, 0.5, 1.0, 1e-9, 1e6] + list(rng.uniform(0, 10, 25 if tier == "quick" else 300)):
            r = call(rec, ut.angle_fse_simpleshear, float(s))
            run.add("fse_angle", [], [s], ("OK", [float(r[1])]) if r[0] == "OK" else ("ERR", r[1]),
                    dict(function="angle_fse_simpleshear", strain=float(s)))
            bump("function", "angle_fse_simpleshear")
            chk.note_case(("angle", float(s)), nontrivial=s != 0)
    bad += run.compare()
    chk.cov["oracle_calls_residual_checked"] = spec_checked
    chk.cov["traces_validated_against_impl"] = len(run.lines)
    return bad


# --------------------------------------------------------------------------
# property oracle (only used to find a failing input after something broke)
# --------------------------------------------------------------------------
def ref_scatter(os, row):
    a = np.asarray(os)[:, row, :]
    return a.T @ a


def same_axis(u, v, tol):
    return min(np.abs(u - v).max(), np.abs(u + v).max()) <= tol


def oracle_texture(dg, os, ax, ax2, rng):
    fails = []
    row, row2 = AXCODE[ax], AXCODE[ax2]
    n = len(os)
    tol = 1e-9
    try:
        pgr = np.array(dg.symmetry_pgr(os, axis=ax), dtype=float)
        b = np.asarray(dg.bingham_average(os, axis=ax), dtype=float)
    except Exception as e:  # noqa: BLE001
        return [f"raised {type(e).__name__}: {e}"]
    if np.any(pgr < -tol) or np.any(pgr > 1 + tol):
        fails.append(f"P, G, R = {pgr.tolist()} not all in [0, 1]")
    if abs(pgr.sum() - 1) > tol:
        fails.append(f"P + G + R = {pgr.sum()!r}")
    S = ref_scatter(os, row)
    w, V = np.linalg.eigh(S)
    exp = np.array([(w[2] - w[1]), 2 * (w[1] - w[0]), 3 * w[0]]) / w.sum()
    if np.abs(exp - pgr).max() > 1e-8:
        fails.append(f"P, G, R = {pgr.tolist()} but the scatter matrix of the {ax}-axes gives {exp.tolist()}")
    gap = (w[2] - w[1]) / max(w[2], 1e-300)
    if abs(b @ b - 1) > tol:
        fails.append(f"Bingham mean is not a unit vector (|b|^2 = {b @ b!r})")
    if np.abs(S @ b - w[2] * b).max() > 1e-8 * max(1.0, w[2]):
        fails.append("Bingham mean is not the principal eigenvector of the scatter matrix")
    w2 = np.linalg.eigvalsh(ref_scatter(os, row2))
    aniso = (w[2] - w[0]) > 1e-9 * n and (w2[2] - w2[0]) > 1e-9 * n
    ba = None
    if aniso:
        ba = float(dg.coaxial_index(os, axis1=ax, axis2=ax2))
        if not (-tol <= ba <= 1 + tol):
            fails.append(f"coaxial index {ba!r} outside [0, 1]")
    for op, os2, Q in variants(rng, os):
        if op == "base":
            continue
        pgr2 = np.array(dg.symmetry_pgr(os2, axis=ax), dtype=float)
        if np.abs(pgr2 - pgr).max() > 1e-8:
            fails.append(f"P, G, R change under {op}: {pgr.tolist()} -> {pgr2.tolist()}")
        if aniso:
            ba2 = float(dg.coaxial_index(os2, axis1=ax, axis2=ax2))
            if abs(ba2 - ba) > 1e-7:
                fails.append(f"coaxial index changes under {op}: {ba!r} -> {ba2!r}")
        if gap > 1e-6:
            b2 = np.asarray(dg.bingham_average(os2, axis=ax), dtype=float)
            tgt = Q @ b if Q is not None else b
            if not same_axis(b2, tgt, 1e-7 / gap):
                fails.append(f"Bingham mean does not {'co-rotate' if Q is not None else 'stay fixed'} under {op}")
    return fails


def oracle_F(dg, ut, F, Q):
    fails = []
    try:
        val, axv = dg.finite_strain(F)
    except Exception as e:  # noqa: BLE001
        return [f"raised {type(e).__name__}: {e}"]
    U, s, _ = np.linalg.svd(F)
    tol = 1e-8 * max(1.0, s[0])
    if abs(val - (s[0] - 1)) > tol:
        fails.append(f"value {val!r} is not the largest principal stretch minus one ({s[0] - 1!r})")
    gap = (s[0] ** 2 - s[1] ** 2) / max(s[0] ** 2, 1e-300)
    if gap > 1e-6 and not same_axis(np.asarray(axv), U[:, 0], 1e-7 / gap):
        fails.append("axis is not the long axis of the strain ellipsoid (first left singular vector of F)")
    v2, a2 = dg.finite_strain(F @ Q)
    if abs(v2 - val) > tol or (gap > 1e-6 and not same_axis(np.asarray(a2), np.asarray(axv), 1e-7 / gap)):
        fails.append("result changes under a prior rigid rotation F -> F.Q")
    v3, a3 = dg.finite_strain(Q @ F)
    if abs(v3 - val) > tol or (gap > 1e-6 and not same_axis(np.asarray(a3), Q @ np.asarray(axv), 1e-7 / gap)):
        fails.append("result does not co-rotate under a subsequent rotation F -> Q.F")
    return fails


def oracle_shear(dg, ut, g):
    F = np.eye(3)
    F[1, 0] = g
    _, axv = dg.finite_strain(F)
    th = np.deg2rad(ut.angle_fse_simpleshear(g / 2))
    tgt = np.array([np.cos(th), np.sin(th), 0.0])
    if g > 1e-3 and not same_axis(np.asarray(axv), tgt, 1e-7 / min(1.0, g)):
        return [f"simple shear gamma={g!r}: axis {list(axv)} differs from the closed-form angle {float(np.rad2deg(th))!r} deg"]
    return []


def search(chk, extra=()):
    import pydrex.diagnostics as dg
    import pydrex.utils as ut
    rng = np.random.default_rng(chk.seed + 1)
    found, seen = [], set()

    def add(payload, fails):
        sig = re.sub(r"[-+\d.e\[\], ]+", "#", fails[0])[:40]
        if sig in seen or len(found) >= 3:
            return
        seen.add(sig)
        found.append((payload, fails))

    pool = []
    for m in extra:
        if "os" in m and m.get("n", 1 << 30) <= 200:
            pool.append((m["os"], m.get("axis", "a") if m.get("axis") in AXCODE else "a", m.get("axis2", "b")))
    for kind in ("clustered", "girdled", "random", "single", "aligned", "aligned", "aligned"):
        for n in (1, 2, 5, 30):
            for ax in AXES:
                pool.append((texture(rng, kind, n), ax, AXES[(AXCODE[ax] + 1) % 3]))
    # exactly axis-aligned textures, systematically: each of the 24 proper signed axis permutations
    # (every crystal axis along every reference axis, both senses) x all three crystal axes,
    # as a single-orientation texture and mixed with a second aligned orientation
    bases = aligned_bases()
    for k, base in enumerate(bases):
        other = bases[(7 * k + 5) % len(bases)]
        for ax in AXES:
            pool.append((np.repeat(base[None], 3, axis=0), ax, AXES[(AXCODE[ax] + 1) % 3]))
            pool.append((np.stack([base, base, other]), ax, AXES[(AXCODE[ax] + 2) % 3]))
    for os, ax, ax2 in pool:
        fails = oracle_texture(dg, os, ax, ax2, np.random.default_rng(chk.seed + 2))
        if fails:
            add(dict(call="texture", orientations=[hx(x) for x in os.reshape(-1)], n_grains=len(os), axis=ax, axis2=ax2), fails)
    fpool = [(m["F"], haar(rng)) for m in extra if "F" in m]
    fpool += [(c["F"], c["Q"]) for c in gen_F(chk, "quick")]
    for F, Q in fpool:
        fails = oracle_F(dg, ut, F, Q)
        if fails:
            add(dict(call="finite_strain", F=[hx(x) for x in F.reshape(-1)], Q=[hx(x) for x in Q.reshape(-1)]), fails)
    for g in (0.5, 1.0, 2.0, 5.0):
        fails = oracle_shear(dg, ut, g)
        if fails:
            add(dict(call="simple_shear", gamma=hx(g)), fails)
    return found


def run(chk):
    ok, br = proofs.prove(chk, FILES, PROP, groups=(GROUP,), gen_modules=(GROUP,))
    chk.cov["trusted_base"] = common.TRUSTED_COMMON[:1] + common.TRUSTED_COMMON[2:] + [
        "hand-written Model_diag.v (scatter matrix, P/G/R, coaxial index, Bingham mean, finite strain, angle helper), tied to the source by this differential run (tie H)",
        "LAPACK (scipy.linalg.eigh / eigvalsh) is an oracle: theorems assume vals_spec / eig_spec (ascending eigenvalues, characteristic polynomial, S v = lambda v, orthonormal v); the harness checks the residuals of every recorded call (<= 1e-10 |S|) and that the matrix given to LAPACK equals the model's matrix",
        "np.sum / matmul accumulate in a different order than the model's left-to-right sums (compared to 1e-10)",
    ]
    chk.cov["rule"] = ("textures: {random (Haar), clustered, girdled, single orientation} x n_grains in {1,2,3,7,20,100,1000,10000} "
                       "[thorough: more sizes, 4 repetitions] x {as generated, frame rotated by a Haar Q, permuted, two-fold relabelled per grain}, "
                       "axes a/b/c cycled; each texture variant is passed to symmetry_pgr, bingham_average and coaxial_index (2 axes); invalid axis strings; "
                       "deformation gradients: {random Gaussian, near singular (sigma_3 down to 1e-9), simple shear, symmetric stretch} x {F, F.Q, Q.F}; "
                       "angle helper on strains in [0, 10] and extremes.  distinct = distinct (function, axis, op, input bytes); "
                       "non-trivial = more than one grain and not a single-orientation texture for P/G/R (not exactly isotropic for the coaxial index), every F")
    bad = []
    if br.drivers.get(GROUP, 1) is None:
        bad = correspondence(chk, chk.tier)
    chk.cov["disagreements"] = len(bad)
    if ok and not bad:
        return
    found = search(chk, extra=[m for m, _ in bad])
    dis = [{k: v for k, v in m.items() if k not in ("os", "F")} | {"detail": d} for m, d in bad[:5]]
    if found:
        for payload, fails in found:
            chk.replay({"kind": "property-violation", "input": payload, "observed": fails,
                        "required": "C13 (see properties.jsonl)", "broken": chk.cov.get("broken_obligations", []),
                        "disagreements": dis})
    else:
        chk.replay({"kind": "unproved", "broken": chk.cov.get("broken_obligations", []), "disagreements": dis,
                    "note": "proof obligation or correspondence no longer checks; no failing input found by the search"},
                   no_input=True)


def replay(d):
    common.use_repo_source()
    import pydrex.diagnostics as dg
    import pydrex.utils as ut
    if d.get("kind") != "property-violation":
        print("replay file names a broken obligation; re-run the check itself")
        return 1
    i = d["input"]
    u = common.unhx
    if i["call"] == "texture":
        os = np.array([u(x) for x in i["orientations"]]).reshape(i["n_grains"], 3, 3)
        fails = oracle_texture(dg, os, i["axis"], i["axis2"], np.random.default_rng(d.get("seed", 0) + 2))
    elif i["call"] == "finite_strain":
        fails = oracle_F(dg, ut, np.array([u(x) for x in i["F"]]).reshape(3, 3), np.array([u(x) for x in i["Q"]]).reshape(3, 3))
    else:
        fails = oracle_shear(dg, ut, u(i["gamma"]))
    for f in fails:
        print("still fails:", f)
    return 1 if fails else 0
