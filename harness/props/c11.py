"""C11 -- elastic tensor representations are mutually consistent, norm-preserving maps."""
from __future__ import annotations

import numpy as np

import common
import proofs
import gen_tensors as G
from common import hx

FILES = ["gen/Gen_tensors.v", "Model_voigt.v", "Model_decomp.v", "Proofs_tensors_alg.v"] + \
        [f"Proofs_tensors_rot{i}.v" for i in range(9)] + \
        ["Proofs_tensors_rot.v", "Proofs_tensors_maps.v", "Proofs_tensors_proj.v",
         "Proofs_tensors_polar.v", "Inst_tensors.v", "Entry_tensors.v", "Extract_tensors.v"]
PROP = "Properties/C11.v"

VOIGT = {(0, 0): 0, (1, 1): 1, (2, 2): 2, (1, 2): 3, (2, 1): 3, (0, 2): 4, (2, 0): 4, (0, 1): 5, (1, 0): 5}


def bundle(rng):
    return dict(M=G.sym6(rng), x=rng.normal(size=21) * 100, y=rng.normal(size=21) * 100,
                R1=G.small_rot(rng) if rng.random() < 0.3 else G.haar(rng),
                R2=G.small_rot(rng) if rng.random() < 0.3 else G.haar(rng),
                A=rng.normal(size=(3, 3)) * 10 ** rng.uniform(-1, 1))


def encode(b):
    return {k: [hx(v) for v in np.asarray(a).reshape(-1)] for k, a in b.items()}


def decode(d):
    shp = {"M": (6, 6), "x": (21,), "y": (21,), "R1": (3, 3), "R2": (3, 3), "A": (3, 3)}
    return {k: np.array([common.unhx(v) for v in d[k]]).reshape(shp[k]) for k in shp}


def oracle(T, b):
    """Direct reading of C11 on the public API of pydrex.tensors; list of failures."""
    f = []
    M, x, y, R1, R2, A = (b[k].copy() for k in ("M", "x", "y", "R1", "R2", "A"))
    sc = max(1.0, float(np.abs(M).max()))

    def far(a, c, tol=1e-9, s=sc):
        a, c = np.asarray(a, dtype=float), np.asarray(c, dtype=float)
        return a.shape != c.shape or not np.all(np.isfinite(a)) or float(np.abs(a - c).max()) > tol * s

    try:
        C = T.voigt_to_elastic_tensor(M.copy())
        ref = np.empty((3, 3, 3, 3))
        for (p, q), i in VOIGT.items():
            for (r, s), j in VOIGT.items():
                ref[p, q, r, s] = M[i, j]
        if far(C, ref, 0.0):
            f.append("voigt_to_elastic_tensor does not follow the Voigt index map 11,22,33,23,13,12")
        if far(C, C.transpose(1, 0, 2, 3), 0.0) or far(C, C.transpose(0, 1, 3, 2), 0.0) or far(C, C.transpose(2, 3, 0, 1), 0.0):
            f.append("tensor of a symmetric Voigt matrix lacks a minor/major symmetry")
        d, v = T.voigt_decompose(M.copy())
        if far(d, np.einsum("ijkk->ij", C)) or far(v, np.einsum("ijkj->ik", C)):
            f.append("voigt_decompose is not the pair of contractions C_ijkk, C_ijkj")
        if far(T.elastic_tensor_to_voigt(C.copy()), M):
            f.append("elastic_tensor_to_voigt(voigt_to_elastic_tensor(M)) != M")
        if far(T.voigt_to_elastic_tensor(T.elastic_tensor_to_voigt(C.copy())), C):
            f.append("voigt_to_elastic_tensor(elastic_tensor_to_voigt(C)) != C")
        vec = T.voigt_matrix_to_vector(M.copy())
        if far(T.voigt_vector_to_matrix(vec.copy()), M):
            f.append("voigt_vector_to_matrix(voigt_matrix_to_vector(M)) != M")
        if far(T.voigt_matrix_to_vector(T.voigt_vector_to_matrix(x.copy())), x, s=max(1.0, np.abs(x).max())):
            f.append("voigt_matrix_to_vector(voigt_vector_to_matrix(x)) != x")
        if abs(np.linalg.norm(vec) - np.linalg.norm(C)) > 1e-9 * sc:
            f.append("norm of the 21-vector differs from the Frobenius norm of the 4th-order tensor")
        # rotation
        rot = T.rotate(C.copy(), R1.copy())
        if far(rot, np.einsum("ia,jb,kc,ld,abcd->ijkl", R1, R1, R1, R1, C)):
            f.append("rotate does not obey the tensor transformation law")
        if abs(np.linalg.norm(rot) - np.linalg.norm(C)) > 1e-9 * sc:
            f.append("rotate does not preserve the norm")
        if far(T.rotate(rot.copy(), R2.copy()), T.rotate(C.copy(), R2 @ R1)):
            f.append("rotate(rotate(C, R1), R2) != rotate(C, R2.R1)")
        if far(T.rotate(C.copy(), np.eye(3)), C):
            f.append("rotate(C, I) != C")
        # projectors
        P = [T.mono_project, T.ortho_project, T.tetr_project, T.hex_project]
        sx = max(1.0, float(np.abs(x).max()), float(np.abs(y).max()))
        for k, p in enumerate(P):
            px, py = p(x.copy()), p(y.copy())
            if far(p(px.copy()), px, s=sx):
                f.append(f"{p.__name__} is not idempotent")
            if abs(px @ y - x @ py) > 1e-9 * sx * sx:
                f.append(f"{p.__name__} is not self-adjoint")
            if far(p(2 * x - 3 * y), 2 * px - 3 * py, s=sx):
                f.append(f"{p.__name__} is not linear")
            if k and far(P[k - 1](px.copy()), px, s=sx):
                f.append(f"range of {p.__name__} is not inside the range of {P[k-1].__name__}")
        # polar decomposition
        R, Pm = T.polar_decompose(A.copy())
        sa = max(1.0, float(np.abs(A).max()))
        if far(R.T @ R, np.eye(3), s=1.0) or far(Pm, Pm.T, s=sa) or np.linalg.eigvalsh((Pm + Pm.T) / 2).min() < -1e-9 * sa \
                or far(Pm @ R, A, s=sa):
            f.append("left polar decomposition: factor not orthogonal / stretch not symmetric PSD / P.R != M")
        if np.linalg.cond(A) < 1e6:
            R, U = T.polar_decompose(A.copy(), False)
            if far(R.T @ R, np.eye(3), 1e-7, 1.0) or far(U, U.T, s=sa) or far(R @ U, A, 1e-7, sa):
                f.append("right polar decomposition: factor not orthogonal / stretch not symmetric / R.U != M")
        i1, i2, i3 = T.invariants_second_order(A.copy())
        ev = np.linalg.eigvals(A)
        e = (ev.sum(), ev[0] * ev[1] + ev[1] * ev[2] + ev[2] * ev[0], ev.prod())
        if max(abs(i1 - e[0]), abs(i2 - e[1]) / sa, abs(i3 - e[2]) / sa ** 2) > 1e-8 * sa:
            f.append("invariants differ from the elementary symmetric functions of the eigenvalues")
    except Exception as e:  # noqa: BLE001
        f.append(f"a public function raised {type(e).__name__}: {e}")
    return f


def search(chk, T, n=60):
    rng = np.random.default_rng(chk.seed + 1)
    found, seen = [], set()
    for _ in range(n):
        b = bundle(rng)
        fails = oracle(T, b)
        new = [m for m in fails if m not in seen]
        if new:
            seen.update(new)
            found.append((b, fails))
            if len(found) >= 3:
                break
    return found


def run(chk):
    ok, br = proofs.prove(chk, FILES, PROP, groups=(G.GROUP,), gen_modules=("tensors",))
    import pydrex.tensors as T
    chk.cov["trusted_base"] = common.TRUSTED_COMMON + [
        "every kernel of pydrex.tensors is the generated Gen_tensors.k_* (tie T); ndarray.sum() of a slice was added to the proxy (SArr.sum)",
        "rotate is run in its loop form Model_voigt.rotate4 (the unrolled generated k_rotate cannot be compiled by ocamlopt); "
        "Inst_tensors.rotate4_is_k_rotate (kernel-checked, all 81 components) ties it to the generated k_rotate",
        "polar_decompose: hand-written Model_decomp.polar_left/right over the SVD oracle (numpy.linalg.svd); hypotheses U^T U = U U^T = I, "
        "Vh Vh^T = Vh^T Vh = I, S >= 0, M = U diag(S) Vh are residual-checked on every case; numpy.linalg.inv modelled as adjugate/det",
    ]
    chk.cov["rule"] = ("per public function of pydrex.tensors (15 entries incl. both polar variants and both shapes of upper_tri_to_symmetric): seeded random "
                       "inputs -- full (triclinic) symmetric 6x6, non-symmetric 6x6, sparse-with-exact-zeros, SPD, the two built-in tensors; 4th-order tensors "
                       "with and without symmetries; Haar rotations and general matrices; 21-vectors; compiled implementation vs extracted generated code at 1e-11 "
                       "(polar: 1e-10, right variant scaled by cond^2); distinct = distinct (entry, input bytes); non-trivial = result not identically zero")
    bad = []
    if br.drivers.get(G.GROUP, 1) is None:
        rng = np.random.default_rng(chk.seed)
        n = 140 if chk.tier == "quick" else 4000
        for name, (gen, fn) in G.entries(T).items():
            bad += G.compare_entry(chk, name, gen, fn, n, rng)
        chk.cov["traces_validated_against_impl"] = chk.cov["evaluations"]
    chk.cov["disagreements"] = len(bad)
    if ok and not bad:
        return
    found = search(chk, T)
    if found:
        for b, fails in found:
            chk.replay({"kind": "property-violation", "call": "pydrex.tensors (public API)", "input": encode(b),
                        "observed": fails, "required": "C11 (see properties.jsonl)",
                        "broken": chk.cov.get("broken_obligations", []),
                        "disagreements": [f"{n}: {m}" for n, _, m in bad[:3]]})
    else:
        chk.replay({"kind": "unproved", "broken": chk.cov.get("broken_obligations", []),
                    "disagreements": [{"entry": n, "input": [hx(v) for v in c["x"]], "detail": m} for n, c, m in bad[:3]],
                    "note": "proof obligation or correspondence no longer checks; no failing input found by the search"},
                   no_input=True)


def replay(d):
    common.use_repo_source()
    import pydrex.tensors as T
    if d.get("kind") != "property-violation":
        print("replay file names a broken obligation; re-run the check itself")
        return 1
    fails = oracle(T, decode(d["input"]))
    for f in fails:
        print("still fails:", f)
    return 1 if fails else 0
