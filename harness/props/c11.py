"""C11 -- elastic tensor representations are mutually consistent, norm-preserving maps."""
from __future__ import annotations

import numpy as np

import common
import proofs
import gen_tensors as G
from common import hx

FILES = ["gen/Gen_tensors.v", "gen/Gen_polar.v", "Model_voigt.v", "Model_decomp.v", "Proofs_tensors_alg.v"] + \
        [f"Proofs_tensors_rot{i}.v" for i in range(9)] + \
        ["Proofs_tensors_rot.v", "Proofs_tensors_maps.v", "Proofs_tensors_proj.v",
         "Proofs_tensors_polar.v", "Inst_tensors.v", "Inst_polar.v", "Proofs_tensors_polar2.v", "Entry_tensors.v", "Extract_tensors.v"]
PROP = "Properties/C11.v"

VOIGT = {(0, 0): 0, (1, 1): 1, (2, 2): 2, (1, 2): 3, (2, 1): 3, (0, 2): 4, (2, 0): 4, (0, 1): 5, (1, 0): 5}


# open findings of the unchanged tree (proposed known_findings.json entries: docs/C11.md)
KF_TETR_INT = ("key=C11:tetr_project:integer-dtype-truncation tetr_project writes 0.5*(x[i]+x[j]) into a copy of its argument: "
               "for an integer-dtype vector the half-integers are truncated (the value depends on the dtype of the same numbers)")
KF_POLAR_RIGHT = ("key=C11:polar_decompose:right-variant-singular-input polar_decompose(M, left=False) computes M @ inv(Vh^T diag(S) Vh): "
                  "for a singular M it raises LinAlgError or returns a non-orthogonal first factor (a right polar decomposition exists: R = U @ Vh)")

KEY_TETR_INT = "C11:tetr_project:integer-dtype-truncation"
KEY_POLAR_RIGHT = "C11:polar_decompose:right-variant-singular-input"


def finding_fixed(key):
    """a finding listed as `fixed:` in known_findings.json suppresses nothing: its witness is then a violation"""
    return any(f.get("key") == key and str(f.get("status", "")).startswith("fixed") for f in common.load_known_findings())


SHAPES = {"M": (6, 6), "x": (21,), "y": (21,), "R1": (3, 3), "R2": (3, 3), "A": (3, 3),
          "B": (3, 3), "Mi": (6, 6), "xi": (21,), "Ti": (3, 3, 3, 3), "Ri": (3, 3), "mag": (4,)}


def bundle(rng, family=None):
    fam = family or G.POLAR_FAMILIES[int(rng.integers(0, len(G.POLAR_FAMILIES)))]
    return dict(M=G.sym6(rng), x=rng.normal(size=21) * 100, y=rng.normal(size=21) * 100,
                R1=G.small_rot(rng) if rng.random() < 0.3 else G.haar(rng),
                R2=G.small_rot(rng) if rng.random() < 0.3 else G.haar(rng),
                A=rng.normal(size=(3, 3)) * 10 ** rng.uniform(-1, 1),
                # special polar input (exactly symmetric indefinite / negative definite / singular / reflection ...)
                B=G.polar_matrix(rng, fam),
                # integer-valued inputs, handed over in every dtype / layout presentation
                Mi=G.int_sym6(rng), xi=rng.integers(-200, 201, size=21).astype(float),
                Ti=rng.integers(-200, 201, size=(3, 3, 3, 3)).astype(float),
                Ri=rng.integers(-2, 3, size=(3, 3)).astype(float),
                # magnitudes: a scale exponent (everything is re-read in units of 2^k) and one odd entry for M / x
                mag=np.array([float(rng.choice(G.MAG_EXPONENTS)), float(rng.choice(G.MIXED_TINY)),
                              float(rng.integers(0, 21)), float(rng.integers(0, 21))]))


def encode(b):
    return {k: [hx(v) for v in np.asarray(a).reshape(-1)] for k, a in b.items()}


def decode(d):
    return {k: np.array([common.unhx(v) for v in d[k]]).reshape(shp) for k, shp in SHAPES.items() if k in d}


def oracle(T, b):
    """Direct reading of C11 on the public API of pydrex.tensors; list of failures."""
    f = []
    M, x, y, R1, R2, A = (b[k].copy() for k in ("M", "x", "y", "R1", "R2", "A"))
    sc = max(1.0, float(np.abs(M).max()))

    def far(a, c, tol=1e-9, s=sc):
        a, c = np.asarray(a, dtype=float), np.asarray(c, dtype=float)
        return a.shape != c.shape or not np.all(np.isfinite(a)) or float(np.abs(a - c).max()) > tol * s

    try:
        C = T.voigt_to_elastic_tensor(M.copy())
        ref = np.empty((3, 3, 3, 3))
        for (p, q), i in VOIGT.items():
            for (r, s), j in VOIGT.items():
                ref[p, q, r, s] = M[i, j]
        if far(C, ref, 0.0):
            f.append("voigt_to_elastic_tensor does not follow the Voigt index map 11,22,33,23,13,12")
        if far(C, C.transpose(1, 0, 2, 3), 0.0) or far(C, C.transpose(0, 1, 3, 2), 0.0) or far(C, C.transpose(2, 3, 0, 1), 0.0):
            f.append("tensor of a symmetric Voigt matrix lacks a minor/major symmetry")
        d, v = T.voigt_decompose(M.copy())
        if far(d, np.einsum("ijkk->ij", C)) or far(v, np.einsum("ijkj->ik", C)):
            f.append("voigt_decompose is not the pair of contractions C_ijkk, C_ijkj")
        if far(T.elastic_tensor_to_voigt(C.copy()), M):
            f.append("elastic_tensor_to_voigt(voigt_to_elastic_tensor(M)) != M")
        if far(T.voigt_to_elastic_tensor(T.elastic_tensor_to_voigt(C.copy())), C):
            f.append("voigt_to_elastic_tensor(elastic_tensor_to_voigt(C)) != C")
        vec = T.voigt_matrix_to_vector(M.copy())
        if far(T.voigt_vector_to_matrix(vec.copy()), M):
            f.append("voigt_vector_to_matrix(voigt_matrix_to_vector(M)) != M")
        if far(T.voigt_matrix_to_vector(T.voigt_vector_to_matrix(x.copy())), x, s=max(1.0, np.abs(x).max())):
            f.append("voigt_matrix_to_vector(voigt_vector_to_matrix(x)) != x")
        if abs(np.linalg.norm(vec) - np.linalg.norm(C)) > 1e-9 * sc:
            f.append("norm of the 21-vector differs from the Frobenius norm of the 4th-order tensor")
        # rotation
        rot = T.rotate(C.copy(), R1.copy())
        if far(rot, np.einsum("ia,jb,kc,ld,abcd->ijkl", R1, R1, R1, R1, C)):
            f.append("rotate does not obey the tensor transformation law")
        if abs(np.linalg.norm(rot) - np.linalg.norm(C)) > 1e-9 * sc:
            f.append("rotate does not preserve the norm")
        if far(T.rotate(rot.copy(), R2.copy()), T.rotate(C.copy(), R2 @ R1)):
            f.append("rotate(rotate(C, R1), R2) != rotate(C, R2.R1)")
        if far(T.rotate(C.copy(), np.eye(3)), C):
            f.append("rotate(C, I) != C")
        # projectors
        P = [T.mono_project, T.ortho_project, T.tetr_project, T.hex_project]
        sx = max(1.0, float(np.abs(x).max()), float(np.abs(y).max()))
        for k, p in enumerate(P):
            px, py = p(x.copy()), p(y.copy())
            if far(p(px.copy()), px, s=sx):
                f.append(f"{p.__name__} is not idempotent")
            if abs(px @ y - x @ py) > 1e-9 * sx * sx:
                f.append(f"{p.__name__} is not self-adjoint")
            if far(p(2 * x - 3 * y), 2 * px - 3 * py, s=sx):
                f.append(f"{p.__name__} is not linear")
            if k and far(P[k - 1](px.copy()), px, s=sx):
                f.append(f"range of {p.__name__} is not inside the range of {P[k-1].__name__}")
        # polar decomposition: generic A and the special-family matrix B
        for nm, X in (("A", A), ("B", b.get("B"))):
            if X is None:
                continue
            R, Pm = T.polar_decompose(X.copy())
            sx_ = max(float(np.abs(X).max()), 1e-300)
            fl = G.polar_clauses(X / sx_, R, np.asarray(Pm) / sx_, True)
            if fl:
                f.append(f"left polar decomposition of {nm}: " + "; ".join(fl))
            cond = np.linalg.cond(X) if np.any(X) else np.inf
            if cond >= 1e6 and finding_fixed(KEY_POLAR_RIGHT):
                R, U = T.polar_decompose(X.copy(), False)
                fl = G.polar_clauses(X / sx_, R, np.asarray(U) / sx_, False, tol=1e-7)
                if fl:
                    f.append(f"right polar decomposition of the singular {nm}: " + "; ".join(fl))
            if cond < 1e6:                     # singular inputs of the right variant: finding KF_POLAR_RIGHT while open
                R, U = T.polar_decompose(X.copy(), False)
                fl = G.polar_clauses(X / sx_, R, np.asarray(U) / sx_, False, tol=1e-7, otol=max(1e-7, 1e-12 * cond ** 2))
                if fl:
                    f.append(f"right polar decomposition of {nm}: " + "; ".join(fl))
        sa = max(1.0, float(np.abs(A).max()))
        i1, i2, i3 = T.invariants_second_order(A.copy())
        ev = np.linalg.eigvals(A)
        e = (ev.sum(), ev[0] * ev[1] + ev[1] * ev[2] + ev[2] * ev[0], ev.prod())
        if max(abs(i1 - e[0]), abs(i2 - e[1]) / sa, abs(i3 - e[2]) / sa ** 2) > 1e-8 * sa:
            f.append("invariants differ from the elementary symmetric functions of the eigenvalues")
        f += oracle_presentations(T, b)
        f += oracle_magnitudes(T, b)
        f += oracle_purity(T, b)
    except Exception as e:  # noqa: BLE001
        f.append(f"a public function raised {type(e).__name__}: {e}")
    return f


def oracle_purity(T, b):
    """The maps of C11 are maps: they return their value and leave their argument alone.  Read on the SAME float64 objects
    (no defensive copies): the argument of every public function is unchanged by the call, and for the projectors the
    complement x - P(x) computed from the caller's x after the call obeys Pythagoras |Px|^2 + |x - Px|^2 = |x|^2 (an orthogonal
    projection; false when P zeroes x in place: seeded change C11f)."""
    import argguard
    f = []
    M, x, R1, A = (np.array(b[k], dtype=float) for k in ("M", "x", "R1", "A"))
    C = np.asarray(T.voigt_to_elastic_tensor(M.copy()), dtype=float)
    calls = [("voigt_to_elastic_tensor", T.voigt_to_elastic_tensor, [M.copy()]), ("elastic_tensor_to_voigt", T.elastic_tensor_to_voigt, [C.copy()]),
             ("voigt_matrix_to_vector", T.voigt_matrix_to_vector, [M.copy()]), ("voigt_vector_to_matrix", T.voigt_vector_to_matrix, [x.copy()]),
             ("voigt_decompose", T.voigt_decompose, [M.copy()]), ("rotate", T.rotate, [C.copy(), R1.copy()]),
             ("mono_project", T.mono_project, [x.copy()]), ("ortho_project", T.ortho_project, [x.copy()]),
             ("tetr_project", T.tetr_project, [x.copy()]), ("hex_project", T.hex_project, [x.copy()]),
             ("polar_decompose", T.polar_decompose, [A.copy()]), ("invariants_second_order", T.invariants_second_order, [A.copy()]),
             ("upper_tri_to_symmetric", T.upper_tri_to_symmetric, [np.triu(M)])]
    for name, fn, args in calls:
        try:
            _, faults = argguard.guarded(fn, args)
        except Exception:  # noqa: BLE001  (raising is judged by the other clauses)
            continue
        for ft in faults:
            f.append(f"{name} modified its argument in place: {ft}")
    n2 = float(x @ x)
    for p in (T.mono_project, T.ortho_project, T.tetr_project, T.hex_project):
        xx = x.copy()
        px = np.asarray(p(xx), dtype=float)
        comp = xx - px
        if abs(float(px @ px) + float(comp @ comp) - n2) > 1e-9 * max(1.0, n2):
            f.append(f"{p.__name__}: |Px|^2 + |x - Px|^2 != |x|^2 with x - Px formed from the caller's x after the call "
                     f"({float(px @ px):.6g} + {float(comp @ comp):.6g} vs {n2:.6g})")
    return f


def oracle_magnitudes(T, b):
    """C11 does not depend on the unit the numbers are expressed in: the same clauses on inputs scaled by 2^k (exact
    homogeneity: scaling by a power of two commutes with every floating-point operation) and on inputs with one entry of a
    very different magnitude (round trips entry by entry, relative)."""
    f = []
    if "mag" not in b:
        return f
    k, t, p1, p2 = (float(v) for v in b["mag"])
    sc = 2.0 ** int(k)
    M, x, R1 = b["M"].copy(), b["x"].copy(), b["R1"].copy()

    def rel(a, c, tol=1e-13):
        a, c = np.asarray(a, dtype=float), np.asarray(c, dtype=float)
        return a.shape == c.shape and bool(np.all(np.abs(a - c) <= tol * np.maximum(np.abs(a), np.abs(c))))

    C = T.voigt_to_elastic_tensor(M.copy())
    lin = [("voigt_to_elastic_tensor", T.voigt_to_elastic_tensor, M), ("elastic_tensor_to_voigt", T.elastic_tensor_to_voigt, C),
           ("voigt_matrix_to_vector", T.voigt_matrix_to_vector, M), ("voigt_vector_to_matrix", T.voigt_vector_to_matrix, x),
           ("mono_project", T.mono_project, x), ("ortho_project", T.ortho_project, x), ("tetr_project", T.tetr_project, x),
           ("hex_project", T.hex_project, x), ("rotate", lambda t_: T.rotate(t_, R1.copy()), C)]
    for name, fn, arg in lin:
        if not rel(fn(arg * sc), np.asarray(fn(arg.copy()), dtype=float) * sc):
            f.append(f"{name} is not homogeneous: f(2^{int(k)} x) != 2^{int(k)} f(x)")
    Cs = T.voigt_to_elastic_tensor(M * sc)
    if not rel(T.elastic_tensor_to_voigt(Cs.copy()), M * sc):
        f.append(f"elastic_tensor_to_voigt(voigt_to_elastic_tensor(M)) != M for M in units of 2^{int(k)}")
    vs = T.voigt_matrix_to_vector(M * sc)
    if abs(np.linalg.norm(vs) - np.linalg.norm(Cs)) > 1e-12 * np.linalg.norm(Cs):
        f.append(f"norm of the 21-vector differs from the Frobenius norm of the tensor for M in units of 2^{int(k)}")
    if not rel(T.voigt_vector_to_matrix(np.asarray(vs, dtype=float)), M * sc, 1e-12):
        f.append(f"voigt_vector_to_matrix(voigt_matrix_to_vector(M)) != M for M in units of 2^{int(k)}")
    # one entry of a very different magnitude
    i, j = sorted((int(p1) % 6, int(p2) % 6))
    Mm = M.copy()
    Mm[i, j] = Mm[j, i] = t
    if not rel(T.elastic_tensor_to_voigt(T.voigt_to_elastic_tensor(Mm.copy())), Mm):
        f.append(f"elastic_tensor_to_voigt(voigt_to_elastic_tensor(M)) != M when M[{i},{j}] = {t:g}")
    if not rel(T.voigt_vector_to_matrix(T.voigt_matrix_to_vector(Mm.copy())), Mm, 1e-12):
        f.append(f"voigt_vector_to_matrix(voigt_matrix_to_vector(M)) != M when M[{i},{j}] = {t:g}")
    xm = x.copy()
    xm[int(p1)] = t
    if not rel(T.voigt_matrix_to_vector(T.voigt_vector_to_matrix(xm.copy())), xm, 1e-12):
        f.append(f"voigt_matrix_to_vector(voigt_vector_to_matrix(x)) != x when x[{int(p1)}] = {t:g}")
    for p in (T.mono_project, T.ortho_project):
        px = np.asarray(p(xm.copy()), dtype=float)
        if not rel(p(px.copy()), px):
            f.append(f"{p.__name__} is not idempotent when x[{int(p1)}] = {t:g}")
    return f


def oracle_presentations(T, b):
    """C11 read on other presentations (dtype / memory layout / container) of the SAME numbers: the index map, the
    round trips, the transformation law, norm preservation and the projector laws do not depend on how the array is
    stored.  A presentation numba has no typing for may be refused (an exception of G.REFUSAL); a value is never wrong."""
    f = []
    if "Mi" not in b:
        return f
    Mi, xi, Ti, Ri, R1 = (np.array(b[k], dtype=float) for k in ("Mi", "xi", "Ti", "Ri", "R1"))

    def far(a, c, tol=1e-9, s=1.0):
        a, c = np.asarray(a, dtype=float), np.asarray(c, dtype=float)
        return a.shape != c.shape or not np.all(np.isfinite(a)) or float(np.abs(a - c).max()) > tol * s

    def attempt(kind, what, thunk):
        try:
            return thunk()
        except Exception as e:  # noqa: BLE001
            if type(e).__name__ in G.REFUSAL and kind in G.PRES_INTEGER + ("list",):
                return None
            f.append(f"{what} raised {type(e).__name__} for the {kind} presentation")
            return None

    sm, sx, st = max(1.0, np.abs(Mi).max()), max(1.0, np.abs(xi).max()), max(1.0, np.abs(Ti).max())
    ref = np.empty((3, 3, 3, 3))
    for (p, q), i in VOIGT.items():
        for (r, s), j in VOIGT.items():
            ref[p, q, r, s] = Mi[i, j]
    law_h = np.einsum("ia,jb,kc,ld,abcd->ijkl", R1, R1, R1, R1, ref)
    law_t = np.einsum("ia,jb,kc,ld,abcd->ijkl", R1, R1, R1, R1, Ti)
    law_i = np.einsum("ia,jb,kc,ld,abcd->ijkl", Ri, Ri, Ri, Ri, Ti)
    vec64 = np.asarray(T.voigt_matrix_to_vector(Mi.copy()), dtype=float)
    P = [T.mono_project, T.ortho_project, T.tetr_project, T.hex_project]
    for kind in G.PRES_KINDS:
        tol = 1e-5 if kind == "float32" else 1e-9
        Mp = G.present(Mi, kind)
        C = attempt(kind, "voigt_to_elastic_tensor", lambda: T.voigt_to_elastic_tensor(Mp))
        if C is not None:
            if far(C, ref, 0.0):
                f.append(f"voigt_to_elastic_tensor of the {kind} presentation does not follow the Voigt index map")
            back = attempt(kind, "elastic_tensor_to_voigt", lambda: T.elastic_tensor_to_voigt(C))
            if back is not None and far(back, Mi, tol, sm):
                f.append(f"elastic_tensor_to_voigt(voigt_to_elastic_tensor(M)) != M for the {kind} presentation")
            rot = attempt(kind, "rotate", lambda: T.rotate(C, R1.copy()))
            if rot is not None:
                if far(rot, law_h, tol, sm):
                    f.append(f"rotate(voigt_to_elastic_tensor(M), R) does not obey the transformation law when M is given as {kind}")
                elif abs(np.linalg.norm(rot) - np.linalg.norm(ref)) > max(tol, 1e-9) * sm * 9:
                    f.append(f"rotate does not preserve the norm when M is given as {kind}")
        Tp = G.present(Ti, kind)
        rot = attempt(kind, "rotate", lambda: T.rotate(Tp, R1.copy()))
        if rot is not None and far(rot, law_t, tol, st):
            f.append(f"rotate does not obey the transformation law for a {kind} tensor")
        rot = attempt(kind, "rotate", lambda: T.rotate(G.present(Ti, kind), G.present(Ri, kind)))
        if rot is not None and far(rot, law_i, tol, st * 16):
            f.append(f"rotate does not obey the transformation law for a {kind} tensor and a {kind} matrix")
        ev = attempt(kind, "elastic_tensor_to_voigt", lambda: T.elastic_tensor_to_voigt(Tp))
        if ev is not None and far(ev, T.elastic_tensor_to_voigt(Ti.copy()), tol, st):
            f.append(f"elastic_tensor_to_voigt depends on the presentation ({kind}) of the same tensor")
        vec = attempt(kind, "voigt_matrix_to_vector", lambda: T.voigt_matrix_to_vector(Mp))
        if vec is not None:
            if abs(np.linalg.norm(vec) - np.linalg.norm(ref)) > max(tol, 1e-9) * sm * 9:
                f.append(f"norm of the 21-vector of the {kind} presentation differs from the Frobenius norm of the tensor")
            if far(T.voigt_vector_to_matrix(np.asarray(vec, dtype=float)), Mi, tol, sm):
                f.append(f"voigt_vector_to_matrix(voigt_matrix_to_vector(M)) != M for the {kind} presentation")
        xp = G.present(xi, kind)
        m6 = attempt(kind, "voigt_vector_to_matrix", lambda: T.voigt_vector_to_matrix(xp))
        if m6 is not None and far(T.voigt_matrix_to_vector(np.asarray(m6, dtype=float)), xi, tol, sx):
            f.append(f"voigt_matrix_to_vector(voigt_vector_to_matrix(x)) != x for the {kind} presentation")
        dv = attempt(kind, "voigt_decompose", lambda: T.voigt_decompose(Mp))
        if dv is not None and (far(dv[0], np.einsum("ijkk->ij", ref), tol, sm) or far(dv[1], np.einsum("ijkj->ik", ref), tol, sm)):
            f.append(f"voigt_decompose of the {kind} presentation is not the pair of contractions")
        for k, p in enumerate(P):
            if p is T.tetr_project and kind in G.PRES_INTEGER and not finding_fixed(KEY_TETR_INT):
                continue                        # finding KF_TETR_INT while open (reported by the correspondence while it reproduces)
            px = attempt(kind, p.__name__, lambda: p(G.present(xi, kind)))
            if px is None:
                continue
            px = np.asarray(px, dtype=float)
            if far(px, p(xi.copy()), tol, sx):
                f.append(f"{p.__name__} depends on the presentation ({kind}) of the same vector")
            elif far(p(px.copy()), px, tol, sx):
                f.append(f"{p.__name__} is not idempotent on the {kind} presentation")
    return f


def search(chk, T, n=60):
    """structured sweep: one bundle per polar family (so that exactly symmetric indefinite / singular / reflection
    inputs are always tried), then random bundles"""
    rng = np.random.default_rng(chk.seed + 1)
    found, seen = [], set()
    plan = list(G.POLAR_FAMILIES) + [None] * n
    for fam in plan:
        b = bundle(rng, fam)
        fails = oracle(T, b)
        new = [m for m in fails if m not in seen]
        if new:
            seen.update(new)
            found.append((b, fails))
            if len(found) >= 3:
                break
    return found


def run(chk):
    ok, br = proofs.prove(chk, FILES, PROP, groups=(G.GROUP,), gen_modules=("tensors",))
    import pydrex.tensors as T
    chk.cov["trusted_base"] = common.TRUSTED_COMMON + [
        "every kernel of pydrex.tensors is the generated Gen_tensors.k_* (tie T); ndarray.sum() of a slice was added to the proxy (SArr.sum)",
        "rotate is run in its loop form Model_voigt.rotate4 (the unrolled generated k_rotate cannot be compiled by ocamlopt); "
        "Inst_tensors.rotate4_is_k_rotate (kernel-checked, all 81 components) ties it to the generated k_rotate",
        "polar_decompose: Gen_polar.k_polar_decompose_left/right are regenerated from the source over the SVD oracle (tie T; the translator checks that "
        "np.linalg.svd is applied to the argument, at most once; np.linalg.inv = adjugate/det, LinAlgError = ValueError; 3x3 `@`, np.diag, transpose, astype(float64) "
        "added in specs_tensors.TArr/PolarProxy) and equated with Model_decomp.polar_left/right by Inst_polar.polar_left_inst/polar_right_inst; oracle hypotheses "
        "U^T U = U U^T = I, Vh Vh^T = Vh^T Vh = I, S >= 0, M = U diag(S) Vh residual-checked on the SVD the interpreted source really received (recorded)",
    ]
    chk.cov["rule"] = ("polar_decompose: both variants over 19 input families (exactly symmetric indefinite / negative definite / PSD-singular, rank 2 / 1 / 0, "
                       "reflections, +-I, repeated singular values, near-symmetric, 1e-9 / 1e9 scales): interpreted source with np.linalg.svd recorded vs extracted generated code, "
                       "compiled vs interpreted, and the clauses of the polar theorem (orthogonal, symmetric, POSITIVE SEMI-DEFINITE, product) on the compiled result; "
                       "presentations: every kernel on integer-valued inputs as int64 / int32 / float32 / Fortran order / strided / negative strides / read-only / nested list "
                       "(value = model's value on the same numbers, or a loud refusal); "
                       "magnitudes: every kernel on integer-valued inputs scaled by 2^k, k = -60 .. 60 (implementation vs model relative to the input scale -- no absolute floor -- and "
                       "exact homogeneity f(2^k x) = 2^(k deg) f(x)), and on generic inputs with one entry of 3e-11 / 2^-40 / 1e-15 / 1e-30 / 1e12 (copy-like kernels entry by entry relative); "
                       "per public function of pydrex.tensors (13 kernels incl. both shapes of upper_tri_to_symmetric): seeded random "
                       "inputs -- full (triclinic) symmetric 6x6, non-symmetric 6x6, sparse-with-exact-zeros, SPD, the two built-in tensors; 4th-order tensors "
                       "with and without symmetries; Haar rotations and general matrices; 21-vectors; compiled implementation vs extracted generated code at 1e-11 "
                       "(polar: 1e-10, right variant scaled by cond^2); distinct = distinct (entry, input bytes); non-trivial = result not identically zero")
    bad = []
    if br.drivers.get(G.GROUP, 1) is None:
        rng = np.random.default_rng(chk.seed)
        n = 140 if chk.tier == "quick" else 4000
        for name, (gen, fn) in G.entries(T).items():
            bad += G.compare_entry(chk, name, gen, fn, n, rng)
        # polar_decompose: every input family, generated code on the recorded SVD, clauses incl. PSD
        pb, pk = G.compare_polar(chk, T, 6 if chk.tier == "quick" else 150, np.random.default_rng(chk.seed + 2),
                                 right_singular_open=not finding_fixed(KEY_POLAR_RIGHT))
        bad += pb
        if pk:
            nm, fam, detail, m = pk[0]
            chk.cov["known_polar_right_singular"] = len(pk)
            chk.known_finding(f"{KF_POLAR_RIGHT}; reproduced on {len(pk)} singular inputs, e.g. family {fam}, "
                              f"M = {np.asarray(m).tolist()}: {detail}")
        # dtype / layout / container presentations of integer-valued inputs
        qb, qk = G.compare_presentations(chk, T, 2 if chk.tier == "quick" else 40, np.random.default_rng(chk.seed + 3),
                                         tetr_open=not finding_fixed(KEY_TETR_INT))
        bad += qb
        if qk:
            chk.cov["known_tetr_integer_dtype"] = len(qk)
            chk.known_finding(f"{KF_TETR_INT}; reproduced on {len(qk)} calls, e.g. {qk[0][1]}: {qk[0][2]}")
        # magnitudes: inputs scaled by 2^k (k = -60 .. 60) and inputs with one entry of a very different magnitude
        bad += G.compare_magnitudes(chk, T, 2 if chk.tier == "quick" else 40, np.random.default_rng(chk.seed + 4))
        chk.cov["traces_validated_against_impl"] = chk.cov["evaluations"]
    chk.cov["disagreements"] = len(bad)
    if ok and not bad:
        return
    found = search(chk, T)
    if found:
        for b, fails in found:
            chk.replay({"kind": "property-violation", "call": "pydrex.tensors (public API)", "input": encode(b),
                        "observed": fails, "required": "C11 (see properties.jsonl)",
                        "broken": chk.cov.get("broken_obligations", []),
                        "disagreements": [f"{n}: {m}" for n, _, m in bad[:3]]})
    else:
        chk.replay({"kind": "unproved", "broken": chk.cov.get("broken_obligations", []),
                    "disagreements": [{"entry": n, "input": [hx(v) for v in c["x"]], "detail": m} for n, c, m in bad[:3]],
                    "note": "proof obligation or correspondence no longer checks; no failing input found by the search"},
                   no_input=True)


def replay(d):
    common.use_repo_source()
    import pydrex.tensors as T
    if d.get("kind") != "property-violation":
        print("replay file names a broken obligation; re-run the check itself")
        return 1
    fails = oracle(T, decode(d["input"]))
    for f in fails:
        print("still fails:", f)
    return 1 if fails else 0
