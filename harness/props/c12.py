"""C12 -- elastic symmetry decomposition is correct and frame-independent."""
from __future__ import annotations

import numpy as np

import common
import proofs
import gen_tensors as G
from common import hx

FILES = ["gen/Gen_tensors.v", "Model_voigt.v", "Model_decomp.v", "Proofs_tensors_alg.v"] + \
        [f"Proofs_tensors_rot{i}.v" for i in range(9)] + \
        ["Proofs_tensors_rot.v", "Proofs_tensors_maps.v", "Proofs_tensors_proj.v", "Inst_tensors.v",
         "Proofs_decomp.v", "Proofs_decomp2.v", "Proofs_decomp3.v", "Entry_tensors.v", "Extract_tensors.v"]
PROP = "Properties/C12.v"
KEYS = ["bulk_modulus", "shear_modulus", "percent_anisotropy", "percent_hexagonal", "percent_tetragonal",
        "percent_orthorhombic", "percent_monoclinic", "percent_triclinic"]


def rot6(T, M, R):
    return T.elastic_tensor_to_voigt(T.rotate(T.voigt_to_elastic_tensor(np.array(M)), np.array(R)))


def gaps(T, M):
    """smallest relative eigenvalue gap of the two contractions (conditioning of the symmetry axes)"""
    d, v = T.voigt_decompose(np.array(M))
    g = []
    for s in (d, v):
        w = np.linalg.eigvalsh(s)
        g.append(np.min(np.diff(w)) / max(1e-300, np.abs(w).max()))
    return min(g)


def gen_case(T, rng, k):
    kind = ["olivine", "enstatite", "ortho", "ortho", "texture", "texture"][k % 6]
    if kind == "olivine":
        M0 = G.OLIVINE.copy()
    elif kind == "enstatite":
        M0 = G.ENSTATITE.copy()
    elif kind == "ortho":
        M0 = G.ortho_stiffness(rng)
    else:
        # Voigt average of a random texture of rotated olivine / enstatite grains
        n = int(rng.integers(2, 12))
        w = rng.dirichlet(np.ones(n))
        base = G.OLIVINE if rng.random() < 0.7 else G.ENSTATITE
        M0 = sum(wi * rot6(T, base, G.haar(rng) if rng.random() < 0.8 else
                           (lambda q: np.linalg.qr(np.eye(3) + 0.2 * rng.normal(size=(3, 3)))[0])(0)) for wi in w)
        M0 = (M0 + M0.T) / 2
    R = np.eye(3) if (k % 12) < 2 else G.haar(rng)
    return dict(kind=kind, M0=M0, R=R, M=rot6(T, M0, R) if not np.array_equal(R, np.eye(3)) else M0.copy())


def run_impl(D, M):
    """elasticity_components on one matrix, recording the eigh oracle outputs"""
    rec = []
    orig = D.la.eigh

    def eigh(a, *args, **kw):
        w, v = orig(a, *args, **kw)
        a = np.asarray(a, dtype=float)
        res = max(np.abs(v.T @ v - np.eye(3)).max(), np.abs(a @ v - v * w).max() / max(1.0, np.abs(a).max()),
                  max(0.0, float(-np.min(np.diff(w)))))
        rec.append((np.array(v), res))
        return w, v

    D.la.eigh = eigh
    try:
        out = D.elasticity_components(np.array(M)[None])
    except Exception as e:  # noqa: BLE001
        return ("ERR", common.exc_code(e), str(e)), rec
    finally:
        D.la.eigh = orig
    flat = [float(out[k][0]) for k in KEYS] + [float(x) for x in out["hexagonal_axis"][0]]
    return ("OK", np.array(flat)), rec


def oracle(T, D, c):
    """Direct reading of C12 on pydrex.diagnostics.elasticity_components; list of failures."""
    f = []
    r0, _ = run_impl(D, c["M0"])
    r1, _ = run_impl(D, c["M"])
    if r0[0] == "ERR" or r1[0] == "ERR":
        return [f"elasticity_components raised: {(r0 if r0[0] == 'ERR' else r1)[1:]}"]
    a0, a1 = r0[1], r1[1]
    M = c["M"]
    K = M[:3, :3].sum() / 9
    Gm = (M[0, 0] + M[1, 1] + M[2, 2] + 2 * (M[3, 3] + M[4, 4] + M[5, 5]) - 3 * K) / 10
    if abs(a1[0] - K) > 1e-9 * max(1, abs(K)) or abs(a1[1] - Gm) > 1e-9 * max(1, abs(K)):
        f.append(f"bulk/shear modulus ({a1[0]:.9g}, {a1[1]:.9g}) differ from the Voigt invariants ({K:.9g}, {Gm:.9g})")
    x = T.voigt_matrix_to_vector(np.array(M))
    iso = T.voigt_matrix_to_vector(np.array(
        [[K + 4 * Gm / 3, K - 2 * Gm / 3, K - 2 * Gm / 3, 0, 0, 0], [K - 2 * Gm / 3, K + 4 * Gm / 3, K - 2 * Gm / 3, 0, 0, 0],
         [K - 2 * Gm / 3, K - 2 * Gm / 3, K + 4 * Gm / 3, 0, 0, 0], [0, 0, 0, Gm, 0, 0], [0, 0, 0, 0, Gm, 0], [0, 0, 0, 0, 0, Gm]]))
    an = np.linalg.norm(x - iso) / np.linalg.norm(x) * 100
    if not (0 <= a1[2] <= 100) or abs(a1[2] - an) > 1e-7:
        f.append(f"percent anisotropy {a1[2]:.9g} is not the norm distance to the isotropic tensor ({an:.9g}) within [0,100]")
    if gaps(T, c["M0"]) > 1e-3:
        if np.abs(a1[:8] - a0[:8]).max() > 1e-6 * max(1.0, abs(a0[0])):
            k = int(np.abs(a1[:8] - a0[:8]).argmax())
            f.append(f"{KEYS[k]} changes under a change of frame: {a0[k]:.9g} -> {a1[k]:.9g}")
        ax0, ax1 = a0[8:], a1[8:]
        if abs(np.linalg.norm(ax1) - 1) > 1e-9:
            f.append("hexagonal axis is not a unit vector")
        if min(np.abs(c["R"] @ ax0 - ax1).max(), np.abs(c["R"] @ ax0 + ax1).max()) > 1e-6:
            f.append("hexagonal axis does not co-rotate with the frame (up to sign)")
    if c["kind"] in ("olivine", "enstatite", "ortho"):
        if a1[6] > 1e-6 or a1[7] > 1e-6:
            f.append(f"rotated orthorhombic tensor has monoclinic/triclinic parts {a1[6]:.3e}, {a1[7]:.3e}")
        # (only claimed for orthorhombic tensors: for a general tensor the averaged SCCS axes are
        #  not mutually orthogonal, so the "rotation" is not orthogonal and Pythagoras does not apply)
        if abs(np.sum(a1[3:8] ** 2) - a1[2] ** 2) > 1e-6 * max(1.0, a1[2] ** 2):
            f.append("squared percentages of the symmetry classes do not add up to the squared percent anisotropy")
    return f


def encode(c):
    return {"kind": c["kind"], "M0": [hx(v) for v in c["M0"].reshape(-1)], "R": [hx(v) for v in c["R"].reshape(-1)],
            "M": [hx(v) for v in c["M"].reshape(-1)]}


def decode(d):
    u = common.unhx
    return dict(kind=d["kind"], M0=np.array([u(v) for v in d["M0"]]).reshape(6, 6),
                R=np.array([u(v) for v in d["R"]]).reshape(3, 3), M=np.array([u(v) for v in d["M"]]).reshape(6, 6))


def compare(chk, T, D, cases):
    runs = [run_impl(D, c["M"]) for c in cases]
    lines, idx = [], []
    for k, (c, (r, rec)) in enumerate(zip(cases, runs)):
        if r[0] == "OK" and len(rec) == 2:
            lines.append(common.model_line("decomp", [], np.concatenate([c["M"].reshape(-1), rec[0][0].reshape(-1), rec[1][0].reshape(-1)])))
            idx.append(k)
    mres = common.run_model(lines, group=G.GROUP) if lines else []
    bad = []
    hist = chk.cov.setdefault("histogram", {})
    gh = chk.cov.setdefault("gap_histogram", {})
    mi = dict(zip(idx, mres))
    for k, (c, (r, rec)) in enumerate(zip(cases, runs)):
        hist[c["kind"]] = hist.get(c["kind"], 0) + 1
        g = gaps(T, c["M0"])
        gk = "gap<1e-3" if g < 1e-3 else ("gap<1e-2" if g < 1e-2 else "gap>=1e-2")
        gh[gk] = gh.get(gk, 0) + 1
        m = mi.get(k)
        chk.note_case(("decomp", c["M"].tobytes()), nontrivial=(r[0] == "OK"),
                      sample={"kind": c["kind"], "impl": r[1] if r[0] == "ERR" else [float(v) for v in r[1][:8]],
                              "model": None if m is None else (m[1] if m[0] == "ERR" else [float(v) for v in m[1][:8]])})
        if r[0] == "ERR" or m is None:
            bad.append((c, f"implementation raised / made {len(rec)} eigh calls: {r[1:] if r[0] == 'ERR' else ''}"))
            continue
        for (_, res) in rec:
            if res > 1e-10:
                bad.append((c, f"eigh oracle hypothesis residual {res:.3e}"))
        if m[0] == "ERR":
            if m[1] == "NonFinite":
                chk.cov["uninitialised_outputs"] = chk.cov.get("uninitialised_outputs", 0) + 1
            else:
                bad.append((c, f"model: {m[:2]}"))
            continue
        okc, j = common.vec_close(list(r[1]), m[1], rtol=1e-9, atol=1e-7)
        if not okc:
            bad.append((c, f"output {j}: implementation {r[1][j]!r} vs model {m[1][j]!r}"))
    return bad


def gen_cases(T, chk):
    rng = np.random.default_rng(chk.seed)
    n = 300 if chk.tier == "quick" else 6000
    return [gen_case(T, rng, k) for k in range(n)]


def search(chk, T, D, extra=()):
    rng = np.random.default_rng(chk.seed + 1)
    pool = list(extra) + [gen_case(T, rng, k) for k in range(48)]
    found, seen = [], set()
    for c in pool:
        fails = oracle(T, D, c)
        new = [m.split("(")[0][:50] for m in fails if m.split("(")[0][:50] not in seen]
        if new:
            seen.update(new)
            found.append((c, fails))
            if len(found) >= 3:
                break
    return found


def run(chk):
    ok, br = proofs.prove(chk, FILES, PROP, groups=(G.GROUP,), gen_modules=("tensors",))
    import pydrex.tensors as T
    import pydrex.diagnostics as D
    chk.cov["trusted_base"] = common.TRUSTED_COMMON + [
        "hand-written Model_decomp.elasticity_components1 (K, G, isotropic vector, percent anisotropy, eigenvector pairing with the signed-index trick, "
        "three cyclic permutations with strict-< selection, nested projections); tied by this differential run on the recorded eigh outputs",
        "scipy.linalg.eigh is an oracle: orthonormal columns, S v = lambda v, ascending eigenvalues are residual-checked on every call",
        "PROVED (Proofs_decomp2/3), for rotated orthorhombic tensors with distinct principal values of both contractions: sccs_is_R, mono = tric = 0, "
        "the candidate distances depend only on the axis put third (candidate_distance), the strict-< loop selects the strict minimum, hence "
        "hex_axis_corotates (axis of the rotated run = +- R . axis of the unrotated run) and equality of all eight reported numbers in both frames "
        "under the property's no-tie exclusion (strict minimum among the three candidate distances of the unrotated tensor); the sum rule on the whole function. "
        "OPEN (carried by the run-time comparison): frame independence of all percentages for non-orthorhombic tensors",
    ]
    chk.cov["rule"] = ("tensors = the two built-in single-crystal tensors, random positive-definite orthorhombic tensors, Voigt averages of random 2-11 grain textures; each in the "
                       "unrotated and in a Haar-rotated frame; implementation vs extracted model on the recorded eigh outputs at 1e-9 (+1e-7 abs on percentages); "
                       "eigenvalue gaps of both contractions are measured and reported (gap_histogram)")
    bad = []
    cases = []
    if br.drivers.get(G.GROUP, 1) is None:
        cases = gen_cases(T, chk)
        bad = compare(chk, T, D, cases)
        chk.cov["traces_validated_against_impl"] = len(cases)
    chk.cov["disagreements"] = len(bad)
    if ok and not bad:
        return
    found = search(chk, T, D, extra=[c for c, _ in bad[:10]])
    if found:
        for c, fails in found:
            chk.replay({"kind": "property-violation", "call": "pydrex.diagnostics.elasticity_components", "input": encode(c),
                        "observed": fails, "required": "C12 (see properties.jsonl)",
                        "broken": chk.cov.get("broken_obligations", []), "disagreements": [m for _, m in bad[:3]]})
    else:
        chk.replay({"kind": "unproved", "broken": chk.cov.get("broken_obligations", []),
                    "disagreements": [{"input": encode(c), "detail": m} for c, m in bad[:3]],
                    "note": "proof obligation or correspondence no longer checks; no failing input found by the search"},
                   no_input=True)


def replay(d):
    common.use_repo_source()
    import pydrex.tensors as T
    import pydrex.diagnostics as D
    if d.get("kind") != "property-violation":
        print("replay file names a broken obligation; re-run the check itself")
        return 1
    fails = oracle(T, D, decode(d["input"]))
    for f in fails:
        print("still fails:", f)
    return 1 if fails else 0
