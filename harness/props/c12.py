"""C12 -- elastic symmetry decomposition is correct and frame-independent."""
from __future__ import annotations

import contextlib
import re
import warnings

import numpy as np

import common
import proofs
import gen_tensors as G
from common import hx

FILES = ["gen/Gen_tensors.v", "Model_voigt.v", "Model_decomp.v", "Proofs_tensors_alg.v"] + \
        [f"Proofs_tensors_rot{i}.v" for i in range(9)] + \
        ["Proofs_tensors_rot.v", "Proofs_tensors_maps.v", "Proofs_tensors_proj.v", "Inst_tensors.v",
         "Proofs_decomp.v", "Proofs_decomp2.v", "Proofs_decomp3.v", "Proofs_decomp4.v", "Proofs_decomp5.v",
         "Model_decomp_series.v", "Proofs_decomp_series.v",
         # tie T for elasticity_components itself: regenerated from pydrex/diagnostics.py on every run
         "gen/Gen_decomp.v", "Inst_decomp_base.v", "Inst_decomp_seg0.v", "Inst_decomp_seg1.v", "Inst_decomp_seg2.v",
         "Inst_decomp.v", "Proofs_decomp_gen.v",
         "Entry_tensors.v", "Extract_tensors.v"]
PROP = "Properties/C12.v"
KEYS = ["bulk_modulus", "shear_modulus", "percent_anisotropy", "percent_hexagonal", "percent_tetragonal",
        "percent_orthorhombic", "percent_monoclinic", "percent_triclinic"]


def rot6(T, M, R):
    return T.elastic_tensor_to_voigt(T.rotate(T.voigt_to_elastic_tensor(np.array(M)), np.array(R)))


def gaps(T, M):
    """smallest relative eigenvalue gap of the two contractions (conditioning of the symmetry axes)"""
    d, v = T.voigt_decompose(np.array(M))
    g = []
    for s in (d, v):
        w = np.linalg.eigvalsh(s)
        g.append(np.min(np.diff(w)) / max(1e-300, np.abs(w).max()))
    return min(g)


def gen_case(T, rng, k):
    kind = ["olivine", "enstatite", "ortho", "ortho", "texture", "texture"][k % 6]
    if kind == "olivine":
        M0 = G.OLIVINE.copy()
    elif kind == "enstatite":
        M0 = G.ENSTATITE.copy()
    elif kind == "ortho":
        M0 = G.ortho_stiffness(rng)
    else:
        # Voigt average of a random texture of rotated olivine / enstatite grains
        n = int(rng.integers(2, 12))
        w = rng.dirichlet(np.ones(n))
        base = G.OLIVINE if rng.random() < 0.7 else G.ENSTATITE
        M0 = sum(wi * rot6(T, base, G.haar(rng) if rng.random() < 0.8 else
                           (lambda q: np.linalg.qr(np.eye(3) + 0.2 * rng.normal(size=(3, 3)))[0])(0)) for wi in w)
        M0 = (M0 + M0.T) / 2
    R = np.eye(3) if (k % 12) < 2 else G.haar(rng)
    return dict(kind=kind, M0=M0, R=R, M=rot6(T, M0, R) if not np.array_equal(R, np.eye(3)) else M0.copy())


def run_impl(D, M):
    """elasticity_components on one matrix, recording the eigh oracle outputs"""
    rec = []
    orig = D.la.eigh

    def eigh(a, *args, **kw):
        w, v = orig(a, *args, **kw)
        a = np.asarray(a, dtype=float)
        res = max(np.abs(v.T @ v - np.eye(3)).max(), np.abs(a @ v - v * w).max() / max(1.0, np.abs(a).max()),
                  max(0.0, float(-np.min(np.diff(w)))))
        rec.append((np.array(v), res))
        return w, v

    D.la.eigh = eigh
    try:
        # a member presented as a nested Python list is handed over as such (numba refuses it, loudly)
        out = D.elasticity_components([M] if isinstance(M, list) else np.array(M)[None])
    except Exception as e:  # noqa: BLE001
        return ("ERR", common.exc_code(e), str(e)), rec
    finally:
        D.la.eigh = orig
    flat = [float(out[k][0]) for k in KEYS] + [float(x) for x in out["hexagonal_axis"][0]]
    return ("OK", np.array(flat)), rec


def entry_checks(T, c, a0, a1):
    """Direct reading of C12 for one tensor: a1 = the 11 numbers reported for c["M"], a0 = those reported
    for the same tensor in its unrotated frame c["M0"]; list of failures."""
    f = []
    M = c["M"]
    K = M[:3, :3].sum() / 9
    Gm = (M[0, 0] + M[1, 1] + M[2, 2] + 2 * (M[3, 3] + M[4, 4] + M[5, 5]) - 3 * K) / 10
    if abs(a1[0] - K) > 1e-9 * max(1, abs(K)) or abs(a1[1] - Gm) > 1e-9 * max(1, abs(K)):
        f.append(f"bulk/shear modulus ({a1[0]:.9g}, {a1[1]:.9g}) differ from the Voigt invariants ({K:.9g}, {Gm:.9g})")
    x = T.voigt_matrix_to_vector(np.array(M))
    iso = T.voigt_matrix_to_vector(np.array(
        [[K + 4 * Gm / 3, K - 2 * Gm / 3, K - 2 * Gm / 3, 0, 0, 0], [K - 2 * Gm / 3, K + 4 * Gm / 3, K - 2 * Gm / 3, 0, 0, 0],
         [K - 2 * Gm / 3, K - 2 * Gm / 3, K + 4 * Gm / 3, 0, 0, 0], [0, 0, 0, Gm, 0, 0], [0, 0, 0, 0, Gm, 0], [0, 0, 0, 0, 0, Gm]]))
    an = np.linalg.norm(x - iso) / np.linalg.norm(x) * 100
    if not (0 <= a1[2] <= 100) or abs(a1[2] - an) > 1e-7:
        f.append(f"percent anisotropy {a1[2]:.9g} is not the norm distance to the isotropic tensor ({an:.9g}) within [0,100]")
    if gaps(T, c["M0"]) > 1e-3:
        if np.abs(a1[:8] - a0[:8]).max() > 1e-6 * max(1.0, abs(a0[0])):
            k = int(np.abs(a1[:8] - a0[:8]).argmax())
            f.append(f"{KEYS[k]} changes under a change of frame: {a0[k]:.9g} -> {a1[k]:.9g}")
        ax0, ax1 = a0[8:], a1[8:]
        if abs(np.linalg.norm(ax1) - 1) > 1e-9:
            f.append("hexagonal axis is not a unit vector")
        if min(np.abs(c["R"] @ ax0 - ax1).max(), np.abs(c["R"] @ ax0 + ax1).max()) > 1e-6:
            f.append("hexagonal axis does not co-rotate with the frame (up to sign)")
    if c["kind"] in ("olivine", "enstatite", "ortho"):
        if a1[6] > 1e-6 or a1[7] > 1e-6:
            f.append(f"rotated orthorhombic tensor has monoclinic/triclinic parts {a1[6]:.3e}, {a1[7]:.3e}")
        # (only claimed for orthorhombic tensors: for a general tensor the averaged SCCS axes are
        #  not mutually orthogonal, so the "rotation" is not orthogonal and Pythagoras does not apply)
        if abs(np.sum(a1[3:8] ** 2) - a1[2] ** 2) > 1e-6 * max(1.0, a1[2] ** 2):
            f.append("squared percentages of the symmetry classes do not add up to the squared percent anisotropy")
    return f


def oracle(T, D, c):
    """Direct reading of C12 on pydrex.diagnostics.elasticity_components (one matrix per call); list of failures."""
    r0, _ = run_impl(D, c["M0"])
    r1, _ = run_impl(D, c["M"])
    if r0[0] == "ERR" or r1[0] == "ERR":
        return [f"elasticity_components raised: {(r0 if r0[0] == 'ERR' else r1)[1:]}"]
    return entry_checks(T, c, r0[1], r1[1])


def encode(c):
    return {"kind": c["kind"], "M0": [hx(v) for v in c["M0"].reshape(-1)], "R": [hx(v) for v in c["R"].reshape(-1)],
            "M": [hx(v) for v in c["M"].reshape(-1)]}


def decode(d):
    u = common.unhx
    return dict(kind=d["kind"], M0=np.array([u(v) for v in d["M0"]]).reshape(6, 6),
                R=np.array([u(v) for v in d["R"]]).reshape(3, 3), M=np.array([u(v) for v in d["M"]]).reshape(6, 6))


def compare(chk, T, D, cases):
    runs = [run_impl(D, c["M"]) for c in cases]
    lines, idx = [], []
    for k, (c, (r, rec)) in enumerate(zip(cases, runs)):
        if r[0] == "OK" and len(rec) == 2:
            lines.append(common.model_line("decomp", [], np.concatenate([c["M"].reshape(-1), rec[0][0].reshape(-1), rec[1][0].reshape(-1)])))
            idx.append(k)
    mres = common.run_model(lines, group=G.GROUP) if lines else []
    bad = []
    hist = chk.cov.setdefault("histogram", {})
    gh = chk.cov.setdefault("gap_histogram", {})
    mi = dict(zip(idx, mres))
    for k, (c, (r, rec)) in enumerate(zip(cases, runs)):
        hist[c["kind"]] = hist.get(c["kind"], 0) + 1
        g = gaps(T, c["M0"])
        gk = "gap<1e-3" if g < 1e-3 else ("gap<1e-2" if g < 1e-2 else "gap>=1e-2")
        gh[gk] = gh.get(gk, 0) + 1
        m = mi.get(k)
        chk.note_case(("decomp", c["M"].tobytes()), nontrivial=(r[0] == "OK"),
                      sample={"kind": c["kind"], "impl": r[1] if r[0] == "ERR" else [float(v) for v in r[1][:8]],
                              "model": None if m is None else (m[1] if m[0] == "ERR" else [float(v) for v in m[1][:8]])})
        if r[0] == "ERR" or m is None:
            bad.append((c, f"implementation raised / made {len(rec)} eigh calls: {r[1:] if r[0] == 'ERR' else ''}"))
            continue
        for (_, res) in rec:
            if res > 1e-10:
                bad.append((c, f"eigh oracle hypothesis residual {res:.3e}"))
        if m[0] == "ERR":
            if m[1] == "NonFinite":
                chk.cov["uninitialised_outputs"] = chk.cov.get("uninitialised_outputs", 0) + 1
            else:
                bad.append((c, f"model: {m[:2]}"))
            continue
        okc, j = common.vec_close(list(r[1]), m[1], rtol=1e-9, atol=1e-7)
        if not okc:
            bad.append((c, f"output {j}: implementation {r[1][j]!r} vs model {m[1][j]!r}"))
    return bad


# --------------------------------------------------------------------------
# series (batch) calls: elasticity_components takes an N x 6 x 6 series.  Model_decomp_series
# is the loop over the series; proved: it is the map of the single-matrix function, row k
# depends on entry k only.  The correspondence below calls the implementation with
# heterogeneous series and compares every row with (a) the extracted series model on the
# recorded eigh outputs, (b) the extracted single-matrix model, (c) the implementation
# called on that matrix alone; plus state between calls / aliasing / input forms / a
# degenerate stream.
# --------------------------------------------------------------------------
FORMS = ("array", "list", "tuple", "fortran", "strided", "readonly", "int", "float32", "lower-garbage", "aliased-list",
         "broadcast", "reversed", "transposed", "float32-fortran", "mixed-list", "mixed-tuple")
# per-entry presentations of a mixed series (a list / tuple whose members differ in dtype, layout and container)
MIX = ("float64", "float32", "fortran", "strided", "list", "int64", "reversed", "readonly")
ROUNDING = {"int": np.int64, "float32": np.float32, "float32-fortran": np.float32, "int64": np.int64}


def entry_dtype(b, c):
    """dtype an entry is rounded to before it is handed over (None: float64 as it is)"""
    return ROUNDING.get(c.get("pres")) if b["form"].startswith("mixed") else ROUNDING.get(b["form"])


def single_input(b, c):
    """entry c of series b as it is handed over when it is decomposed alone"""
    dt = entry_dtype(b, c)
    if b["form"].startswith("mixed") and c.get("pres") == "list":
        return np.asarray(c["Min"], dtype=float).tolist()
    return np.asarray(c["Min"]) if dt is None else np.asarray(c["Min"]).astype(dt)
SPECIAL = ("isotropic", "cubic", "hexagonal", "tetragonal")   # degenerate eigenvalues: symmetry axes not unique
SCALES = (1e-3, 0.5, 2.0, 1e3, 1e6)


def special_stiffness(rng, kind):
    c11, c33 = rng.uniform(150, 350, size=2)
    c12, c13 = rng.uniform(40, 90, size=2)
    c44, c66 = rng.uniform(40, 110, size=2)
    m = np.zeros((6, 6))
    if kind == "isotropic":
        Kb, Gs = rng.uniform(60, 200), rng.uniform(30, 100)
        m[:3, :3] = Kb - 2 * Gs / 3
        m[[0, 1, 2], [0, 1, 2]] = Kb + 4 * Gs / 3
        m[[3, 4, 5], [3, 4, 5]] = Gs
        return m
    if kind == "cubic":
        c33, c13, c66 = c11, c12, c44
    elif kind == "hexagonal":
        c66 = (c11 - c12) / 2
    m[0, 0] = m[1, 1] = c11
    m[2, 2] = c33
    m[0, 1] = m[1, 0] = c12
    m[0, 2] = m[2, 0] = m[1, 2] = m[2, 1] = c13
    m[3, 3] = m[4, 4] = c44
    m[5, 5] = c66
    return m


def special_case(T, rng, kind):
    M0 = special_stiffness(rng, kind)
    R = np.eye(3) if rng.random() < 0.5 else G.haar(rng)
    return dict(kind=kind, M0=M0, R=R, M=rot6(T, M0, R) if not np.array_equal(R, np.eye(3)) else M0.copy())


def own_frame(c, M, kind=None):
    """entry whose matrix was changed after generation (rounded, scaled ...): it is its own unrotated frame"""
    return dict(kind=kind or ("general" if c["kind"] in ("olivine", "enstatite", "ortho") else c["kind"]),
                M0=np.array(M), R=np.eye(3), M=np.array(M))


def gen_batch(T, rng, k, prev=None):
    """one series; the family/form schedule is fixed by k, all contents are drawn from rng"""
    fam, form = [("hetero", "array"), ("hetero", "list"), ("repeated", "array"), ("singleton", "array"),
                 ("rotations-of-one", "array"), ("scaled", "array"), ("special-symmetry", "array"), ("hetero", "strided"),
                 ("hetero", "fortran"), ("hetero", "int"), ("hetero", "float32"), ("hetero", "lower-garbage"),
                 ("aliased", "aliased-list"), ("degenerate", "array"), ("hetero", "readonly"), ("permuted", "array"),
                 ("aliased", "broadcast"), ("hetero", "tuple"), ("empty", "array"), ("degenerate", "list"),
                 ("hetero", "mixed-list"), ("hetero", "reversed"), ("rotations-of-one", "mixed-tuple"),
                 ("hetero", "transposed"), ("repeated", "mixed-list"), ("hetero", "float32-fortran")][k % 26]
    draw = lambda: gen_case(T, rng, int(rng.integers(0, 12)))  # noqa: E731
    bad = None
    if fam == "hetero":
        es = [draw() for _ in range(int(rng.integers(2, 7)))]
        if len({e["kind"] for e in es}) == 1:       # make sure at least two different materials
            es[int(rng.integers(0, len(es)))] = gen_case(T, rng, 0 if es[0]["kind"] != "olivine" else 1)
    elif fam == "permuted":
        base = prev if prev is not None and len(prev["entries"]) > 1 else dict(entries=[draw() for _ in range(4)])
        perm = rng.permutation(len(base["entries"]))
        if np.array_equal(perm, np.arange(len(perm))):
            perm = perm[::-1]
        es = [base["entries"][int(i)] for i in perm]
    elif fam == "repeated":
        es = [draw() for _ in range(int(rng.integers(2, 5)))]
        rep = es[int(rng.integers(0, len(es)))]
        where = int(rng.integers(0, 3))             # repeat as first / last / somewhere
        es = [rep] + es if where == 0 else (es + [rep] if where == 1 else es[:1] + [rep] + es[1:])
        if rng.random() < 0.5:
            es.append(es[0])
    elif fam == "singleton":
        es = [draw()]
    elif fam == "rotations-of-one":
        c = draw()
        es = [c] + [dict(kind=c["kind"], M0=c["M0"], R=Rq, M=rot6(T, c["M0"], Rq))
                    for Rq in (G.haar(rng) for _ in range(int(rng.integers(2, 5))))]
    elif fam == "scaled":
        c = draw()
        sc = [1.0] + [SCALES[int(i)] for i in rng.permutation(len(SCALES))[:int(rng.integers(2, 5))]]
        es = [dict(kind=c["kind"], M0=c["M0"] * s_, R=c["R"], M=c["M"] * s_) for s_ in sc]
    elif fam == "special-symmetry":
        es = [draw() for _ in range(int(rng.integers(1, 4)))]
        for j_ in range(int(rng.integers(1, 3))):   # isotropic first, then cubic, hexagonal, tetragonal
            es.insert(int(rng.integers(0, len(es) + 1)), special_case(T, rng, SPECIAL[(k // 26 + j_) % 4]))
    elif fam == "aliased":
        c = draw()
        es = [c] * int(rng.integers(2, 5))
    elif fam == "empty":
        es = []
    else:   # degenerate: one malformed entry among good ones, first / middle / last
        es = [draw() for _ in range(int(rng.integers(1, 4)))]
        what = ["zero", "nan", "inf", "nan-entry", "nan-below-diagonal", "negative"][int(rng.integers(0, 6))]
        Mb = es[0]["M"].copy()
        if what == "zero":
            Mb[:] = 0.0
        elif what == "nan":
            Mb[:] = np.nan
        elif what == "inf":
            Mb[int(rng.integers(0, 6)), int(rng.integers(0, 6))] = np.inf
        elif what == "nan-entry":
            i_, j_ = sorted(int(v) for v in rng.integers(0, 6, size=2))
            Mb[i_, j_] = np.nan                    # on or above the diagonal: used
        elif what == "nan-below-diagonal":
            Mb[int(rng.integers(1, 6)), 0] = np.nan  # below the diagonal: upper_tri_to_symmetric ignores it
        else:
            Mb = -Mb
        e = dict(kind="degenerate-" + what, M0=Mb, R=np.eye(3), M=Mb, Min=Mb)
        if what == "nan-below-diagonal":
            Ms = np.triu(Mb) + np.triu(Mb, 1).T
            e = dict(kind="general", M0=Ms, R=np.eye(3), M=Ms, Min=Mb)
        es.insert([0, len(es) // 2, len(es)][int(rng.integers(0, 3))], e)
        bad = what
    # what is passed for each entry (Min); entries are re-based when the values themselves change
    if form == "int":
        es = [own_frame(c, np.round(c["M"])) for c in es]
    elif form in ("float32", "float32-fortran"):
        es = [own_frame(c, c["M"].astype(np.float32).astype(float)) for c in es]
    elif form in ("mixed-list", "mixed-tuple"):
        off = int(rng.integers(0, len(MIX)))
        new = []
        for j_, c in enumerate(es):
            kd = MIX[(off + j_) % len(MIX)]
            if kd in ROUNDING:
                c = own_frame(c, np.round(c["M"]) if kd == "int64" else c["M"].astype(np.float32).astype(float))
            new.append(dict(c, pres=kd))
        es = new
    elif form == "lower-garbage":
        es = [dict(c, Min=np.triu(c["M"]) + np.tril(rng.normal(size=(6, 6)) * 100, -1)) for c in es]
    es = [dict(c, Min=c.get("Min", c["M"])) for c in es]
    return dict(family=fam, form=form, entries=es, degenerate=bad)


def build_input(b):
    """the object handed to elasticity_components for series b"""
    mats = [np.array(c["Min"], dtype=float) for c in b["entries"]]
    form = b["form"]
    n = len(mats)
    arr = np.array(mats, dtype=float).reshape(n, 6, 6)
    if form == "list":
        return list(mats)
    if form == "tuple":
        return tuple(mats)
    if form == "fortran":
        return np.asfortranarray(arr)
    if form == "strided":
        buf = np.full((2 * n + 1, 6, 6), 1e300)
        buf[1::2] = arr
        return buf[1::2]
    if form == "readonly":
        arr.setflags(write=False)
        return arr
    if form == "int":
        return arr.astype(np.int64)
    if form == "float32":
        return arr.astype(np.float32)
    if form == "aliased-list":
        return [mats[0]] * n if n else []
    if form == "reversed":
        return G.present(arr, "reversed")                       # negative strides on every axis
    if form == "transposed":                                    # every 6x6 member is a transposed (F-ordered) view
        return np.ascontiguousarray(arr.transpose(0, 2, 1)).transpose(0, 2, 1)
    if form == "float32-fortran":
        return np.asfortranarray(arr.astype(np.float32))
    if form in ("mixed-list", "mixed-tuple"):
        objs = [G.present(m, c["pres"]) for m, c in zip(mats, b["entries"])]
        return objs if form == "mixed-list" else tuple(objs)
    if form == "broadcast":
        return np.broadcast_to(mats[0], (n, 6, 6)) if n else arr
    return arr


def rows_of(out, n):
    """dictionary returned by elasticity_components -> n x 11 array; shapes are checked"""
    for k in KEYS:
        if np.shape(out[k]) != (n,):
            raise ValueError(f"output {k} has shape {np.shape(out[k])} for a series of {n}")
    if np.shape(out["hexagonal_axis"]) != (n, 3):
        raise ValueError(f"output hexagonal_axis has shape {np.shape(out['hexagonal_axis'])} for a series of {n}")
    return np.concatenate([np.array([out[k] for k in KEYS], dtype=float).T.reshape(n, 8),
                           np.array(out["hexagonal_axis"], dtype=float).reshape(n, 3)], axis=1)


def run_series(D, x, n, record=True):
    """elasticity_components on a series; returns (("OK", rows, out_dict) | ("ERR", code, msg)), recorded eigh outputs"""
    rec = []
    orig = D.la.eigh

    def eigh(a, *args, **kw):
        w, v = orig(a, *args, **kw)
        a = np.asarray(a, dtype=float)
        res = max(np.abs(v.T @ v - np.eye(3)).max(), np.abs(a @ v - v * w).max() / max(1.0, np.abs(a).max()),
                  max(0.0, float(-np.min(np.diff(w)))))
        rec.append((np.array(v), res))
        return w, v

    if record:
        D.la.eigh = eigh
    try:
        out = D.elasticity_components(x)
        return ("OK", rows_of(out, n), out), rec
    except Exception as e:  # noqa: BLE001
        return ("ERR", common.exc_code(e), str(e)), rec
    finally:
        D.la.eigh = orig


@contextlib.contextmanager
def quiet():
    """the degenerate stream (NaN / zero members) makes numpy warn; keep the check's output readable"""
    with warnings.catch_warnings(), np.errstate(all="ignore"):
        warnings.simplefilter("ignore")
        yield


def same_bits(a, b):
    return np.array_equal(np.asarray(a), np.asarray(b), equal_nan=True)


def snapshot(x):
    return [np.array(m, copy=True) for m in x] if isinstance(x, (list, tuple)) else np.array(x, copy=True)


def compare_batches(chk, T, D, batches):
    """correspondence on series calls; returns list of (batch, detail)"""
    with quiet():
        return _compare_batches(chk, T, D, batches)


def _compare_batches(chk, T, D, batches):
    bad = []
    cov = chk.cov
    fh, oh, sh_, kh, dh = (cov.setdefault(k, {}) for k in ("batch_family_histogram", "batch_form_histogram",
                                                           "batch_size_histogram", "batch_entry_kind_histogram",
                                                           "batch_distinct_moduli_histogram"))
    st = cov.setdefault("batch_checks", {"rows_vs_series_model": 0, "rows_vs_single_model": 0, "rows_vs_single_call": 0,
                                         "rows_uninitialised": 0, "repeat_call_identical": 0, "input_unchanged": 0,
                                         "outputs_not_aliased": 0, "raise_semantics": 0, "empty_series": 0})

    def inc(h, k):
        h[k] = h.get(k, 0) + 1

    runs = []
    lines, owner = [], []
    for bi, b in enumerate(batches):
        es, n = b["entries"], len(b["entries"])
        inc(fh, b["family"] + ("/" + b["degenerate"] if b["degenerate"] else ""))
        inc(oh, b["form"])
        inc(sh_, str(n) if n < 6 else "6+")
        for c in es:
            inc(kh, c["kind"])
        nmod = len({(round(float(c["M"][:3, :3].sum()), 6)) for c in es if np.all(np.isfinite(c["M"]))})
        inc(dh, str(nmod) if nmod < 3 else "3+")
        x = build_input(b)
        before = snapshot(x)
        r, rec = run_series(D, x, n)
        # (1) the caller owns the result: wreck the returned arrays, then call the singles and the series again
        first_rows = None if r[0] == "ERR" else r[1].copy()
        first_out = None if r[0] == "ERR" else r[2]
        singles = [run_impl(D, single_input(b, c))[0] for c in es]
        if first_out is not None:
            arrays = [first_out[k] for k in KEYS] + [first_out["hexagonal_axis"]]
            for i_, a in enumerate(arrays):
                for a2 in arrays[i_ + 1:]:
                    if np.shares_memory(a, a2):
                        bad.append((b, "two arrays of the returned dictionary share memory"))
            for a in arrays:
                if a.size:
                    a[...] = np.nan
        r2, _ = run_series(D, x, n, record=False)
        runs.append((r, rec, singles, r2))
        # the input is not modified by the call
        after = snapshot(x)
        if not all(same_bits(p, q) for p, q in (zip(before, after) if isinstance(before, list) else [(before, after)])):
            bad.append((b, "the call modified its input series"))
        st["input_unchanged"] += 1
        if r[0] == "OK" and len(rec) == 2 * n:
            fl = [np.concatenate([np.asarray(c["Min"], dtype=float).reshape(-1), rec[2 * i][0].reshape(-1),
                                  rec[2 * i + 1][0].reshape(-1)]) for i, c in enumerate(es)]
            lines.append(common.model_line("decomp_series", [], np.concatenate(fl) if fl else []))
            owner.append((bi, None))
            for i, v in enumerate(fl):
                lines.append(common.model_line("decomp", [], v))
                owner.append((bi, i))
    mres = common.run_model(lines, group=G.GROUP) if lines else []
    mser = {bi: m for (bi, i), m in zip(owner, mres) if i is None}
    msin = {(bi, i): m for (bi, i), m in zip(owner, mres) if i is not None}

    for bi, (b, (r, rec, singles, r2)) in enumerate(zip(batches, runs)):
        es, n = b["entries"], len(b["entries"])
        # float32 members: parts of the computation run in binary32: compare K, G, anisotropy at 1e-4
        loose_of = lambda c: entry_dtype(b, c) is np.float32  # noqa: E731
        tag = f"series[{b['family']}/{b['form']}, n={n}]"
        m = mser.get(bi)
        sample = {"family": b["family"], "form": b["form"], "kinds": [c["kind"] for c in es],
                  "impl_percent_hexagonal": r[1] if r[0] == "ERR" else [float(v) for v in r[1][:, 3]],
                  "model_percent_hexagonal": None if m is None or m[0] == "ERR" else [float(v) for v in m[1][4::12]]}
        chk.note_case(("series", b["form"], tuple(np.asarray(c["Min"]).tobytes() for c in es)),
                      nontrivial=(r[0] == "OK" and n >= 2), sample=sample)
        if len(cov.setdefault("batch_samples", [])) < 4 and bi % 5 == 0:
            cov["batch_samples"].append(sample)
        # ---- raise semantics: the call raises iff some entry raises alone, and then what the first such entry raises
        first_err = next((s_ for s_ in singles if s_[0] == "ERR"), None)
        st["raise_semantics"] += 1
        if (r[0] == "ERR") != (first_err is not None):
            bad.append((b, f"{tag}: series call {'raised ' + str(r[1:]) if r[0] == 'ERR' else 'returned'} but the entries decomposed "
                           f"alone {'raise ' + str(first_err[1:]) if first_err else 'do not raise'}"))
            continue
        if r[0] == "ERR":
            if r[1] != first_err[1]:
                bad.append((b, f"{tag}: series call raised {r[1]} but the first raising entry raises {first_err[1]} alone"))
            refused = (b["form"].startswith("mixed") and r[1] in G.REFUSAL and
                       any(c.get("pres") == "list" and s_[0] == "ERR" for c, s_ in zip(es, singles)))
            if refused:     # a member that is a nested Python list: refused loudly, alone and in the series alike
                cov["refused_presentations"] = cov.get("refused_presentations", 0) + 1
            elif b["degenerate"] is None:
                bad.append((b, f"{tag}: implementation raised on a well-formed series: {r[1:]}"))
            if r2[0] != "ERR" or r2[1] != r[1]:
                bad.append((b, f"{tag}: the same call repeated behaves differently ({r[1]} then {r2[:2] if r2[0] == 'ERR' else 'returned'})"))
            continue
        rows = r[1]
        if n == 0:
            st["empty_series"] += 1
        if m is None:
            bad.append((b, f"{tag}: implementation made {len(rec)} eigh calls for {n} matrices"))
            continue
        for (_, res) in rec:
            if res > 1e-10 and b["degenerate"] is None:
                bad.append((b, f"{tag}: eigh oracle hypothesis residual {res:.3e}"))
        if m[0] == "ERR" or len(m[1]) != 12 * n:
            bad.append((b, f"{tag}: series model: {m[:2] if m[0] == 'ERR' else len(m[1])}"))
            continue
        written = []
        for i, c in enumerate(es):
            mrow = m[1][12 * i: 12 * i + 12]
            flag, mvals = mrow[0], list(mrow[1:])
            ms1 = msin.get((bi, i))
            # series model row == single-matrix model (run-time echo of C12_series_entry_is_single)
            st["rows_vs_single_model"] += 1
            if (flag == 1.0) != (ms1[0] == "OK") or (flag == 1.0 and not same_bits(mvals, ms1[1])):
                bad.append((b, f"{tag} entry {i}: extracted series model row differs from the extracted single-matrix model"))
            sure = 3 if (flag != 1.0 or c["kind"] in SPECIAL or c["kind"].startswith("degenerate")) else 11
            written.append(sure)
            if flag != 1.0:
                st["rows_uninitialised"] += 1
            # (a) implementation row vs series model
            st["rows_vs_series_model"] += 1
            loose = loose_of(c)
            if flag == 1.0:
                ncmp = 3 if (loose or sure == 3) else 11
                ref = mvals[:ncmp]
                okc, j = common.vec_close(list(rows[i][:ncmp]), ref, rtol=1e-4 if loose else 1e-9, atol=1e-4 if loose else 1e-7)
                if not okc and not (c["kind"].startswith("degenerate") and not np.all(np.isfinite(rows[i][:ncmp]))):
                    bad.append((b, f"{tag} entry {i} ({c['kind']}) output {j}: implementation {rows[i][j]!r} vs model {ref[j]!r}"))
            # (c) implementation row vs the same matrix decomposed alone (same code, same input: same bits)
            s1 = singles[i]
            st["rows_vs_single_call"] += 1
            if not same_bits(rows[i][:sure], s1[1][:sure]):
                j = int(np.argmax([not same_bits(p, q) for p, q in zip(rows[i][:sure], s1[1][:sure])]))
                name = (KEYS + ["hexagonal_axis[0]", "hexagonal_axis[1]", "hexagonal_axis[2]"])[j]
                bad.append((b, f"{tag} entry {i} ({c['kind']}): {name} = {rows[i][j]!r} in the series but {s1[1][j]!r} when decomposed alone"))
        # ---- state between calls: same call again after the caller overwrote the first result
        st["repeat_call_identical"] += 1
        if r2[0] != "OK":
            bad.append((b, f"{tag}: the same call repeated raised {r2[1:]}"))
        else:
            for i, sure in enumerate(written):
                if not same_bits(rows[i][:sure], r2[1][i][:sure]):
                    bad.append((b, f"{tag} entry {i}: the same call repeated (after the caller overwrote the first result) returns different numbers"))
            st["outputs_not_aliased"] += 1
            if any(np.shares_memory(r[2][k], r2[2][k]) for k in KEYS + ["hexagonal_axis"] if r[2][k].size):
                bad.append((b, f"{tag}: two calls return arrays that share memory"))
    return bad


def oracle_batch(T, D, b):
    """Direct reading of C12 on a series call: every entry of the series must satisfy the property (reported
    numbers of entry i are those of matrix i), in the series of rotated and in the series of unrotated tensors."""
    with quiet():
        return _oracle_batch(T, D, b)


def _oracle_batch(T, D, b):
    es, n = b["entries"], len(b["entries"])
    r1, _ = run_series(D, build_input(b), n, record=False)
    singles = [run_impl(D, single_input(b, c))[0] for c in es]
    first_err = next((s_ for s_ in singles if s_[0] == "ERR"), None)
    if r1[0] == "ERR":
        if first_err is None:
            return [f"elasticity_components raised on the series ({r1[1:]}) although every entry can be decomposed alone"]
        if b["form"].startswith("mixed") and r1[1] in G.REFUSAL and r1[1] == first_err[1]:
            return []       # a nested-list member is refused loudly, alone and in the series alike
        return [] if b["degenerate"] else [f"elasticity_components raised: {r1[1:]}"]
    if first_err is not None:
        return [f"an entry raises {first_err[1]} when decomposed alone but the series call returned"]
    b0 = dict(b, entries=[dict(c, Min=c["M0"], pres="float64") for c in es],
              form=b["form"] if b["form"] in ("array", "list", "tuple", "fortran", "strided", "readonly", "reversed", "transposed") else
              ("list" if b["form"].startswith("mixed") else "array"))
    r0, _ = run_series(D, build_input(b0), n, record=False)
    if r0[0] == "ERR":
        return [f"elasticity_components raised on the series of unrotated tensors: {r0[1:]}"]
    f = []
    for i, c in enumerate(es):
        if c["kind"].startswith("degenerate"):
            continue
        loose = entry_dtype(b, c) is np.float32
        if not loose:
            for msg in entry_checks(T, c, r0[1][i], r1[1][i]):
                f.append(f"entry {i} of {n} ({c['kind']}): {msg}")
        a, s1 = r1[1][i], singles[i][1]
        # the numbers reported for a tensor are a function of that tensor (axis up to sign)
        dev = np.abs(a[:8] - s1[:8]).max()
        ax = min(np.abs(a[8:] - s1[8:]).max(), np.abs(a[8:] + s1[8:]).max())
        if c["kind"] not in SPECIAL and (dev > 1e-6 * max(1.0, abs(s1[0])) or ax > 1e-6):
            j = int(np.abs(a[:8] - s1[:8]).argmax())
            f.append(f"entry {i} of {n} ({c['kind']}): {KEYS[j]} = {a[j]:.9g} in the series but {s1[j]:.9g} when the tensor is "
                     f"decomposed alone" if dev > 1e-6 * max(1.0, abs(s1[0])) else
                     f"entry {i} of {n} ({c['kind']}): hexagonal axis in the series differs from the axis found alone")
    return f


def encode_batch(b):
    def enc(c):
        d = encode(c)
        d["Min"] = [hx(v) for v in np.asarray(c["Min"], dtype=float).reshape(-1)]
        if "pres" in c:
            d["pres"] = c["pres"]
        return d
    return {"batch": [enc(c) for c in b["entries"]], "family": b["family"], "form": b["form"], "degenerate": b["degenerate"]}


def decode_batch(d):
    u = common.unhx
    es = []
    for e in d["batch"]:
        c = decode(e)
        c["Min"] = np.array([u(v) for v in e["Min"]]).reshape(6, 6)
        if "pres" in e:
            c["pres"] = e["pres"]
        es.append(c)
    return dict(family=d["family"], form=d["form"], degenerate=d.get("degenerate"), entries=es)


def gen_batches(T, chk, n=None, seed_offset=2):
    rng = np.random.default_rng(chk.seed + seed_offset)
    n = n if n is not None else (40 if chk.tier == "quick" else 1200)
    out, prev = [], None
    for k in range(n):
        b = gen_batch(T, rng, k, prev)
        if b["family"] == "hetero" and b["form"] == "array":
            prev = b
        out.append(b)
    return out


def search_batches(chk, T, D, extra=()):
    pool = list(extra) + gen_batches(T, chk, n=20, seed_offset=3)
    found, seen = [], set()
    for b in pool:
        fails = oracle_batch(T, D, b)
        sig = {re.sub(r"^entry \d+ of \d+ \([^)]*\): ", "", m_).split("(")[0][:50] for m_ in fails}
        if sig - seen:
            seen |= sig
            found.append((b, fails))
            if len(found) >= 3:
                break
    return found


# --------------------------------------------------------------------------
# call SEQUENCES on one object that the caller modifies in place between the calls: every call must be the pure
# function of the CURRENT contents (a result cached by object identity / a buffer kept from the previous call would
# show here).  container: one ndarray, a list of arrays, a list holding the same array object twice.
# --------------------------------------------------------------------------
SEQ_CONTAINERS = ("ndarray", "list-of-arrays", "aliased-pair")


def gen_sequence(T, rng, k):
    cont = SEQ_CONTAINERS[k % 3]
    n = int(rng.integers(2, 5))
    es = [gen_case(T, rng, int(rng.integers(0, 12))) for _ in range(n)]
    if len({e["kind"] for e in es}) == 1:
        es[0] = gen_case(T, rng, 0 if es[0]["kind"] != "olivine" else 1)
    ops = []
    for _ in range(int(rng.integers(2, 5))):
        what = ["replace", "scale", "swap", "replace"][int(rng.integers(0, 4))]
        i = int(rng.integers(0, n))
        if what == "replace":
            ops.append(("replace", i, gen_case(T, rng, int(rng.integers(0, 12)))))
        elif what == "scale":
            ops.append(("scale", i, float(SCALES[int(rng.integers(0, len(SCALES)))])))
        else:
            ops.append(("swap", i, int((i + 1 + rng.integers(0, n - 1)) % n)))
    ops.append(("restore",))
    return dict(container=cont, entries=es, ops=ops)


def seq_object(q):
    """(object handed to elasticity_components, list of the n arrays the caller writes into, position -> array index)"""
    mats = [np.array(c["M"], dtype=float) for c in q["entries"]]
    n = len(mats)
    if q["container"] == "ndarray":
        arr = np.array(mats)
        return arr, [arr[i] for i in range(n)], list(range(n))
    if q["container"] == "list-of-arrays":
        return list(mats), mats, list(range(n))
    # the first array object also stands at the last position: writing into it changes two members
    mats[-1] = mats[0]
    return list(mats), mats, list(range(n - 1)) + [0]


def seq_states(q):
    """contents (list of case dicts per position) after each op; state 0 = initial"""
    es = list(q["entries"])
    n = len(es)
    pos = list(range(n)) if q["container"] != "aliased-pair" else list(range(n - 1)) + [0]
    cur = [es[p] for p in pos]
    slots = {p: es[p] for p in set(pos)}
    states = [list(cur)]
    for op in q["ops"]:
        if op[0] == "replace":
            slots[pos[op[1]]] = op[2]
        elif op[0] == "scale":
            c = slots[pos[op[1]]]
            slots[pos[op[1]]] = dict(kind=c["kind"], M0=c["M0"] * op[2], R=c["R"], M=c["M"] * op[2])
        elif op[0] == "swap":
            a, b_ = pos[op[1]], pos[op[2]]
            slots[a], slots[b_] = slots[b_], slots[a]
        else:
            slots = {p: es[p] for p in set(pos)}
        states.append([slots[p] for p in pos])
    return states, pos


def run_sequence(D, q):
    """list of per-call records: (rows or error, rows of a fresh deep copy, touched positions)"""
    x, arrays, pos = seq_object(q)
    states, _ = seq_states(q)
    out = []
    for k, st in enumerate(states):
        if k > 0:                           # write state k into the caller's arrays, in place
            for p in sorted(set(pos)):
                arrays[p][...] = st[pos.index(p)]["M"]
        n = len(pos)
        r, _ = run_series(D, x, n, record=False)
        fresh = np.array([np.array(c["M"], dtype=float) for c in st])
        rf, _ = run_series(D, fresh, n, record=False)
        out.append((r, rf))
    return out, states


def sequence_failures(T, D, q):
    """direct reading: every call reports, for every member, what the member's CURRENT contents give"""
    with quiet():
        recs, states = run_sequence(D, q)
    f = []
    kept = []
    for k, ((r, rf), st) in enumerate(zip(recs, states)):
        tag = f"call {k + 1} of {len(recs)} on one {q['container']} modified in place"
        if r[0] == "ERR" or rf[0] == "ERR":
            if (r[0] == "ERR") != (rf[0] == "ERR"):
                f.append(f"{tag}: {'raised' if r[0] == 'ERR' else 'returned'} but a fresh copy of the same contents "
                         f"{'raises' if rf[0] == 'ERR' else 'returns'}")
            continue
        for i, c in enumerate(st):
            if c["kind"] in SPECIAL:
                continue
            if not same_bits(r[1][i], rf[1][i]):
                j = int(np.argmax([not same_bits(p_, q_) for p_, q_ in zip(r[1][i], rf[1][i])]))
                name = (KEYS + ["hexagonal_axis[0]", "hexagonal_axis[1]", "hexagonal_axis[2]"])[j]
                f.append(f"{tag}, entry {i} ({c['kind']}): {name} = {r[1][i][j]!r} but {rf[1][i][j]!r} for a fresh copy of the "
                         "same contents")
        for (k0, rows0, out0) in kept:
            now = rows_of(out0, len(st))
            if not same_bits(now, rows0):
                f.append(f"{tag}: the arrays returned by call {k0 + 1} changed")
        kept.append((k, r[1].copy(), r[2]))
    if recs and recs[0][0][0] == "OK" and recs[-1][0][0] == "OK" and not same_bits(recs[0][0][1], recs[-1][0][1]):
        f.append("after the original contents were written back the call reports other numbers than the first call")
    return f


def encode_sequence(q):
    def op(o):
        return [o[0], o[1], encode(o[2])] if o[0] == "replace" else list(o)
    return {"sequence": {"container": q["container"], "entries": [encode(c) for c in q["entries"]], "ops": [op(o) for o in q["ops"]]}}


def decode_sequence(d):
    d = d["sequence"]
    ops = [("replace", o[1], decode(o[2])) if o[0] == "replace" else tuple(o) for o in d["ops"]]
    return dict(container=d["container"], entries=[decode(c) for c in d["entries"]], ops=ops)


def gen_sequences(T, chk, n=None, seed_offset=5):
    rng = np.random.default_rng(chk.seed + seed_offset)
    n = n if n is not None else (9 if chk.tier == "quick" else 300)
    return [gen_sequence(T, rng, k) for k in range(n)]


def compare_sequences(chk, T, D, seqs):
    """returns (list of (sequence, detail), list of snapshot batches for the model comparison)"""
    bad, snaps = [], []
    h = chk.cov.setdefault("sequence_histogram", {})
    st = chk.cov.setdefault("sequence_checks", {"sequences": 0, "calls": 0, "in_place_ops": 0})
    for q in seqs:
        h[q["container"]] = h.get(q["container"], 0) + 1
        st["sequences"] += 1
        st["in_place_ops"] += len(q["ops"])
        st["calls"] += len(q["ops"]) + 1
        for m_ in sequence_failures(T, D, q):
            bad.append((q, m_))
        states, _ = seq_states(q)
        for stt in states[1:-1][:2]:             # contents after the first in-place writes: also against the model
            snaps.append(dict(family="sequence-step", form="array", degenerate=None,
                              entries=[dict(c, Min=c["M"]) for c in stt]))
        chk.note_case(("sequence", q["container"], tuple(c["M"].tobytes() for c in q["entries"]), len(q["ops"])),
                      nontrivial=True, sample={"container": q["container"], "ops": [o[0] for o in q["ops"]]})
    return bad, snaps


def gen_cases(T, chk):
    rng = np.random.default_rng(chk.seed)
    n = 300 if chk.tier == "quick" else 6000
    return [gen_case(T, rng, k) for k in range(n)]


def search(chk, T, D, extra=()):
    rng = np.random.default_rng(chk.seed + 1)
    pool = list(extra) + [gen_case(T, rng, k) for k in range(48)]
    found, seen = [], set()
    for c in pool:
        fails = oracle(T, D, c)
        new = [m.split("(")[0][:50] for m in fails if m.split("(")[0][:50] not in seen]
        if new:
            seen.update(new)
            found.append((c, fails))
            if len(found) >= 3:
                break
    return found


def run(chk):
    ok, br = proofs.prove(chk, FILES, PROP, groups=(G.GROUP,), gen_modules=("tensors", "decomp"))
    import pydrex.tensors as T
    import pydrex.diagnostics as D
    chk.cov["trusted_base"] = common.TRUSTED_COMMON + [
        "TIE T (new): translator/specs_decomp.py regenerates coq/gen/Gen_decomp.v from pydrex.diagnostics.elasticity_components and smallest_angle on every run "
        "(eigh stays a function parameter; NumPy float64 value semantics, numba division semantics inside smallest_angle, np.sign as a fork; the pairing loop and the loop "
        "over the series are summarised per iteration, justified by a static AST non-interference check that fails closed and a two-polarity cross-check); "
        "Inst_decomp_base / Inst_decomp_seg0-2 / Inst_decomp prove generated = Model_decomp / Model_decomp_series for all inputs and all oracles; trusted: that translator module "
        "and its mapping of the nine dictionary keys to row positions",
        "PROVED (Proofs_decomp4/5): the frame clause for GENERAL tensors -- simple spectra of both contractions and eigh listing the eigenvectors in the same (ascending) order in both "
        "frames => all eight numbers equal, axis co-rotates, no tie exclusion; the order / orthonormality / eigenvector hypotheses are residual-checked on every recorded eigh call",
        "hand-written Model_decomp.elasticity_components1 (K, G, isotropic vector, percent anisotropy, eigenvector pairing with the signed-index trick, "
        "three cyclic permutations with strict-< selection, nested projections); tied by this differential run on the recorded eigh outputs",
        "scipy.linalg.eigh is an oracle: orthonormal columns, S v = lambda v, ascending eigenvalues are residual-checked on every call",
        "PROVED (Proofs_decomp2/3), for rotated orthorhombic tensors with distinct principal values of both contractions: sccs_is_R, mono = tric = 0, "
        "the candidate distances depend only on the axis put third (candidate_distance), the strict-< loop selects the strict minimum, hence "
        "hex_axis_corotates (axis of the rotated run = +- R . axis of the unrotated run) and equality of all eight reported numbers in both frames "
        "under the property's no-tie exclusion (strict minimum among the three candidate distances of the unrotated tensor); the sum rule on the whole function. "
        "(frame independence for non-orthorhombic tensors: see the general theorem above; additionally echoed by the run-time comparison on texture averages)",
        "hand-written Model_decomp_series.elasticity_components_series (table of rows allocated up front, iteration m writes row m, an exception aborts "
        "the call); PROVED for every Num instance: it is the map of elasticity_components1 over the series, row k depends on entry k only (any "
        "companions, order, repetition, length), raises what the first raising entry raises; tied by the series correspondence (heterogeneous series "
        "vs extracted series model / extracted single-matrix model / single-matrix calls). Independence of EARLIER CALLS (no state between calls), "
        "non-aliasing of returned arrays and non-modification of the input are not expressible in the pure model: measured on every series call",
    ]
    chk.cov["rule"] = ("tensors = the two built-in single-crystal tensors, random positive-definite orthorhombic tensors, Voigt averages of random 2-11 grain textures; each in the "
                       "unrotated and in a Haar-rotated frame; implementation vs extracted model on the recorded eigh outputs at 1e-9 (+1e-7 abs on percentages); "
                       "eigenvalue gaps of both contractions are measured and reported (gap_histogram). SERIES calls (batch_*_histogram): heterogeneous series of "
                       "1-7 matrices of different materials / frames / scales (1e-3..1e6), permuted, with repeated and aliased entries, with exactly isotropic / cubic / "
                       "hexagonal / tetragonal members, the empty series, passed as array / list / tuple / Fortran / strided / read-only / int64 / float32 / "
                       "garbage-below-the-diagonal / broadcast view; every row vs the extracted series model and the extracted single-matrix model on the recorded eigh "
                       "outputs (1e-9) and bit-for-bit vs the matrix decomposed alone; each call repeated after the caller overwrote the first result (bit-identical, no "
                       "shared memory, input unchanged); degenerate stream (zero / NaN / inf / negative member first, middle, last): the call raises iff an entry raises "
                       "alone, with the first such entry's exception. NEW presentations: negative strides, transposed members, float32 + Fortran order, MIXED series (list / tuple whose members differ in dtype, "
                       "layout and container: float64, float32, Fortran, strided, nested list (refused loudly), int64, reversed, read-only). CALL SEQUENCES (sequence_checks): one ndarray / list of arrays / "
                       "list holding the same array twice, modified in place between the calls (replace, scale, swap, restore): every call bit-identical to a fresh deep copy of the current contents, earlier results "
                       "unchanged, restored contents give the first result")
    bad = []
    badb = []
    bads = []
    cases = []
    if br.drivers.get(G.GROUP, 1) is None:
        cases = gen_cases(T, chk)
        bad = compare(chk, T, D, cases)
        seqs = gen_sequences(T, chk)
        bads, snaps = compare_sequences(chk, T, D, seqs)
        batches = gen_batches(T, chk) + snaps
        badb = compare_batches(chk, T, D, batches)
        chk.cov["traces_validated_against_impl"] = len(cases) + len(batches)
        chk.cov["series_calls_validated"] = len(batches)
    chk.cov["disagreements"] = len(bad) + len(badb) + len(bads)
    if ok and not bad and not badb and not bads:
        return
    found = search(chk, T, D, extra=[c for c, _ in bad[:10]])
    seenb, extrab = set(), []
    for b, _ in badb:
        if id(b) not in seenb and len(extrab) < 10:
            seenb.add(id(b))
            extrab.append(b)
    foundb = search_batches(chk, T, D, extra=extrab) if (badb or not found) else []
    for c, fails in found:
        chk.replay({"kind": "property-violation", "call": "pydrex.diagnostics.elasticity_components", "input": encode(c),
                    "observed": fails, "required": "C12 (see properties.jsonl)",
                    "broken": chk.cov.get("broken_obligations", []), "disagreements": [m for _, m in bad[:3]]})
    for b, fails in foundb:
        chk.replay({"kind": "property-violation", "call": "pydrex.diagnostics.elasticity_components (series of "
                    f"{len(b['entries'])} matrices passed as {b['form']})", "input": encode_batch(b),
                    "observed": fails, "required": "C12 (see properties.jsonl): holds for every matrix of the series",
                    "broken": chk.cov.get("broken_obligations", []), "disagreements": [m for _, m in badb[:3]]})
    founds, seenq = [], set()
    for q in [q_ for q_, _ in bads] + (gen_sequences(T, chk, n=6, seed_offset=6) if not (found or foundb) or bads else []):
        if id(q) in seenq or len(founds) >= 2:
            continue
        seenq.add(id(q))
        fails = sequence_failures(T, D, q)
        if fails:
            founds.append((q, fails))
    for q, fails in founds:
        chk.replay({"kind": "property-violation", "call": "pydrex.diagnostics.elasticity_components called "
                    f"{len(q['ops']) + 1} times on one {q['container']} that the caller modifies in place between the calls",
                    "input": encode_sequence(q), "observed": fails[:6],
                    "required": "C12 (see properties.jsonl): the numbers reported are those of the tensors handed over",
                    "broken": chk.cov.get("broken_obligations", []), "disagreements": [m for _, m in bads[:3]]})
    if not found and not foundb and not founds:
        chk.replay({"kind": "unproved", "broken": chk.cov.get("broken_obligations", []),
                    "disagreements": [{"input": encode(c), "detail": m} for c, m in bad[:3]] +
                                     [{"input": encode_batch(b), "detail": m} for b, m in badb[:3]],
                    "note": "proof obligation or correspondence no longer checks; no failing input found by the search"},
                   no_input=True)


def replay(d):
    common.use_repo_source()
    import pydrex.tensors as T
    import pydrex.diagnostics as D
    if d.get("kind") != "property-violation":
        print("replay file names a broken obligation; re-run the check itself")
        return 1
    if "sequence" in d["input"]:
        fails = sequence_failures(T, D, decode_sequence(d["input"]))
    elif "batch" in d["input"]:
        fails = oracle_batch(T, D, decode_batch(d["input"]))
    else:
        fails = oracle(T, D, decode(d["input"]))
    for f in fails:
        print("still fails:", f)
    return 1 if fails else 0
