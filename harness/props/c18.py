"""C18 -- analytic flows are self-consistent; pathlines follow them inside the domain."""
from __future__ import annotations

import gc
import json
import logging
import math
import os
import signal
import subprocess
import tempfile
import warnings

import numpy as np

import common
import proofs
from common import hx, unhx

GROUP = "velocity"
FILES = ["gen/Gen_velocity.v", "gen/Gen_velocity_utils.v", "gen/Gen_pathlines.v", "Model_pathlines.v", "Proofs_velocity.v", "Inst_velocity.v",
         "Proofs_pathlines.v", "Inst_pathlines.v", "Proofs_pathline_gen.v", "Proofs_pathline_exact.v", "Model_pathline_session.v",
         "Proofs_pathline_session.v", "Model_pathline_options.v", "Proofs_pathline_options.v", "Entry_velocity.v", "Extract_velocity.v"]
GEN_MODULES = ("velocity", "pathlines")
METHODS = ("RK45", "RK23", "DOP853", "Radau", "BDF", "LSODA")      # ordinals used by the generated request vector
PROP = "Properties/C18.v"
FINDING_FILES = {"shear": "Findings/C18_shear.v", "cell": "Findings/C18_cell.v"}
LETTERS = "XYZ"
FLOWS = ("simple_shear_2d", "cell_2d", "corner_2d")
PAIRS = [(h, v) for h in range(3) for v in range(3) if h != v]

# known findings of C18 (proposed entries for /verif/known_findings.json, see docs/C18.md)
KF_SHEAR = "C18:simple_shear_2d:gradient=2*jacobian"
KF_CELL = "C18:cell_2d:gradient[v,h]<->gradient[v,v]"
KF_PATH = "C18:get_pathline:cell_2d(X,Z,1):end=(0.6,0,0.6):max_strain=0.5:ValueError"
KF_ZERO = "C18:get_pathline:simple_shear_2d(X,Z,1):end=(0.25,0.5,0.5):max_strain=0:timestamps=[0,0]"
KF_STEPS0 = "C18:get_pathline:simple_shear_2d(X,Z,1):end=(0.25,0.5,0.5):regular_steps=0:timestamps=[t_start]"
KF_STAGNATION = "C18:get_pathline:cell_2d(X,Z,1):end=(1,0,1):max_strain=0.5:strain=4.5e9"
BRENTQ_MSG = "f(a) and f(b) must have different signs"
PATHLINE_TIMEOUT_S = 20      # unchanged tree: <= 0.5 s per pathline
MAX_EVENT_CALLS = 5000


def quiet():
    import pydrex.logger as plog
    plog.CONSOLE_LOGGER.setLevel(logging.ERROR)


# --------------------------------------------------------------------------
# the implementation side
# --------------------------------------------------------------------------
def make_flow(flow, hl, vl, ps):
    import pydrex.velocity as vel
    return getattr(vel, FLOWS[flow])(hl, vl, *ps)


def impl_callable(c):
    """c = (kind, flow, hl, vl, ps, t, x) with kind in {'velocity','gradient'}; letters are strings"""
    kind, flow, hl, vl, ps, t, x = c
    try:
        u, L = make_flow(flow, hl, vl, ps)
        out = (u if kind == "velocity" else L)(t, np.asarray(x, dtype=float))
        return ("OK", [float(v) for v in np.asarray(out).reshape(-1)])
    except Exception as e:  # noqa: BLE001
        return ("ERR", common.exc_code(e), str(e)[:160])


def ordl(s):
    return LETTERS.index(s.upper()) if s.upper() in LETTERS else 7


def model_line_callable(c):
    kind, flow, hl, vl, ps, t, x = c
    if flow == 1 and len(ps) == 1:
        ps = list(ps) + [2.0]          # cell_2d's default edge_length (the generated wrapper is traced WITHOUT the argument)
    return common.model_line(kind, [flow, ordl(hl), ordl(vl)], [0.0 if math.isnan(t) else t] + list(x) + list(ps))


def ord6(s):
    """letter ordinals of the generated wrappers: X Y Z x y z = 0..5, anything else 7"""
    return "XYZxyz".index(s) if len(s) == 1 and s in "XYZxyz" else 7


def gen_line_callable(c):
    """the same case through the wrapper GENERATED from the source (case of the letters preserved)"""
    kind, flow, hl, vl, ps, t, x = c
    return common.model_line("gen_wrap", [0 if kind == "velocity" else 1, flow, ord6(hl), ord6(vl)],
                             [0.0 if math.isnan(t) else t] + list(x) + list(ps))


def scale_of(c):
    kind, flow, hl, vl, ps, t, x = c
    amp = abs(ps[0])
    if kind == "velocity":
        return amp * (max(1.0, max(abs(v) for v in x)) if flow == 0 else 1.0)
    if flow == 0:
        return amp
    if flow == 1:
        d = ps[1] if len(ps) > 1 else 2.0
        return amp * math.pi / abs(d) if d else amp
    if ordl(hl) > 2 or ordl(vl) > 2:
        return amp
    h, v = x[ordl(hl)], x[ordl(vl)]
    r = math.hypot(h, v)
    return amp / r if r else amp


def gen_kernel_cases(rng, tier):
    cases = []
    n = 12 if tier == "quick" else 150
    for flow in range(3):
        for (h, v) in PAIRS:
            hl, vl = LETTERS[h], LETTERS[v]
            for k in range(n):
                amp = float(10.0 ** rng.uniform(-15, 3)) * (1 if rng.random() < 0.8 else -1)
                if k % 6 == 5:
                    hl2, vl2 = hl.lower(), vl.lower()     # the source upper-cases the letters
                else:
                    hl2, vl2 = hl, vl
                x = np.zeros(3)
                if flow == 0:
                    ps = [amp]
                    x = rng.uniform(-1, 1, 3) * 10.0 ** rng.uniform(-3, 6)
                elif flow == 1:
                    d = float(10.0 ** rng.uniform(-3, 6))
                    ps = [amp, d]
                    x = rng.uniform(-0.5, 0.5, 3) * d
                    if k == 1:
                        x[h] = 0.5 * d          # on the boundary: still inside (the test is >)
                    if k == 2:
                        x[:] = 0.0              # the cell centre (the doctest point)
                else:
                    ps = [amp]
                    s = 10.0 ** rng.uniform(-6, 6)
                    x = rng.uniform(-1, 1, 3) * s
                    x[v] = -abs(x[v]) if k % 4 else abs(x[v])   # mostly the lower half space
                t = float("nan") if k % 2 else float(rng.uniform(-5, 5))
                for kind in ("velocity", "gradient"):
                    cases.append((kind, flow, hl2, vl2, ps, t, [float(a) for a in x]))
    # error paths: rejected letter pairs, negative edge, outside the cell, the hole of the corner flow
    for flow in range(3):
        ps = [1.0, 2.0] if flow == 1 else [1.0]
        for hl, vl in (("X", "X"), ("Y", "Y"), ("Z", "Z"), ("x", "X")):
            cases.append(("velocity", flow, hl, vl, ps, 0.0, [0.1, 0.2, -0.3]))
    cases.append(("velocity", 1, "X", "Z", [1.0, -2.0], 0.0, [0.1, 0.2, -0.3]))
    cases.append(("gradient", 1, "X", "X", [1.0, -2.0], 0.0, [0.1, 0.2, -0.3]))     # both checks fail: which one is reported does not matter
    # letters that are no axis, mixed case, cell_2d with edge_length left at its default (2.0)
    for hl, vl in (("Q", "Z"), ("X", "q"), ("x", "Z"), ("Z", "y"), ("y", "x")):
        for flow in range(3):
            for kind in ("velocity", "gradient"):
                cases.append((kind, flow, hl, vl, [0.75, 2.0] if flow == 1 else [0.75], 0.0, [0.3, -0.2, -0.4]))
    for (h, v) in PAIRS:
        for kind in ("velocity", "gradient"):
            x = rng.uniform(-1, 1, 3)
            cases.append((kind, 1, LETTERS[h], LETTERS[v].lower(), [float(rng.uniform(0.1, 3))], float("nan"), [float(a) for a in x]))
    cases.append(("velocity", 1, "X", "Z", [1.0], 0.0, [1.5, 0.0, 0.0]))               # outside the default cell
    for x in ([1.5, 0.0, 0.0], [0.0, 0.0, -1.0000001], [-1.0000001, 0.0, 0.3], [1.0, 5.0, -1.0]):
        for kind in ("velocity", "gradient"):
            cases.append((kind, 1, "X", "Z", [1.0, 2.0], 0.0, x))
    for x in ([0.0, 0.0, 0.0], [5e-16, 0.0, -5e-16], [1e-15, 0.0, 0.0], [0.0, 3.0, 0.0], [2e-15, 0.0, -1e-16]):
        for kind in ("velocity", "gradient"):
            cases.append((kind, 2, "X", "Z", [1.0], 0.0, x))
    return cases


def compare_kernels(chk, cases, rtol):
    lines = [model_line_callable(c) for c in cases]
    mres = common.run_model(lines, group=GROUP)
    gres = common.run_model([gen_line_callable(c) for c in cases], group=GROUP)
    bad = []
    hist = chk.cov.setdefault("histogram", {})
    for c, m, g in zip(cases, mres, gres):
        r = impl_callable(c)
        # hand-written wrapper model vs wrapper generated from the source: proved equal (Inst_velocity.v); any
        # difference here is a defect of the extraction / driver / harness
        if g[0] != m[0] or (g[1] != m[1] and not (g[0] == "OK" and common.vec_close(g[1], m[1], rtol=0.0, atol=0.0)[0])):
            bad.append((c, f"generated wrapper {g[0]} {g[1] if g[0] == 'ERR' else g[1][:9]} vs wrapper model {m[0]} {m[1] if m[0] == 'ERR' else m[1][:9]}"))
        key = f"{FLOWS[c[1]]}:{c[0]}:{c[2].upper()}{c[3].upper()}"
        hist[key] = hist.get(key, 0) + 1
        flat = r[1] if r[0] == "OK" else []
        nontrivial = r[0] == "OK" and any(v != 0 for v in flat)
        chk.note_case((c[0], c[1], c[2], c[3], tuple(c[4]), tuple(c[6])), nontrivial=nontrivial)
        if len(chk.cov["samples"]) < 4 and hist[key] == 1 and c[3].upper() == "Z" and c[2].upper() == "X":
            chk.cov["samples"].append({"callable": f"{FLOWS[c[1]]}({c[2]!r}, {c[3]!r}, *{c[4]})[{0 if c[0] == 'velocity' else 1}]",
                                       "x": c[6], "impl": flat[:9] if r[0] == "OK" else r[1],
                                       "model": m[1][:9] if m[0] == "OK" else m[1]})
        if m[0] == "ERR" or r[0] == "ERR":
            hist["err:" + (m[1] if m[0] == "ERR" else r[1])] = hist.get("err:" + (m[1] if m[0] == "ERR" else r[1]), 0) + 1
            same = (m[0] == "ERR" and r[0] == "ERR" and m[1] == r[1]) or \
                   (m[0] == "ERR" and m[1] == "NonFinite" and r[0] == "OK" and all(math.isnan(v) for v in flat))
            if not same:
                bad.append((c, f"implementation {r[:2] if r[0] == 'ERR' else flat[:9]} vs model {m[1] if m[0] == 'ERR' else m[1][:9]}"))
            continue
        okc, j = common.vec_close(flat, m[1], rtol=rtol, atol=1e-13 * scale_of(c))
        if not okc:
            a = flat[j] if 0 <= j < len(flat) else None
            b = m[1][j] if 0 <= j < len(m[1]) else None
            bad.append((c, f"{FLOWS[c[1]]} {c[0]} entry {j}: implementation {a!r} vs model {b!r}"))
    return bad


# ---- representations of the position argument (added after seeded change C18d)
# Every kernel case above hands the callables a float64 ndarray (impl_callable converts), the failing-input search took
# finite differences with float offsets: a change that makes the OUTPUT depend on the dtype / container of the position
# (C18d: `np.zeros_like(x)` in _corner_2d truncates the velocity for integer positions -- the style of the module's
# own doctests) was invisible to both.  The callables are now also applied to the SAME point in other representations.
REPRESENTATIONS = ("int64", "int32", "int16", "float32", "float16", "list_float", "list_int", "tuple_float", "tuple_int",
                   "noncontiguous", "readonly", "zero_d_elements", "numpy_scalars", "fortran_column")
INT_REPRESENTATIONS = ("int64", "int32", "int16", "list_int", "tuple_int")
MAY_BE_REJECTED = ("float16",)          # numba has no float16 on the CPU: both callables raise NotImplementedError
TIME_REPRESENTATIONS = ("nan", "zero_d", "int", "float32")


def present(x, rep):
    """the point x (integer-valued floats) in representation `rep`"""
    xf = np.array([float(a) for a in x])
    if rep in ("int64", "int32", "int16", "float32", "float16"):
        return xf.astype(rep)
    if rep == "list_float":
        return [float(a) for a in xf]
    if rep == "list_int":
        return [int(a) for a in xf]
    if rep == "tuple_float":
        return tuple(float(a) for a in xf)
    if rep == "tuple_int":
        return tuple(int(a) for a in xf)
    if rep == "noncontiguous":
        big = np.full((3, 2), 7.5)
        big[:, 0] = xf
        return big[:, 0]
    if rep == "fortran_column":
        return np.asfortranarray(np.stack([xf + 1.0, xf], axis=1))[:, 1]
    if rep == "readonly":
        xf.setflags(write=False)
        return xf
    if rep == "zero_d_elements":
        return [np.array(float(a)) for a in xf]
    if rep == "numpy_scalars":
        return [np.float64(a) for a in xf]
    return xf


def present_time(rep):
    return {"nan": float("nan"), "zero_d": np.array(0.5), "int": 0, "float32": np.float32(1.5)}[rep]


def rep_rtol(rep):
    return 1e-5 if rep == "float32" else 1e-12        # float32 positions are computed with in float32


def lattice_points(flow, h, v, rng, n):
    """integer-valued points inside the domain of the flow, far enough from the singular point / with a cell large enough
    for central differences over lattice neighbours (spacing 1) to approximate the Jacobian to 1e-4; params"""
    pts = []
    o = 3 - h - v
    for k in range(n):
        x = np.zeros(3)
        if flow == 0:
            ps = [float(rng.choice([0.75, -2.0, 1e-4]))]
            x[:] = rng.integers(-50, 50, 3)
        elif flow == 1:
            ps = [float(rng.choice([0.75, -2.0])), 4000.0]
            x[:] = rng.integers(-1900, 1900, 3)
        else:
            ps = [float(rng.choice([1.0, 3.5, -2.0]))]
            fixed = [(300, -400), (1200, -50), (-700, -900), (25, -2000), (0, -150), (400, 0)]
            x[h], x[v] = fixed[k % len(fixed)] if k < len(fixed) else (int(rng.integers(-2000, 2000)), -int(rng.integers(100, 2000)))
            x[o] = int(rng.integers(-5, 5))
        pts.append((ps, x))
    return pts


def oracle_representation(flow, hl, vl, ps, x, rep, trep="nan"):
    """The property on the public API for ONE representation of one (integer-valued) point: the callables must not depend on
    how the point is represented, and -- integer representations -- the gradient callable must be the Jacobian of the velocity
    callable formed from lattice neighbours IN THAT REPRESENTATION.  Returns failure strings (known findings filtered)."""
    fails = []
    u, L = make_flow(flow, hl, vl, ps)
    t = present_time(trep)
    xf = np.array([float(a) for a in np.asarray(present(x, rep) if rep != "zero_d_elements" else x, dtype=float)])
    try:
        ref_u, ref_L = np.asarray(u(np.nan, xf), dtype=float), np.asarray(L(np.nan, xf), dtype=float)
    except ValueError:
        return fails                       # outside the domain of the flow
    out = {}
    for name, f in (("velocity", u), ("gradient", L)):
        try:
            with warnings.catch_warnings():
                warnings.simplefilter("ignore")
                out[name] = ("OK", np.asarray(f(t, present(x, rep))))
        except Exception as e:  # noqa: BLE001
            out[name] = ("ERR", f"{type(e).__name__}: {str(e)[:80]}")
    if out["velocity"][0] == "ERR" or out["gradient"][0] == "ERR":
        if rep in MAY_BE_REJECTED and out["velocity"][0] == out["gradient"][0] == "ERR":
            return fails
        return [f"{FLOWS[flow]}({hl!r}, {vl!r}, *{ps}): position {list(x)} as {rep}: velocity callable -> {out['velocity'][1] if out['velocity'][0] == 'ERR' else 'returns'}, "
                f"gradient callable -> {out['gradient'][1] if out['gradient'][0] == 'ERR' else 'returns'}"]
    scale_u = max(float(np.abs(ref_u).max()), abs(ps[0]) * 1e-12)
    scale_L = max(float(np.abs(ref_L).max()), abs(ps[0]) * 1e-300)
    for name, ref, sc in (("velocity", ref_u, scale_u), ("gradient", ref_L, scale_L)):
        got = out[name][1]
        if got.shape != ref.shape or not np.all(np.abs(got.astype(float) - ref) <= rep_rtol(rep) * sc):
            fails.append(f"{FLOWS[flow]}({hl!r}, {vl!r}, *{ps}): the {name} callable depends on the representation of the point: "
                         f"{list(x)} as {rep} (time as {trep}) -> {got.reshape(-1).tolist()[:9]} (dtype {got.dtype}), as float64 -> {ref.reshape(-1).tolist()[:9]}")
    if rep in INT_REPRESENTATIONS and not fails:
        J = np.zeros((3, 3))
        try:
            for k in range(3):
                e = np.zeros(3); e[k] = 1.0
                J[:, k] = (np.asarray(u(t, present(x + e, rep)), dtype=float) - np.asarray(u(t, present(x - e, rep)), dtype=float)) / 2.0
        except ValueError:
            return fails
        # the natural size of the gradient at this point (U / r, U pi / d, rate): on the axis h = 0 of the corner flow every
        # entry of L is exactly 0 and the lattice quotient is its own truncation error (false alarm of the first version)
        sc = max(float(np.abs(ref_L).max()), float(np.abs(J).max()), scale_of(("gradient", flow, hl, vl, ps, 0.0, [float(a) for a in x])))
        if np.abs(J - ref_L).max() > 1e-3 * sc:
            k, m = np.unravel_index(np.abs(J - ref_L).argmax(), (3, 3))
            msg = (f"{FLOWS[flow]}({hl!r}, {vl!r}, *{ps}): gradient[{k},{m}] = {ref_L[k, m]!r} but the Jacobian of the velocity callable from "
                   f"lattice neighbours of {list(x)} ({rep}) has d u_{k} / d x_{m} = {J[k, m]!r}")
            if not explained_by_finding(flow, hl, vl, ps, xf, msg):
                fails.append(msg)
    return fails


def gen_representation_cases(rng, tier):
    """(flow, hl, vl, ps, x, rep, trep): every representation for every flow on two axis pairs; all six axis pairs and the
    time representations with int64 positions"""
    cases = []
    npts = 2 if tier == "quick" else 12
    for flow in range(3):
        for (h, v) in (PAIRS if tier != "quick" else [PAIRS[1], PAIRS[int(rng.integers(6))]]):
            for (ps, x) in lattice_points(flow, h, v, rng, npts):
                for rep in REPRESENTATIONS:
                    cases.append((flow, LETTERS[h], LETTERS[v], ps, x, rep, "nan"))
        for (h, v) in PAIRS:
            for (ps, x) in lattice_points(flow, h, v, rng, 6 if flow == 2 else 1):
                cases.append((flow, LETTERS[h], LETTERS[v], ps, x, "int64", "nan"))
        (ps, x) = lattice_points(flow, 0, 2, rng, 1)[0]
        for trep in TIME_REPRESENTATIONS[1:]:
            cases.append((flow, "X", "Z", ps, x, "int64", trep))
            cases.append((flow, "X", "Z", ps, x, "float64", trep))
    return cases


def compare_representations(chk, cases):
    """property oracle + correspondence (generated wrapper at the float64 value of the point vs the implementation applied
    to the representation).  Returns [(case, message)]."""
    bad = []
    hist = chk.cov.setdefault("histogram", {})
    lines, idx = [], []
    for c in cases:
        flow, hl, vl, ps, x, rep, trep = c
        hist["representation:" + rep] = hist.get("representation:" + rep, 0) + 1
        if trep != "nan":
            hist["time representation:" + trep] = hist.get("time representation:" + trep, 0) + 1
        chk.note_case(("representation", flow, hl, vl, tuple(ps), tuple(x), rep, trep), nontrivial=True)
        for f in oracle_representation(flow, hl, vl, ps, x, rep, trep):
            bad.append((c, f))
        for kind in ("velocity", "gradient"):
            lines.append(gen_line_callable((kind, flow, hl, vl, ps, 0.0, [float(a) for a in x])))
            idx.append((c, kind))
    mres = common.run_model(lines, group=GROUP)
    rejected = 0
    for (c, kind), m in zip(idx, mres):
        flow, hl, vl, ps, x, rep, trep = c
        u, L = make_flow(flow, hl, vl, ps)
        try:
            with warnings.catch_warnings():
                warnings.simplefilter("ignore")
                got = ("OK", [float(a) for a in np.asarray((u if kind == "velocity" else L)(present_time(trep), present(x, rep)), dtype=float).reshape(-1)])
        except Exception as e:  # noqa: BLE001
            got = ("ERR", common.exc_code(e))
        if got[0] == "ERR" and rep in MAY_BE_REJECTED:
            rejected += 1
            continue
        if got[0] != m[0] or (got[0] == "ERR" and got[1] != m[1]):
            bad.append((c, f"{FLOWS[flow]} {kind} at {list(x)} as {rep}: implementation {got[0]} {got[1] if got[0] == 'ERR' else got[1][:9]} vs "
                           f"generated wrapper {m[0]} {m[1] if m[0] == 'ERR' else m[1][:9]}"))
        elif got[0] == "OK":
            sc = scale_of((kind, flow, hl, vl, ps, 0.0, [float(a) for a in x]))
            okc, j = common.vec_close(got[1], m[1], rtol=max(1e-10, rep_rtol(rep)), atol=max(1e-13, rep_rtol(rep)) * sc)
            if not okc:
                bad.append((c, f"{FLOWS[flow]} {kind} at {list(x)} as {rep}, entry {j}: implementation {got[1][j] if 0 <= j < len(got[1]) else None!r} vs "
                               f"generated wrapper {m[1][j] if 0 <= j < len(m[1]) else None!r}"))
    chk.cov["representations"] = {"cases": len(cases), "kinds": list(REPRESENTATIONS), "time_kinds": list(TIME_REPRESENTATIONS),
                                  "rejected_by_both_callables": rejected // 2, "may_be_rejected": list(MAY_BE_REJECTED)}
    return bad


# ---- points exactly ON the boundary of the closed domain, for many sizes (added after seeded change C18f)
# The kernel cases above put ONE point per axis pair on a cell face (k == 1) at a random cell size 10^U(-3,6); the pathlines
# use the cell sizes 2, 1, 10, 1e5 and the unit boxes.  A domain test that goes through a ROUNDED intermediate quantity
# (a phase pi/d * x compared with pi/2, x * (1/d) compared with 1/2, ...) is identical to the documented test |x_i| <= d/2
# over the reals and at every interior point, and in binary64 at every boundary point for MOST sizes d -- for the others
# the points of the faces / edges / corners of the closed domain (the doctests of cell_2d evaluate there) are misplaced.
# So: the boundary points of every flow's domain, and pathlines ending on the faces of the box that IS the flow's cell,
# for MANY sizes: every integer 1..128, powers of ten and of two, decimals as a user types them, random floats.
SIZE_CLASSES = ("integer 1..128", "power of ten", "power of two", "decimal k/10^m", "random 10^U(-3,6)", "random U(1,128)")


def boundary_sizes(rng, tier):
    """[(size class, d)]: the cell sizes / box sizes of the domain-boundary family"""
    quick = tier == "quick"
    out = [(SIZE_CLASSES[0], float(k)) for k in range(1, 129)]
    out += [(SIZE_CLASSES[1], float(10.0 ** k)) for k in range(-3, 7)]
    out += [(SIZE_CLASSES[2], float(2.0 ** k)) for k in (-10, -3, -1, 8, 10, 20)]
    n = 40 if quick else 400
    out += [(SIZE_CLASSES[3], float(round(float(rng.uniform(0.1, 1000.0)), int(rng.integers(1, 3))))) for _ in range(n // 2)]
    out += [(SIZE_CLASSES[4], float(10.0 ** rng.uniform(-3, 6))) for _ in range(n)]
    out += [(SIZE_CLASSES[5], float(rng.uniform(1, 128))) for _ in range(n)]
    if not quick:
        out += [("integer 129..1024", float(k)) for k in range(129, 1025)]
    return out


def rounding_sensitive(d):
    """True iff some algebraically equivalent way of writing the test `x <= d/2` AT x = d/2 evaluates differently in binary64
    (phase against pi/2 in three association orders, reciprocal of d, distance to the face relative to d).  No statement about
    the implementation: used to spend half of the (few) boundary PATHLINES on sizes where a rewritten test would show."""
    x = d / 2
    return bool((math.pi / d) * x > math.pi / 2 or math.pi * x / d > math.pi / 2 or math.pi * (x / d) > math.pi / 2
                or x * (1.0 / d) > 0.5 or (1.0 / d) * x * 2 > 1.0 or x / d > 0.5 or 2 * x > d
                or (x * math.pi) * (1.0 / d) > math.pi / 2 or (2 * math.pi / d) * x > math.pi)


def in_closed_domain(flow, h, v, ps, y):
    """Is y a point of the (closed) domain of the flow?  Exact rational arithmetic on the binary64 values -- the documented
    domain, not a floating-point test: simple shear: everywhere; Stokes cell: |y_h| <= d/2 and |y_v| <= d/2 (`x_i in [-d/2, d/2]`);
    corner flow: the half space y_v <= 0 without the open box |y_h|, |y_v| < 1e-15 around the singular corner."""
    from fractions import Fraction as Fr
    if not all(math.isfinite(a) for a in y):
        return False
    if flow == 0:
        return True
    if flow == 1:
        d = Fr(ps[1] if len(ps) > 1 else 2.0)
        return d > 0 and 2 * abs(Fr(float(y[h]))) <= d and 2 * abs(Fr(float(y[v]))) <= d
    return float(y[v]) <= 0 and not (abs(Fr(float(y[h]))) < Fr(1e-15) and abs(Fr(float(y[v]))) < Fr(1e-15))


def cell_boundary_points(h, v, d, rng):
    """[(class, x, in the closed domain?)] for the cell of edge length d: the four faces, a face midpoint (the doctest
    points), a corner, the binary64 neighbours of a face on both sides"""
    o = 3 - h - v
    lim = d / 2
    pts = []

    def base():
        x = np.zeros(3)
        x[h], x[v], x[o] = rng.uniform(-0.45, 0.45) * d, rng.uniform(-0.45, 0.45) * d, rng.uniform(-1.0, 1.0) * d
        return x
    for name, ax, s in (("face h+", h, 1), ("face h-", h, -1), ("face v+", v, 1), ("face v-", v, -1)):
        x = base(); x[ax] = s * lim
        pts.append((name, x, True))
    ax, other = (h, v) if rng.random() < 0.5 else (v, h)
    x = np.zeros(3); x[ax] = lim if rng.random() < 0.5 else -lim
    pts.append(("face midpoint", x, True))
    x = base(); x[h] = lim if rng.random() < 0.5 else -lim; x[v] = lim if rng.random() < 0.5 else -lim
    pts.append(("corner", x, True))
    s = 1 if rng.random() < 0.5 else -1
    x = base(); x[ax] = s * float(np.nextafter(lim, 0.0))
    pts.append(("just inside a face", x, True))
    x = base(); x[other] = s * float(np.nextafter(lim, np.inf))
    pts.append(("just outside a face", x, False))
    return pts


def corner_boundary_points(h, v, s, rng):
    """boundary of the corner flow's domain at length scale s: the surface y_v = 0 (both zeros), the ridge axis, the far
    edge of the surface / depth s, the rim of the 1e-15 box around the singular corner (the test there is strict)"""
    o = 3 - h - v
    pts = []

    def mk(a, b):
        x = np.zeros(3); x[h], x[v], x[o] = a, b, rng.uniform(-1.0, 1.0) * s
        return x
    sg = 1 if rng.random() < 0.5 else -1
    pts.append(("surface", mk(sg * s * rng.uniform(0.05, 1.0), 0.0), True))
    pts.append(("surface (negative zero)", mk(-sg * s, -0.0), True))
    pts.append(("ridge axis", mk(0.0, -s * rng.uniform(0.05, 1.0)), True))
    pts.append(("rim of the hole", mk(sg * 1e-15, -1e-15 * rng.uniform(0.0, 1.0)) if rng.random() < 0.5 else mk(sg * 1e-15 * rng.uniform(0.0, 1.0), -1e-15), True))
    return pts


def gen_domain_boundary_points(rng, tier):
    """[{flow, hl, vl, ps, x, cls, size_cls, inside}]"""
    pts = []
    sizes = boundary_sizes(rng, tier)
    for k, (scls, d) in enumerate(sizes):
        h, v = PAIRS[k % 6]
        amp = float(10.0 ** rng.uniform(-3, 3)) * (1 if k % 5 else -1)
        for cls, x, inside in cell_boundary_points(h, v, d, rng):
            pts.append({"flow": 1, "hl": LETTERS[h], "vl": LETTERS[v], "ps": [amp, d], "x": x, "cls": cls, "size_cls": scls, "inside": inside, "size": d})
        if k % 4 == 0:
            for cls, x, inside in corner_boundary_points(h, v, d, rng):
                pts.append({"flow": 2, "hl": LETTERS[h], "vl": LETTERS[v], "ps": [amp], "x": x, "cls": cls, "size_cls": scls, "inside": inside, "size": d})
    # edge_length left at its default: the faces of the default cell are at +-1 (the points of the doctests)
    for (h, v) in PAIRS:
        for cls, x, inside in cell_boundary_points(h, v, 2.0, rng):
            pts.append({"flow": 1, "hl": LETTERS[h], "vl": LETTERS[v], "ps": [float(rng.uniform(0.1, 3))], "x": x, "cls": cls,
                        "size_cls": "default edge length", "inside": inside, "size": 2.0})
    return pts


def compare_domain_boundary(chk, pts):
    """correspondence at the boundary points (hand-written wrapper model and the wrapper generated from the source vs the
    implementation: compare_kernels) + the models are pure functions: neither callable may modify the position it is given"""
    from argguard import guarded
    cases = [(kind, p["flow"], p["hl"], p["vl"], p["ps"], float("nan"), [float(a) for a in p["x"]]) for p in pts for kind in ("velocity", "gradient")]
    bad = compare_kernels(chk, cases, rtol=1e-10)
    hist = chk.cov.setdefault("histogram", {})
    outcome = {"returned": 0, "raised": 0}
    sizes = set()
    for p in pts:
        for key in (f"domain boundary:{FLOWS[p['flow']]}:{p['cls']}", f"domain boundary size:{p['size_cls']}"):
            hist[key] = hist.get(key, 0) + 1
        sizes.add((p["flow"], p["size"]))
        u, L = make_flow(p["flow"], p["hl"], p["vl"], p["ps"])
        for kind, f in (("velocity", u), ("gradient", L)):
            x = np.array(p["x"], dtype=float)
            try:
                _, faults = guarded(f, (np.nan, x))
                outcome["returned"] += 1
            except Exception as e:  # noqa: BLE001
                faults = getattr(e, "argguard_faults", [])
                outcome["raised"] += 1
                if p["inside"] and kind == "velocity":
                    hist["domain boundary:raised at a point of the closed domain"] = hist.get("domain boundary:raised at a point of the closed domain", 0) + 1
            for ft_ in faults:
                bad.append(((kind, p["flow"], p["hl"], p["vl"], p["ps"], float("nan"), [float(a) for a in p["x"]]),
                            f"{FLOWS[p['flow']]} {kind} callable at {list(p['x'])} ({p['cls']}): {ft_}"))
    chk.cov["domain_boundary"] = {"points": len(pts), "callable_cases": len(cases), "cell_sizes": sum(1 for (fl, d) in sizes if fl == 1),
                                  "corner_flow_length_scales": sum(1 for (fl, d) in sizes if fl == 2), "size_classes": list(SIZE_CLASSES),
                                  "rounding_sensitive_sizes": sum(1 for (fl, d) in sizes if fl == 1 and rounding_sensitive(d)),
                                  "calls_returned": outcome["returned"], "calls_raised (the just-outside points)": outcome["raised"],
                                  "points_outside (binary64 neighbour beyond a face, must be rejected)": sum(1 for p in pts if not p["inside"])}
    return bad


def oracle_domain_point(flow, hl, vl, ps, x, where=""):
    """The property at ONE point of the closed domain of a flow (interior or boundary): both callables are defined there
    (return finite arrays of shape (3,) / (3, 3) and leave the position alone), the gradient callable is the Jacobian of the
    velocity callable -- difference quotients taken INTO the domain where a neighbour would lie outside -- and trace-free.
    Returns failure strings (the documented shear / cell findings filtered by their exact signature); [] for points that
    are not in the domain (the property says nothing there)."""
    from argguard import guarded
    h, v = ordl(hl), ordl(vl)
    if h > 2 or v > 2 or h == v:
        return []
    x = np.array([float(a) for a in x])
    if not in_closed_domain(flow, h, v, ps, x):
        return []
    xs = [float(a) for a in x]
    name = f"{FLOWS[flow]}({hl!r}, {vl!r}, *{[float(a) for a in ps]})"
    dom = {0: "all of space", 1: f"the closed cell |x_{hl}|, |x_{vl}| <= {(ps[1] if len(ps) > 1 else 2.0) / 2!r}",
           2: f"the half space x_{vl} <= 0 outside the 1e-15 box around the corner"}[flow]
    u, L = make_flow(flow, hl, vl, ps)
    fails, vals = [], {}
    for kind, f, shape in (("velocity", u, (3,)), ("gradient", L, (3, 3))):
        try:
            out, faults = guarded(f, (np.nan, x.copy()))
            out = np.asarray(out, dtype=float)
            if out.shape != shape or not np.all(np.isfinite(out)):
                fails.append(f"{name}: x = {xs}{where} is a point of the domain ({dom}) but the {kind} callable returns {out.reshape(-1).tolist()[:9]}")
            else:
                vals[kind] = out
            fails += [f"{name}: the {kind} callable at x = {xs}: {ft_}" for ft_ in faults]
        except Exception as e:  # noqa: BLE001
            fails.append(f"{name}: x = {xs}{where} is a point of the domain ({dom}) but the {kind} callable raises "
                         f"{type(e).__name__}: {str(e)[:120]}")
    if fails or len(vals) < 2:
        return fails
    G = vals["gradient"]
    # the length over which the field varies: the cell size / the distance to the singular corner / (linear field) the position
    if flow == 1:
        s = abs(ps[1]) if len(ps) > 1 else 2.0
    elif flow == 2:
        s = math.hypot(x[h], x[v])
    else:
        s = max(float(np.abs(x).max()), 1e-300)
    hs = 1e-6 * s
    J = np.full((3, 3), np.nan)
    for k in range(3):
        e = np.zeros(3); e[k] = hs
        inside = {m: in_closed_domain(flow, h, v, ps, x + m * e) for m in (-2, -1, 1, 2)}
        try:
            if inside[1] and inside[-1]:
                J[:, k] = (np.asarray(u(np.nan, x + e)) - np.asarray(u(np.nan, x - e))) / (2 * hs)
            elif inside[-1] and inside[-2]:       # on an upper face: second-order backward quotient
                J[:, k] = (3 * vals["velocity"] - 4 * np.asarray(u(np.nan, x - e)) + np.asarray(u(np.nan, x - 2 * e))) / (2 * hs)
            elif inside[1] and inside[2]:         # on a lower face: second-order forward quotient
                J[:, k] = -(3 * vals["velocity"] - 4 * np.asarray(u(np.nan, x + e)) + np.asarray(u(np.nan, x + 2 * e))) / (2 * hs)
        except Exception as e2:  # noqa: BLE001
            fails.append(f"{name}: the velocity callable raises {type(e2).__name__}: {str(e2)[:100]} at a point of the domain next to x = {xs}{where} "
                         f"(offset {hs!r} along axis {k})")
            return fails
    known = np.isfinite(J)
    # measured against the natural size of the gradient at the point (U / r, U pi / d, rate): on the ridge axis of the corner
    # flow every entry of L is exactly 0 and the difference quotient is its own truncation error
    sc = max(float(np.abs(J[known]).max()) if known.any() else 0.0, float(np.abs(G).max()),
             scale_of(("gradient", flow, hl, vl, ps, 0.0, [float(a) for a in x])), 1e-300)
    msgs = []
    D = np.where(known, np.abs(G - np.where(known, J, 0.0)), 0.0)
    if D.max() > 1e-5 * sc:
        k, m = np.unravel_index(D.argmax(), (3, 3))
        msgs.append(f"{name}: gradient[{k},{m}] = {G[k, m]!r} but d u_{k} / d x_{m} = {J[k, m]!r} at x = {xs}{where}")
    if abs(np.trace(G)) > 1e-9 * sc:
        msgs.append(f"{name}: trace of the gradient = {np.trace(G)!r} at x = {xs}{where}")
    ps_full = list(ps) + [2.0] if flow == 1 and len(ps) == 1 else list(ps)        # cell_2d's documented default edge length
    return fails + [m_ for m_ in msgs if not explained_by_finding(flow, hl, vl, ps_full, x, m_)]


def domain_boundary_specs(rng, tier):
    """Pathlines whose final location lies ON a face / an edge / a corner of the domain box, the box being the flow's own
    cell (Stokes cell: [-d/2, d/2]^3; corner flow: [0, d] x [-d, 0]; simple shear: [-d/2, d/2]^3), for many sizes d: a third
    rounding-sensitive sizes, a third integers / decimals, a third random floats.  [(name, histogram key, spec)]"""
    sizes = boundary_sizes(rng, "quick")
    n = 12 if tier == "quick" else 120
    sens = [sd for sd in sizes if rounding_sensitive(sd[1])]
    plain = [sd for sd in sizes if sd[0] in SIZE_CLASSES[:4]]
    rand = [sd for sd in sizes if sd[0] in SIZE_CLASSES[4:]]
    picks = []
    for pool in (sens, plain, rand):
        if pool:
            picks += [pool[int(i)] for i in rng.choice(len(pool), size=min(n, len(pool)), replace=False)]
    out = []
    for k, (scls, d) in enumerate(picks):
        h, v = PAIRS[k % 6]
        o = 3 - h - v
        hl, vl = LETTERS[h], LETTERS[v]
        ms = float(rng.choice([0.25, 0.5, 1.0, 2.0]))
        steps = None if k % 4 else int(rng.choice([1, 5, 20]))
        # (a) the Stokes cell, final location on one face of the flow plane; (b) on the dummy-axis face / an edge / a corner
        for variant in ("flow-plane face", ("dummy-axis face", "edge", "edge", "corner")[k % 4]):
            mn, mx = -np.ones(3) * d / 2, np.ones(3) * d / 2
            p = rng.uniform(-0.45, 0.45, 3) * d
            axes = {"flow-plane face": [(h, v)[k % 2]], "dummy-axis face": [o], "edge": [(h, v)[k % 2], o], "corner": [h, v]}[variant]
            for ax in axes:
                p[ax] = mn[ax] if rng.random() < 0.5 else mx[ax]
            ps = [float(10.0 ** rng.uniform(-1, 0.5)) * d / 2, d]
            out.append((f"cell_2d, d = {d!r} ({scls}): final location on {'an' if variant == 'edge' else 'a'} {variant} of the cell", f"cell_2d:{variant}",
                        (1, hl, vl, ps, mn, mx, p, ms, steps if variant != "corner" else None)))
        # (c) one of the other two flows in a box of the same size
        mn, mx, p = np.zeros(3), np.zeros(3), np.zeros(3)
        if k % 2:
            mn[:], mx[:] = -d / 2, d / 2
            p[:] = rng.uniform(-0.45, 0.45, 3) * d
            ax = (h, v, o)[(k // 2) % 3]
            p[ax] = mn[ax] if rng.random() < 0.5 else mx[ax]
            out.append((f"simple_shear_2d, box size {d!r} ({scls}): final location on a face", "simple_shear_2d:face",
                        (0, hl, vl, [float(10.0 ** rng.uniform(-2, 1))], mn, mx, p, ms, steps)))
        else:
            mn[h], mx[h], mn[v], mx[v], mn[o], mx[o] = 0.0, d, -d, 0.0, -d / 2, d / 2
            p[h], p[v], p[o] = rng.uniform(0.05, 0.95) * d, -rng.uniform(0.05, 0.95) * d, rng.uniform(-0.45, 0.45) * d
            which = ("surface", "bottom", "far face", "ridge axis")[(k // 2) % 4]
            if which == "surface":
                p[v] = 0.0
            elif which == "bottom":
                p[v] = -d
            elif which == "far face":
                p[h] = d
            else:
                p[h] = 0.0
            out.append((f"corner_2d, box size {d!r} ({scls}): final location on the {which}", f"corner_2d:{which}",
                        (2, hl, vl, [float(10.0 ** rng.uniform(-1, 0.5)) * d], mn, mx, p, ms, steps)))
    return out


# ---- strain increment over the eigenvalue oracle
def compare_strain_increment(chk, rng, tier):
    import pydrex.utils as utils
    n = 60 if tier == "quick" else 1000
    cases, lines = [], []
    worst = 0.0
    for k in range(n):
        L = rng.normal(size=(3, 3)) * 10.0 ** rng.uniform(-15, 3)
        if k % 5 == 0:
            L = L - np.trace(L) / 3 * np.eye(3)
        if k % 7 == 0:
            L = np.zeros((3, 3)); L[0, 2] = 2.0 * (k + 1)
        dt = float(rng.normal() * 10.0 ** rng.uniform(-6, 12))
        S = (L + L.T) / 2
        w, V = np.linalg.eigh(S)
        e = float(np.abs(np.linalg.eigvalsh(S)).max())
        # oracle hypothesis: e is the largest |eigenvalue| of S -- residuals of the eigenpairs
        res = float(np.abs(S @ V - V * w).max())
        nrm = max(float(np.abs(S).max()), 1e-300)
        worst = max(worst, res / nrm, abs(e - float(np.abs(w).max())) / max(e, 1e-300))
        cases.append((dt, L, e))
        lines.append(common.model_line("strain_increment", [], [dt] + list(L.reshape(-1)) + [e]))
    mres = common.run_model(lines, group=GROUP)
    bad = []
    for (dt, L, e), m in zip(cases, mres):
        got = float(utils.strain_increment(dt, L))
        chk.note_case(("strain_increment", dt, L.tobytes()), nontrivial=got != 0)
        if m[0] != "OK" or not common.close(got, m[1][0], rtol=1e-12, atol=0.0):
            bad.append((("strain_increment", dt, L), f"strain_increment: implementation {got!r} vs model {m}"))
    chk.cov.setdefault("oracle_residuals", {})["eigvalsh: max relative eigenpair residual / max-|eigenvalue| mismatch"] = worst
    if worst > 1e-9:
        bad.append((("oracle", "eigvalsh"), f"oracle hypothesis of eigvalsh violated: residual {worst:.3e}"))
    return bad


# ---- _is_inside / _ivp_func
def compare_inside(chk, rng, tier):
    import pydrex.pathlines as P
    n = 80 if tier == "quick" else 1500
    bad, lines, cases = [], [], []
    for k in range(n):
        mn = rng.uniform(-2, 0, 3)
        mx = mn + rng.uniform(0.1, 3, 3)
        pt = mn + (mx - mn) * rng.uniform(-0.3, 1.3, 3)
        if k % 9 == 0:
            pt[k % 3] = mn[k % 3]      # on a face: inside (strict comparisons)
        if k % 11 == 0:
            pt[k % 3] = mx[k % 3]
        cases.append(("is_inside", pt, mn, mx, 3))
        lines.append(common.model_line("is_inside", [3, 3], list(pt) + list(mn) + list(mx)))
    cases.append(("is_inside", np.zeros(3), -np.ones(3), np.ones(2), 2))     # size mismatch -> AssertionError
    lines.append(common.model_line("is_inside", [3, 2], [0, 0, 0, -1, -1, -1, 1, 1]))
    mres = common.run_model(lines, group=GROUP)
    # the same cases through the code GENERATED from pathlines.py (sizes 3, 3, 3 only)
    glines = [common.model_line("gen_is_inside", [], list(pt) + list(mn) + list(mx)) for (_, pt, mn, mx, n2) in cases if n2 == 3]
    gres = iter(common.run_model(glines, group=GROUP))
    for (_, pt, mn, mx, n2), m in zip(cases, mres):
        try:
            r = ("OK", [1.0 if P._is_inside(pt, mn, mx) else 0.0])
        except Exception as e:  # noqa: BLE001
            r = ("ERR", common.exc_code(e))
        chk.note_case(("is_inside", pt.tobytes(), mn.tobytes(), mx.tobytes()), nontrivial=True)
        if (r[0], r[1]) != (m[0], m[1]):
            bad.append((("is_inside", pt, mn, mx), f"_is_inside: implementation {r} vs model {m}"))
        if n2 == 3:
            g = next(gres)
            if (r[0], r[1]) != (g[0], g[1]):
                bad.append((("is_inside", pt, mn, mx), f"_is_inside: implementation {r} vs generated code {g}"))
    # _ivp_func with the cell flow
    lines, cases = [], []
    for k in range(n // 2):
        d = float(10.0 ** rng.uniform(-1, 2))
        amp = float(rng.uniform(0.1, 5))
        h, v = PAIRS[k % 6]
        mn, mx = -np.ones(3) * d / 2, np.ones(3) * d / 2
        pt = rng.uniform(-0.65, 0.65, 3) * d
        cases.append((h, v, amp, d, pt, mn, mx))
        lines.append(common.model_line("ivp_func", [1, h, v], list(pt) + list(mn) + list(mx) + [amp, d]))
    mres = common.run_model(lines, group=GROUP)
    gfun = common.run_model([ln.replace("ivp_func ", "gen_ivp 0 ", 1) for ln in lines], group=GROUP)
    gjac = common.run_model([ln.replace("ivp_func ", "gen_ivp 1 ", 1) for ln in lines], group=GROUP)
    for (h, v, amp, d, pt, mn, mx), m, gf, gj in zip(cases, mres, gfun, gjac):
        u, L = make_flow(1, LETTERS[h], LETTERS[v], [amp, d])
        try:
            r = ("OK", [float(a) for a in P._ivp_func(0.0, pt, u, L, mn, mx)])
        except Exception as e:  # noqa: BLE001
            r = ("ERR", common.exc_code(e))
        try:
            rj = ("OK", [float(a) for a in np.asarray(P._ivp_jac(0.0, pt, u, L, mn, mx)).reshape(-1)])
        except Exception as e:  # noqa: BLE001
            rj = ("ERR", common.exc_code(e))
        chk.note_case(("ivp_func", pt.tobytes(), d, amp, h, v), nontrivial=r[0] == "OK" and any(r[1]))
        chk.note_case(("ivp_jac", pt.tobytes(), d, amp, h, v), nontrivial=rj[0] == "OK" and any(rj[1]))
        for what, rr, mm in (("_ivp_func: implementation vs model", r, m), ("_ivp_func: implementation vs generated code", r, gf),
                             ("_ivp_jac: implementation vs generated code", rj, gj)):
            ok = rr[0] == mm[0] and (rr[1] == mm[1] if rr[0] == "ERR" else
                                     common.vec_close(rr[1], mm[1], rtol=1e-11, atol=1e-13 * amp * max(1.0, math.pi / d))[0])
            if not ok:
                bad.append((("ivp_func", pt, mn, mx), f"{what}: {rr} vs {mm}"))
    return bad


# --------------------------------------------------------------------------
# pathlines: real get_pathline runs, recorded through a wrapper of solve_ivp
# --------------------------------------------------------------------------
def pathline_specs(rng, tier):
    """(flow, hl, vl, ps, mn, mx, final, max_strain, regular_steps)"""
    n = 60 if tier == "quick" else 1500
    specs = []
    for k in range(n):
        flow = k % 3
        h, v = PAIRS[(k // 3) % 6]
        o = 3 - h - v
        mn, mx, p = np.zeros(3), np.zeros(3), np.zeros(3)
        if flow == 0:
            ps = [float(10.0 ** rng.uniform(-2, 1))]
            mn[:], mx[:] = -1.0, 1.0
            p[:] = rng.uniform(-0.9, 0.9, 3)
        elif flow == 1:
            d = float(rng.choice([2.0, 1.0, 10.0, 1e5]))
            ps = [float(10.0 ** rng.uniform(-1, 0.5)) * (d / 2 if d < 1e4 else 6.3e-10 * 1e5 / 2), d]
            mn[:], mx[:] = -d / 2, d / 2
            p[:] = rng.uniform(-0.45, 0.45, 3) * d
        else:
            ps = [float(10.0 ** rng.uniform(-1, 0.5))]
            mn[h], mx[h] = 0.0, 2.0
            mn[v], mx[v] = -2.0, 0.0
            mn[o], mx[o] = -1.0, 1.0
            p[h], p[v], p[o] = rng.uniform(0.05, 1.9), rng.uniform(-1.9, -0.05), rng.uniform(-0.9, 0.9)
        ms = float(rng.choice([0.25, 0.5, 1.0, 2.0, 5.0]))
        steps = None if k % 4 else int(rng.choice([1, 2, 10, 50]))
        if tier != "quick" and k % 5 == 4:
            # thorough tier: every fifth end point is moved ONTO the boundary of the box -- one, two or three coordinates
            # snapped to a face (a face, an edge, a corner), lower or upper side at random
            for ax in rng.permutation(3)[:int(rng.integers(1, 4))]:
                p[ax] = mn[ax] if rng.random() < 0.5 else mx[ax]
            if flow == 2 and abs(p[h]) < 1e-9 and abs(p[v]) < 1e-9:
                p[v] = mn[v]          # not the singular corner itself (outside the domain of the flow)
        specs.append((flow, LETTERS[h], LETTERS[v], ps, mn, mx, p, ms, steps))
    return specs


def fresh_pathlines_module():
    """A private copy of pydrex.pathlines with fresh module-level state (not registered in
    sys.modules): whatever an earlier call may have left in the module cannot reach it."""
    import importlib.util
    sp = importlib.util.find_spec("pydrex.pathlines")
    mod = importlib.util.module_from_spec(sp)
    sp.loader.exec_module(mod)
    return mod


ILLEGAL_KWARGS = ("events", "jac", "dense_output", "args")


def decode_kwargs(kw):
    """solver keyword arguments of a `path` step as Python objects (JSON has no tuples)"""
    out = dict(kw or {})
    if "args" in out:
        out["args"] = tuple(out["args"])
    return out


def alters_solver(kw):
    """True iff some keyword argument reaches solve_ivp (the four illegal ones are dropped with a warning)"""
    return any(k not in ILLEGAL_KWARGS for k in (kw or {}))


def run_pathline(spec, callables=None, raw_args=None, module=None, solver_kwargs=None):
    """Run pydrex.pathlines.get_pathline, recording every call of the terminal event and
    solve_ivp's own result.  Returns a dict.
    callables: the (velocity, gradient) pair to use (default: a new flow built from `spec`);
    raw_args: the objects (final_location, min_coords, max_coords, max_strain) to pass as they
    are (lists, float32 arrays, arrays shared between calls ...; default: fresh float64 copies);
    module: the pydrex.pathlines module object to call (default: the imported one)."""
    if module is None:
        import pydrex.pathlines as P
    else:
        P = module
    flow, hl, vl, ps, mn, mx, p, ms, steps = spec
    u, L = callables if callables is not None else make_flow(flow, hl, vl, ps)
    a_p, a_mn, a_mx, a_ms = raw_args if raw_args is not None else (p.copy(), mn.copy(), mx.copy(), ms)
    rec = {"calls": [], "t": None, "status": None, "exc": None, "request": None}
    real = P.si.solve_ivp

    def recording(fun, t_span, y0, **kw):
        ev = kw["events"][0]
        # what get_pathline asks solve_ivp for, in the layout of the generated request vector (k_request_n3)
        try:
            other = set(kw) - {"method", "events", "args", "dense_output", "jac", "atol", "rtol", "first_step", "max_step"}
            a = kw.get("args", ())
            rec["request"] = ([float(t_span[0]), float(t_span[1]), float(len(t_span))] + [float(v) for v in np.asarray(y0, dtype=float)]
                              + [float(kw.get("atol", 1e-6)), float(kw.get("rtol", 1e-3)), float(METHODS.index(kw.get("method", "RK45"))),
                                 float(len(kw["events"])), float(bool(getattr(ev, "terminal", False))), float(getattr(ev, "direction", 0)),
                                 float(kw.get("dense_output", False) is True), float(fun is P._ivp_func), float(kw.get("jac") is P._ivp_jac),
                                 float(isinstance(a, tuple) and len(a) == 4 and a[0] is u and a[1] is L and a[2] is a_mn and a[3] is a_mx),
                                 float(kw.get("first_step", 0.0)), float(kw.get("max_step", 0.0)), float(len(other))])
        except Exception as e:  # noqa: BLE001
            rec["request"] = f"{type(e).__name__}: {e}"

        def ev2(t, y, *a):
            val = ev(t, y, *a)
            rec["calls"].append((float(t), np.array(y, dtype=float), float(val)))
            return val
        ev2.terminal = ev.terminal
        kw["events"] = [ev2]
        res = real(fun, t_span, y0, **kw)
        rec["t"], rec["status"] = np.array(res.t), res.status
        return res

    P.si.solve_ivp = recording

    def on_alarm(signum, frame):
        raise TimeoutError(f"get_pathline did not return within {PATHLINE_TIMEOUT_S} s")

    old = signal.signal(signal.SIGALRM, on_alarm)
    signal.alarm(PATHLINE_TIMEOUT_S)
    try:
        with warnings.catch_warnings():
            warnings.simplefilter("ignore")
            ts, f = P.get_pathline(a_p, u, L, a_mn, a_mx, max_strain=a_ms, regular_steps=steps, **decode_kwargs(solver_kwargs))
        rec["ts"], rec["f"], rec["ts_obj"] = np.array(ts), f, ts
    except Exception as e:  # noqa: BLE001
        rec["exc"] = (type(e).__name__, str(e)[:200])
    finally:
        signal.alarm(0)
        signal.signal(signal.SIGALRM, old)
        P.si.solve_ivp = real
    if len(rec["calls"]) > MAX_EVENT_CALLS:        # keep the replay through the model bounded
        rec["calls_truncated"] = len(rec["calls"])
        rec["calls"] = rec["calls"][:MAX_EVENT_CALLS]
    rec["u"], rec["L"] = u, L
    return rec


def rate_at(L, x):
    G = np.asarray(L(np.nan, x))
    return float(np.abs(np.linalg.eigvalsh((G + G.T) / 2)).max())


def check_pathline(chk, spec, rec, stats, solver_kwargs=None):
    """Model replay of the event + time stamps (correspondence) and the runtime-checked clauses.
    Returns a list of failure strings."""
    flow, hl, vl, ps, mn, mx, p, ms, steps = spec
    fails = []
    u, L = rec["u"], rec["L"]
    # ---- the stateful event: replay the recorded call history through the extracted model
    calls = rec["calls"]
    have_model = os.path.exists(os.path.join(common.EXTRACT, GROUP, "driver"))     # absent only in a bare replay
    # `--replay` does not rebuild: the code GENERATED from the source inside the driver may come from another tree than
    # the one being replayed, so a replay judges with the property clauses and the hand-written model only
    use_generated = have_model and not os.environ.get("C18_REPLAY_MODE")
    if calls and have_model:
        xs = [ms] + list(mn) + list(mx) + list(ps)
        for (t, y, _) in calls:
            inside = bool(np.all(y >= mn) and np.all(y <= mx))
            e = rate_at(L, y) if inside else 0.0
            xs += [t] + list(y) + [e]
        m, g = common.run_model([common.model_line(e, [flow, ordl(hl), ordl(vl), len(ps), len(calls)], xs) for e in ("event", "gen_event")],
                                group=GROUP)
        stats["event_calls"] += len(calls)
        if m[0] != "OK" and os.environ.get("C18_REPLAY_MODE"):
            # `--replay` does not rebuild, and the hand-written state machine reaches the gradient through the kernel GENERATED
            # from whichever tree was checked last: when that tree rejects a point that this tree accepts (a changed domain test,
            # seeded change C18f) the stale driver raises here although implementation and property are fine.  The event VALUES
            # do not depend on the generated kernel (the strain rate is passed in), only this error path does: a replay judges
            # the remaining clauses.
            print(f"(replay: the extracted event model raises {m[1]} on the recorded call history -- driver built from another tree? not judged)")
        elif m[0] != "OK":
            fails.append(f"terminal event: model raises {m[1]} on the recorded call history")
        else:
            okc, j = common.vec_close([c[2] for c in calls], m[1], rtol=1e-9, atol=1e-12 * ms)
            if not okc:
                fails.append(f"terminal event call {j}: implementation returned {calls[j][2]!r}, model {m[1][j]!r}")
        # ... and through the closure GENERATED from the source (state threaded from call to call, initial
        # state read off the generated request)
        if not use_generated:
            pass
        elif g[0] != "OK":
            fails.append(f"terminal event: generated closure raises {g[1]} on the recorded call history")
        else:
            okc, j = common.vec_close([c[2] for c in calls], g[1][:-2], rtol=1e-9, atol=1e-12 * ms)
            if not okc:
                fails.append(f"terminal event call {j}: implementation returned {calls[j][2]!r}, generated closure {g[1][j]!r}")
    if rec.get("request") is not None and use_generated:
        g = common.run_model([common.model_line("gen_request", [], list(p) + list(mn) + list(mx) + [ms])], group=GROUP)[0]
        stats["requests_compared"] = stats.get("requests_compared", 0) + 1
        rq = rec["request"]
        want = list(g[1]) if g[0] == "OK" else None
        if want is not None and solver_kwargs:
            # the options THIS call passes (C18_generated_request_kwargs / Model_pathline_options.request_of): every other
            # entry is that of the plain request -- whatever earlier calls of the process passed
            kw = solver_kwargs
            for name, idx in (("atol", 6), ("rtol", 7), ("first_step", 16), ("max_step", 17)):
                if name in kw:
                    want[idx] = float(kw[name])
            if "method" in kw:
                want[8] = float(METHODS.index(kw["method"]))
            want[18] = float(sum(1 for k in kw if k not in ILLEGAL_KWARGS + ("atol", "rtol", "first_step", "max_step", "method")))
        if isinstance(rq, str) or want is None or not common.vec_close(rq, want[:len(rq)], rtol=0.0, atol=0.0)[0]:
            fails.append(f"solve_ivp was called with {rq}; the request of THIS call according to the source-generated model is "
                         f"{want[:19] if want is not None else g} (entries: t_span 0-2, y0 3-5, atol 6, rtol 7, method 8, ..., first_step 16, "
                         f"max_step 17, other keyword arguments 18)")
    if alters_solver(solver_kwargs):
        # the caller asked for another solver set-up (coarser tolerances, t_eval ...): the trajectory clauses are measured
        # for the documented defaults only; what is checked for such a call is the request and the event semantics above
        return fails
        # how often is the event evaluated at non-monotone times (the root finder jumps)?
        tt = [c[0] for c in calls]
        stats["event_forward_jumps"] += sum(1 for a, b in zip(tt, tt[1:]) if b > a)
    if rec["exc"] is not None:
        return fails
    # ---- oracle hypothesis about solve_ivp + the post-processing model
    t = rec["t"]
    ts = rec["ts"]
    if t is None:
        # the model: get_pathline = post-processing of THIS call's solve_ivp result (a function of the
        # arguments, Model_pathline_session.get_pathline); a result that was not computed by this call
        # can only come from state left behind by an earlier call
        fails.append("get_pathline returned a pathline without calling solve_ivp: the result was not computed from "
                     "this call's arguments (state carried over from an earlier call)")
        t = np.array([0.0, float(ts[0])]) if len(ts) else np.array([0.0, -1.0])
    else:
        if ms <= 1e-290 and len(t) == 2 and t[0] == 0.0 and t[1] == 0.0 and np.all(ts == 0.0):
            # KNOWN FINDING (KF_ZERO): a strain limit of 0 (or one that underflows) makes the terminal event 0 at t = 0;
            # solve_ivp then returns t = [0, 0] and get_pathline hands the duplicate on
            rec["known"] = rec.get("known", []) + [KF_ZERO]
            return fails
        if not (t[0] == 0.0 and np.all(np.diff(t) < 0)):
            fails.append(f"oracle hypothesis violated: solve_ivp times do not start at 0 and strictly decrease: {t[:4]}")
        m = ("OK", list(ts)) if not have_model else common.run_model([common.model_line("timestamps", [0 if steps is None else 1, steps or 0], list(t))], group=GROUP)[0]
        if m[0] != "OK" or not common.vec_close(list(ts), m[1], rtol=1e-12, atol=1e-15 * abs(t[-1]))[0]:
            fails.append(f"time stamps: implementation {list(ts)[:4]}... vs model {m[1][:4] if m[0] == 'OK' else m}")
    # ---- runtime-checked clauses (not provable: they are about solve_ivp's trajectory)
    f = rec["f"]
    if len(ts) == 0:
        fails.append("get_pathline returned no time stamps at all")
        return fails
    size = float(np.max(mx - mn))
    if size == 0.0:        # a box that is a single point: lengths are measured against the coordinates themselves
        size = max(float(np.max(np.abs(mx))), 1e-300)
    if not (len(ts) >= 2 and np.all(np.diff(ts) > 0) and ts[-1] == 0.0):
        if steps == 0 and len(ts) == 1 and len(t) >= 2 and ts[0] == t[-1]:
            # KNOWN FINDING (KF_STEPS0): regular_steps = 0 returns the single EARLIEST time (np.linspace(a, b, 1) = [a])
            rec["known"] = rec.get("known", []) + [KF_STEPS0]
        elif len(t) >= 2:
            fails.append(f"time stamps are not strictly increasing up to 0: {list(ts)[:5]}")
    end = np.asarray(f(0.0))
    d_end = float(np.abs(end - p).max())
    stats["end_error_max"] = max(stats["end_error_max"], d_end / size)
    if d_end > 1e-9 * size:
        fails.append(f"pathline does not end at the requested location: f(0) = {end}, requested {p}")
    T = float(-ts[0])
    if T > 0:
        taus = -T * (np.arange(400) + 0.5) / 400
        X = np.array([f(tau) for tau in taus])
        Xe = np.vstack([X, np.asarray(f(-T))[None]])      # incl. the start of the pathline
        out = float(max(np.max(mn - Xe), np.max(Xe - mx), 0.0))
        stats["outside_max"] = max(stats["outside_max"], out / size)
        if out > 2e-3 * size:
            fails.append(f"pathline leaves the box by {out:.3e} (box size {size})")
        with warnings.catch_warnings():
            warnings.simplefilter("ignore")
            rates = []
            for x in X:
                xin = np.minimum(np.maximum(x, mn), mx)
                try:
                    rates.append(rate_at(L, xin))
                except Exception:  # noqa: BLE001
                    rates.append(0.0)
        strain = float(np.sum(rates) * T / 400)
        # a strain limit of 0: the pathline must be (numerically) of zero length -- measured against the strain one solver
        # step accumulates (first step of LSODA <= 1e-4 of the natural time 1/rate)
        ratio = strain / ms if ms > 0 else (0.0 if strain <= 1e-3 else float("inf"))
        if stagnation_corner(spec, rec) and strain > 1.25 * ms * (1 + 1e-3):
            # KNOWN FINDING (KF_STAGNATION): end point at a corner of the Stokes cell (a stagnation point ON the box): the
            # velocity is ~1e-16 U, LSODA takes one step of ~1e9 time units, the point drifts out of the box by ~1e-6, the
            # event returns exactly 0 there ("outside") and the root is located at the far end of the step
            rec["known"] = rec.get("known", []) + [KF_STAGNATION]
        else:
            stats["strain_ratio_max"] = max(stats["strain_ratio_max"], ratio)
            stats["strain_ratios"].append(round(ratio, 4))
            if ratio > 1.25 * (1 + 1e-3):
                fails.append(f"accumulated strain {strain:.6g} exceeds 1.25 x max_strain = {1.25 * ms:.6g}")
        # dx/dt = u(x) at interior sample times (central differences of the interpolant)
        worst = 0.0
        hstep = 1e-5 * T
        for tau in -T * np.array([0.08, 0.2, 0.35, 0.5, 0.65, 0.8, 0.93]):
            x = np.asarray(f(tau))
            margin = 1e-3 * size * (mx > mn)      # an axis with min == max (2D set-up in 3D) has no interior
            if np.any(x < mn + margin) or np.any(x > mx - margin):
                continue
            try:
                ux = np.asarray(u(np.nan, x))
            except Exception:  # noqa: BLE001
                continue
            dx = (np.asarray(f(tau + hstep)) - np.asarray(f(tau - hstep))) / (2 * hstep)
            umax = max(float(np.abs(ux).max()), abs(ps[0]) * (1e-3 if flow else 1e-3 * size))
            # rounding error of the difference quotient itself (positions carry ~eps |x|): a pathline so short that the
            # quotient cannot resolve 0.1 % of the velocity says nothing about dx/dt (false alarm at max_strain = 1e-12)
            if 4 * np.finfo(float).eps * max(float(np.abs(x).max()), 1e-300) / (2 * hstep) > 1e-3 * umax:
                stats["ode_samples_unresolvable"] = stats.get("ode_samples_unresolvable", 0) + 1
                continue
            worst = max(worst, float(np.abs(dx - ux).max()) / umax)
        stats["ode_residual_max"] = max(stats["ode_residual_max"], worst)
        if worst > 5e-2:
            fails.append(f"dx/dt differs from u(x) by {worst:.3e} (relative) along the pathline")
    return fails


def stagnation_corner(spec, rec):
    """signature of KF_STAGNATION: cell_2d, end point exactly at a corner of the cell (|h| = |v| = d/2), velocity there
    below 1e-15 U, and solve_ivp returned after ONE step"""
    flow, hl, vl, ps, mn, mx, p, ms, steps = spec
    if flow != 1 or rec["t"] is None or len(rec["t"]) != 2:
        return False
    h, v = ordl(hl), ordl(vl)
    if not (abs(p[h]) == ps[1] / 2 and abs(p[v]) == ps[1] / 2):
        return False
    return bool(np.abs(np.asarray(rec["u"](np.nan, p))).max() <= 1e-15 * abs(ps[0]))


def boundary_specs():
    """Deterministic boundary-value pathlines (every run, both tiers): end points ON faces / edges / corners of the box
    (inflow and outflow side), degenerate boxes (one axis or all axes with min == max), strain limits 0 / tiny / so large
    that the box decides / reached exactly AT a face, regular_steps 0 and 1.  [(name, spec)]"""
    one = np.ones(3)
    A = np.array
    out = []
    S = (0, "X", "Z", [1.0])                      # u_x = z
    for name, p, ms, steps in (
            ("shear: end point on the face z = max", [0.25, 0.5, 1.0], 0.5, None),
            ("shear: end point on the inflow face", [-1.0, 0.5, 0.5], 0.5, None),
            ("shear: end point on the outflow face", [1.0, 0.5, 0.5], 0.5, None),
            ("shear: end point on an edge", [0.25, 1.0, 1.0], 0.5, 5),
            ("shear: end point at a corner (outflow)", [1.0, 1.0, 1.0], 0.5, None),
            ("shear: end point at a corner (inflow)", [-1.0, -1.0, 1.0], 0.5, None),
            ("shear: end point on the line u = 0", [0.3, 0.0, 0.0], 0.5, None),
            ("shear: strain limit 0", [0.25, 0.5, 0.5], 0.0, None),
            ("shear: strain limit 0, resampled", [0.25, 0.5, 0.5], 0.0, 3),
            ("shear: strain limit 1e-300", [0.25, 0.5, 0.5], 1e-300, None),
            ("shear: strain limit 1e-12", [0.25, 0.5, 0.5], 1e-12, None),
            ("shear: strain limit 1e9 (the box decides)", [0.25, 0.5, 0.5], 1e9, None),
            ("shear: strain limit reached exactly at the inflow face", [0.25, 0.5, 0.5], 2.5, None),
            ("shear: regular_steps = 0", [0.25, 0.5, 0.5], 0.5, 0),
            ("shear: regular_steps = 1", [0.25, 0.5, 0.5], 0.5, 1)):
        out.append((name, S + (-one, one, A(p), ms, steps)))
    p = A([0.25, 0.5, 0.5])
    out.append(("shear: box = the end point", S + (p.copy(), p.copy(), p.copy(), 0.5, None)))
    out.append(("shear: flat box (dummy axis)", S + (A([-1, 0.5, -1.0]), A([1, 0.5, 1.0]), p.copy(), 0.5, None)))
    out.append(("shear: flat box (gradient axis)", S + (A([-1, -1, 0.5]), A([1, 1, 0.5]), p.copy(), 0.5, 4)))
    out.append(("shear: flat box (flow axis)", S + (A([0.25, -1, -1.0]), A([0.25, 1, 1.0]), p.copy(), 0.5, None)))
    S2 = (0, "Z", "Y", [0.5])
    out.append(("shear ZY: end point at a corner", S2 + (-one, one, A([1.0, -1.0, -1.0]), 1.0, None)))
    C = (1, "X", "Z", [1.0, 2.0])
    for name, p, ms, steps in (
            ("cell: end point on a face", [1.0, 0.0, 0.3], 0.5, None),
            ("cell: end point on the opposite face", [-0.4, 0.0, -1.0], 0.5, 10),
            ("cell: end point at the centre (stagnation point)", [0.0, 0.0, 0.0], 0.5, None),
            ("cell: end point at a corner (stagnation point on the box)", [1.0, 0.0, 1.0], 0.5, None),
            ("cell: strain limit 0", [0.3, 0.0, 0.2], 0.0, None),
            ("cell: strain limit 20 (several revolutions)", [0.3, 0.0, 0.2], 20.0, None)):
        out.append((name, C + (-one, one, A(p), ms, steps)))
    out.append(("cell: box smaller than the cell, end point on its corner",
                C + (A([-0.5, -0.5, -0.5]), A([0.5, 0.5, 0.5]), A([0.5, 0.5, 0.5]), 0.5, None)))
    K = (2, "X", "Z", [1.0])
    mn, mx = A([0.0, -1.0, -2.0]), A([2.0, 1.0, 0.0])
    for name, p, ms, steps in (
            ("corner: end point on the surface", [0.5, 0.0, 0.0], 0.5, None),
            ("corner: end point on the ridge axis", [0.0, 0.0, -0.5], 0.5, None),
            ("corner: end point on the bottom face", [0.5, 0.0, -2.0], 0.5, None),
            ("corner: end point on the far face", [2.0, 0.0, -0.5], 0.5, 7),
            ("corner: end point at a lower corner of the box", [2.0, 1.0, -2.0], 0.5, None),
            ("corner: strain limit 0", [0.5, 0.0, -0.5], 0.0, None),
            ("corner: strain limit 1e9 (the box decides)", [0.5, 0.0, -0.5], 1e9, None)):
        out.append((name, K + (mn.copy(), mx.copy(), A(p), ms, steps)))
    out.append(("corner: 2D box in 3D (dummy axis min = max = 0), end point on the surface",
                K + (A([0.0, 0.0, -2.0]), A([2.0, 0.0, 0.0]), A([0.75, 0.0, 0.0]), 1.0, None)))
    return out


def encode_spec(spec):
    flow, hl, vl, ps, mn, mx, p, ms, steps = spec
    return {"call": "pydrex.pathlines.get_pathline", "flow": FLOWS[flow], "horizontal": hl, "vertical": vl,
            "flow_params": [hx(a) for a in ps], "min_coords": [hx(a) for a in mn], "max_coords": [hx(a) for a in mx],
            "final_location": [hx(a) for a in p], "final_location_float": [float(a) for a in p],
            "max_strain": hx(ms), "regular_steps": steps}


def decode_spec(d):
    return (FLOWS.index(d["flow"]), d["horizontal"], d["vertical"], [unhx(a) for a in d["flow_params"]],
            np.array([unhx(a) for a in d["min_coords"]]), np.array([unhx(a) for a in d["max_coords"]]),
            np.array([unhx(a) for a in d["final_location"]]), unhx(d["max_strain"]), d["regular_steps"])


WITNESS_PATH = (1, "X", "Z", [1.0, 2.0], -np.ones(3), np.ones(3), np.array([0.6, 0.0, 0.6]), 0.5, None)


def is_known_pathline_failure(spec, rec, event_fails):
    """The stateful-event finding: cell_2d / corner_2d (position-dependent strain rate), scipy's
    brentq refusing the bracket, and the recorded event values are exactly what the state
    machine of Model_pathlines produces (so nothing else went wrong)."""
    return (rec["exc"] is not None and rec["exc"][0] == "ValueError" and BRENTQ_MSG in rec["exc"][1]
            and spec[0] in (1, 2) and not event_fails)


# --------------------------------------------------------------------------
# call sequences: get_pathline is a function of its arguments (Model_pathline_session.v)
# --------------------------------------------------------------------------
# A scenario is a list of steps executed one after the other IN ONE PROCESS:
#   {"op": "flow", "slot": k, "flow": name, "h": letter, "v": letter, "ps": [hex]}   build a flow into slot k
#   {"op": "drop", "slot": k}                    forget the flow of slot k, then gc.collect()
#   {"op": "path", "slot": k, "p"/"mn"/"mx": [hex], "ms": hex, "steps": n|None,
#    "as": container, "reuse": bool, "scribble": bool}                       one get_pathline call
# "as": how the arguments are handed over (float64 arrays | lists | tuples | float32 | integer box);
# "reuse": the SAME three ndarray objects as in the previous reuse-call of the scenario, overwritten in
# place; "scribble": after the result has been looked at, the caller overwrites the returned time stamps
# in place (a result handed out by reference must not be what a later call returns).
SEQ_CALL = "sequence of pydrex.pathlines.get_pathline calls in one process"
SEQ_FRACTIONS = [k / 8 for k in range(9)]
CONTAINERS = ("array", "list", "list_all", "tuple_box", "float32", "int_box")


def _flow_step(slot, flow, hl, vl, ps, shared=False):
    return {"op": "flow", "slot": slot, "flow": FLOWS[flow], "h": hl, "v": vl, "ps": [hx(a) for a in ps], "shared": bool(shared)}


def share_buffers(pair):
    """The `lambda t, x: L` idiom of user code: each callable writes its result into ONE persistent ndarray and hands
    that same object back on every call.  Returns (velocity, gradient, intact) where intact() says whether the buffers
    still hold what the callables last put there (nobody may write into what a callable returned)."""
    state = {"modified": 0}

    def wrap(f, shape):
        buf, last = np.zeros(shape), [None]

        def g(t, x):
            if last[0] is not None and not np.array_equal(buf, last[0], equal_nan=True):
                state["modified"] += 1
            val = np.asarray(f(t, x), dtype=float)
            buf[...] = val
            last[0] = val.copy()
            return buf
        g.intact = lambda: last[0] is None or np.array_equal(buf, last[0], equal_nan=True)
        return g
    u, L = wrap(pair[0], 3), wrap(pair[1], (3, 3))
    return u, L, (lambda: state["modified"] == 0 and u.intact() and L.intact())


def _drop_step(slot):
    return {"op": "drop", "slot": slot}


def _path_step(slot, p, mn, mx, ms, steps=None, as_="array", reuse=False, scribble=False, kwargs=None):
    return {"op": "path", "slot": slot, "p": [hx(a) for a in p], "mn": [hx(a) for a in mn], "mx": [hx(a) for a in mx],
            "p_float": [float(a) for a in p], "ms": hx(ms), "steps": None if steps is None else int(steps),
            "as": as_, "reuse": bool(reuse), "scribble": bool(scribble), "kwargs": dict(kwargs or {})}


def step_spec(flowdef, st):
    """the 9-tuple used by run_pathline / check_pathline for one `path` step"""
    return (FLOWS.index(flowdef["flow"]), flowdef["h"], flowdef["v"], [unhx(a) for a in flowdef["ps"]],
            np.array([unhx(a) for a in st["mn"]]), np.array([unhx(a) for a in st["mx"]]),
            np.array([unhx(a) for a in st["p"]]), unhx(st["ms"]), st["steps"])


def solver_key(flowdef, st):
    """everything that reaches solve_ivp (`sargs` of the Coq model); regular_steps is not part of it"""
    return (flowdef["flow"], flowdef["h"].upper(), flowdef["v"].upper(), tuple(flowdef["ps"]),
            tuple(st["p"]), tuple(st["mn"]), tuple(st["mx"]), st["ms"], json.dumps(st.get("kwargs") or {}, sort_keys=True))


def seq_domain(rng, flow, h, v, physical=False):
    """box, an interior end point and a base parameter list for one flow"""
    o = 3 - h - v
    mn, mx, p = np.zeros(3), np.zeros(3), np.zeros(3)
    if flow == 0:
        mn[:], mx[:] = -1.0, 1.0
        p[:] = np.round(rng.uniform(-0.9, 0.9, 3) * 64) / 64        # exactly representable in float32 as well
        ps = [float(10.0 ** rng.uniform(-2, 0.5))]
    elif flow == 1:
        d = float(rng.choice([2.0, 1.0, 10.0]))
        mn[:], mx[:] = -d / 2, d / 2
        p[:] = np.round(rng.uniform(-0.45, 0.45, 3) * 64) / 64 * d
        ps = [float(10.0 ** rng.uniform(-1, 0.5)) * d / 2, d]
    elif physical:
        # the usual 2D-in-3D set-up in SI units: 1000 km x 200 km, dummy axis with min == max == 0
        mn[h], mx[h], mn[v], mx[v] = 0.0, 1.0e6, -2.0e5, 0.0
        p[h], p[v] = float(rng.uniform(0.05, 0.5)) * 1e6, -float(rng.uniform(0.1, 0.9)) * 2e5
        ps = [float(rng.uniform(0.5, 2.0)) / (100.0 * 365.0 * 86400.0)]
    else:
        mn[h], mx[h], mn[v], mx[v], mn[o], mx[o] = 0.0, 2.0, -2.0, 0.0, -1.0, 1.0
        p[h], p[v], p[o] = rng.uniform(0.05, 1.9), rng.uniform(-1.9, -0.05), rng.uniform(-0.9, 0.9)
        ps = [float(10.0 ** rng.uniform(-1, 0.5))]
    return mn, mx, p, ps


def gen_scenarios(rng, tier):
    """Call-sequence scenarios (every random choice comes from `rng`)."""
    out = []
    rep = 1 if tier == "quick" else 6
    nsweep = 16 if tier == "quick" else 30
    for r in range(rep):
        # --- parameter sweeps of one flow family at a FIXED end point / box / strain limit; each flow is
        #     dropped and garbage collected before the next one is built (a long amplitude / plate-speed sweep)
        for flow in (0, 1, 2, 2, 0, 1):
            second = len([1 for sc in out if sc["family"] == "sweep_drop_collect"]) % 6 >= 3
            h, v = PAIRS[int(rng.integers(6))]
            hl, vl = LETTERS[h], LETTERS[v]
            mn, mx, p, ps = seq_domain(rng, flow, h, v, physical=(flow == 2 and not second))
            ms = float(rng.choice([0.5, 1.0, 2.0])) if flow != 1 else float(rng.choice([0.25, 0.5, 1.0]))
            ratio = float(rng.choice([1.5, 2.0, 10 ** 0.25]))
            steps = None if second else [None, 40, 10][flow]
            st = []
            for k in range(nsweep):
                st += [_flow_step(0, flow, hl, vl, [ps[0] * ratio ** k] + ps[1:]), _path_step(0, p, mn, mx, ms, steps), _drop_step(0)]
            out.append({"family": "sweep_drop_collect", "flow": FLOWS[flow], "steps": st})
        # --- the same kind of sweep with every flow kept alive, over the parameter and over the six axis pairs
        flow = int(rng.integers(3))
        mn, mx, p, ps = seq_domain(rng, flow, 0, 2)
        if flow == 2:       # a box and a point that are legal for every axis pair: lower half space of every axis
            mn[:], mx[:], p[:] = -2.0, 2.0, -rng.uniform(0.2, 1.5, 3)
        ms = float(rng.choice([0.25, 0.5, 1.0]))
        st = []
        for k, (h, v) in enumerate(PAIRS):
            st += [_flow_step(k, flow, LETTERS[h], LETTERS[v], ps), _path_step(k, p, mn, mx, ms, None)]
        for k in range(4):
            st += [_flow_step(6 + k, flow, "X", "Z", [ps[0] * 2.0 ** (k + 1)] + ps[1:]), _path_step(6 + k, p, mn, mx, ms, None)]
        out.append({"family": "sweep_keep_alive", "flow": FLOWS[flow], "steps": st})
        # --- repeated identical requests with one live flow: same objects handed in again, the caller
        #     overwrites the returned time stamps in between, regular_steps varies
        for _ in range(2):
            flow = int(rng.integers(3))
            h, v = PAIRS[int(rng.integers(6))]
            mn, mx, p, ps = seq_domain(rng, flow, h, v)
            ms = float(rng.choice([0.25, 0.5, 1.0]))
            st = [_flow_step(0, flow, LETTERS[h], LETTERS[v], ps)]
            for steps, scr in ((None, True), (None, True), (10, True), (None, False), (10, False), (3, False)):
                st.append(_path_step(0, p, mn, mx, ms, steps, reuse=True, scribble=scr))
            out.append({"family": "repeat_identical", "flow": FLOWS[flow], "steps": st})
        # --- interleaved requests for two live flows at the same end point
        for same_family in (True, False):
            flow = int(rng.integers(2))          # shear / cell share the cube; the corner flow is used below
            mn, mx, p, ps = seq_domain(rng, flow, 0, 2)
            ms = float(rng.choice([0.25, 0.5, 1.0]))
            if same_family:
                a = _flow_step(0, flow, "X", "Z", ps)
                b = _flow_step(1, flow, "X", "Z", [ps[0] * 3.0] + ps[1:])
            else:
                a = _flow_step(0, flow, "X", "Z", ps)
                mn[:], mx[:] = -0.5, 0.5          # inside the unit cell, legal for shear as well
                p[:] = np.round(rng.uniform(-0.4, 0.4, 3) * 64) / 64
                b = _flow_step(1, 1 - flow, "Z", "X", [0.7] if flow == 1 else [0.7, 1.0])
                if flow == 1:
                    a = _flow_step(0, 1, "X", "Z", [0.5, 1.0])
            st = [a, b]
            for slot, steps in ((0, None), (1, None), (0, None), (1, 5), (1, None), (0, 5)):
                st.append(_path_step(slot, p, mn, mx, ms, steps))
            out.append({"family": "interleaved_two_live", "flow": a["flow"] + "+" + b["flow"], "steps": st})
        # --- one live flow, one argument changed at a time, the three ndarray objects reused and overwritten
        #     in place between the calls
        for flow in (int(rng.integers(2)), 2):
            h, v = PAIRS[int(rng.integers(6))]
            mn, mx, p, ps = seq_domain(rng, flow, h, v)
            ms = float(rng.choice([1.0, 2.0, 5.0]))
            p2 = mn + (mx - mn) * (0.5 + 0.8 * ((p - mn) / (mx - mn) - 0.5))      # another interior point
            mx2 = p + 0.5 * (mx - p)                                            # a smaller box around p
            mn2 = p - 0.5 * (p - mn)
            st = [_flow_step(0, flow, LETTERS[h], LETTERS[v], ps)]
            for (pp, a, b, m, steps) in ((p, mn, mx, ms, None), (p, mn, mx, ms / 4, None), (p, mn, mx2, ms, None),
                                         (p, mn2, mx, ms, None), (p2, mn, mx, ms, None), (p, mn, mx, ms, None), (p, mn, mx, ms, 7)):
                st.append(_path_step(0, pp, a, b, m, steps, reuse=True))
            out.append({"family": "one_argument_at_a_time", "flow": FLOWS[flow], "steps": st})
        # --- the same request handed over in different containers / dtypes (all values exactly representable)
        flow = int(rng.integers(2))
        mn, mx, p, ps = seq_domain(rng, flow, 0, 2)
        if flow == 1:
            ps = [float(10.0 ** rng.uniform(-1, 0.5)), 2.0]
            mn[:], mx[:] = -1.0, 1.0
            p[:] = np.round(rng.uniform(-0.9, 0.9, 3) * 64) / 64
        st = [_flow_step(0, flow, "x" if r % 2 else "X", "z" if r % 2 else "Z", ps)]
        for c in CONTAINERS:
            st.append(_path_step(0, p, mn, mx, 0.5, None, as_=c))
        out.append({"family": "containers_and_dtypes", "flow": FLOWS[flow], "steps": st})
    # --- user callables that hand back ONE persistent ndarray on every call (the `lambda t, x: L` idiom): the results
    #     must be those of the same flow returning fresh arrays (compared bit for bit with the reference run), and nobody
    #     may write into the buffers
    for flow in range(3):
        h, v = PAIRS[int(rng.integers(6))]
        mn, mx, p, ps = seq_domain(rng, flow, h, v)
        ms = float(rng.choice([0.25, 0.5, 1.0]))
        p2 = mn + (mx - mn) * (0.5 + 0.7 * ((p - mn) / (mx - mn) - 0.5))
        st = [_flow_step(0, flow, LETTERS[h], LETTERS[v], ps, shared=True)]
        for pp, m_, steps in ((p, ms, None), (p, ms / 2, None), (p2, ms, None), (p, ms, 6)):
            st.append(_path_step(0, pp, mn, mx, m_, steps))
        out.append({"family": "shared_buffers", "flow": FLOWS[flow], "steps": st})
    # --- solver options are per call (added after seeded change C18e): [call WITH a solver keyword argument; PLAIN call;
    #     plain call with another end point] for each keyword argument get_pathline passes on or drops, one history each.
    #     The plain calls must make the request of the generated model, satisfy the clauses and equal the fresh-process
    #     reference bit for bit (Model_pathline_options: the request of a call does not depend on the history).
    option_sets = [{"method": "RK23"}, {"rtol": 0.2}, {"atol": 0.05}, {"first_step": 1e-3}, {"max_step": 0.05},
                   {"t_eval": [-0.02, -0.05]}, {"method": "RK23", "rtol": 0.2, "atol": 0.05}, {"vectorized": False},
                   {"events": []}, {"jac": None}, {"dense_output": False}, {"args": []}]
    for k, kw in enumerate(option_sets):
        flow = (0, 1, 2)[k % 3] if tier != "quick" else (1 if k in (1, 6) else (2 if k == 2 else 0))
        mn, mx, p, ps = seq_domain(rng, flow, 0, 2)
        ms = 0.5
        p2 = mn + (mx - mn) * (0.5 + 0.6 * ((p - mn) / (mx - mn) - 0.5))
        st = [_flow_step(0, flow, "X", "Z", ps),
              _path_step(0, p, mn, mx, ms, None, kwargs=kw), _path_step(0, p, mn, mx, ms, None), _path_step(0, p2, mn, mx, ms, 4)]
        out.append({"family": "solver_options_then_plain", "flow": FLOWS[flow], "steps": st})
    # --- boundary values (fixed): end points on a face / an edge / a corner of the box, on the line u = 0,
    #     a strain limit so small / so large that the other stopping criterion decides, one resampling step
    one = np.ones(3)
    st = [_flow_step(0, 0, "X", "Z", [1.0])]
    for pp, ms, steps in (([0.25, 0.5, 1.0], 0.5, None), ([0.25, 1.0, 1.0], 0.5, None), ([1.0, 1.0, 1.0], 0.5, None),
                          ([0.3, 0.0, 0.0], 0.5, None), ([0.25, 0.5, -0.5], 1e-9, None), ([0.25, 0.5, -0.5], 1e6, None),
                          ([0.25, 0.5, -0.5], 0.5, 1), ([-1.0, 0.5, -0.5], 0.5, None)):
        st.append(_path_step(0, np.array(pp), -one, one, ms, steps))
    out.append({"family": "boundary_values", "flow": FLOWS[0], "steps": st})
    return out


def _make_args(st, spec, shared):
    """the objects handed to get_pathline for one `path` step"""
    flow, hl, vl, ps, mn, mx, p, ms, steps = spec
    if st.get("reuse"):
        if not shared:
            shared.update(p=p.copy(), mn=mn.copy(), mx=mx.copy())
        shared["p"][:], shared["mn"][:], shared["mx"][:] = p, mn, mx
        return shared["p"], shared["mn"], shared["mx"], ms
    c = st.get("as", "array")
    if c == "list":
        return [float(a) for a in p], mn.copy(), mx.copy(), ms
    if c == "list_all":
        return [float(a) for a in p], [float(a) for a in mn], [float(a) for a in mx], ms
    if c == "tuple_box":
        return p.copy(), tuple(float(a) for a in mn), tuple(float(a) for a in mx), ms
    if c == "float32":
        return p.astype(np.float32), mn.copy(), mx.copy(), ms
    if c == "int_box":
        return p.copy(), mn.astype(int), mx.astype(int), ms
    return p.copy(), mn.copy(), mx.copy(), ms


def _digest(rec):
    """time stamps and positions at fixed fractions of the time span (hex: exact)"""
    ts = rec["ts"]
    X = [[hx(a) for a in np.asarray(rec["f"](float(ts[0]) * fr), dtype=float)] for fr in SEQ_FRACTIONS]
    return [hx(a) for a in ts], X


SESSION_TIMEOUTS = [0]      # calls of this process that hit PATHLINE_TIMEOUT_S


def function_defaults_digest():
    """digests of every mutable default-argument value, module-level container and functools cache of the modules C18 is
    anchored in (harness/purity.py), taken before and after every get_pathline call of a session"""
    import purity
    try:
        return purity.ModuleStateGuard("C18")._snapshot()
    except Exception:  # noqa: BLE001
        return {}


def run_scenario(sc):
    """Execute one scenario in THIS process; every returned pathline is checked against ITS OWN flow with
    the clauses of check_pathline.  Returns one dict per `path` step."""
    slots, flowdef, shared, intact, out = {}, {}, {}, {}, []
    for st in sc["steps"]:
        if st["op"] == "flow":
            flowdef[st["slot"]] = st
            pair = make_flow(FLOWS.index(st["flow"]), st["h"], st["v"], [unhx(a) for a in st["ps"]])
            intact.pop(st["slot"], None)
            if st.get("shared"):
                u, L, ok = share_buffers(pair)
                pair, intact[st["slot"]] = (u, L), ok
            slots[st["slot"]] = pair
        elif st["op"] == "drop":
            slots.pop(st["slot"], None)
            intact.pop(st["slot"], None)
            gc.collect()
        else:
            spec = step_spec(flowdef[st["slot"]], st)
            if SESSION_TIMEOUTS[0] >= 3:
                # do not spend PATHLINE_TIMEOUT_S on each of the remaining calls (a changed tree whose pathlines do not terminate)
                out.append({"exc": ["TimeoutError", "not run: three earlier calls of this session did not return"], "known": False,
                            "known_sigs": [], "fails": ["get_pathline was not called: three earlier calls of this session did not return "
                                                        f"within {PATHLINE_TIMEOUT_S} s"], "solver_called": False, "event_calls": 0,
                            "ts": None, "X": None, "stats": {k: 0 for k in ("event_calls", "event_forward_jumps", "end_error_max",
                                                                            "outside_max", "strain_ratio_max", "ode_residual_max")}})
                continue
            before = function_defaults_digest()
            rec = run_pathline(spec, callables=slots[st["slot"]], raw_args=_make_args(st, spec, shared), solver_kwargs=st.get("kwargs"))
            after = function_defaults_digest()
            SESSION_TIMEOUTS[0] += int(rec["exc"] is not None and rec["exc"][0] == "TimeoutError")
            stats = new_stats()
            try:
                fails = check_pathline(chk_dummy, spec, rec, stats, solver_kwargs=st.get("kwargs"))
            except Exception as e:  # noqa: BLE001
                fails = [f"the returned pathline cannot be evaluated: {type(e).__name__}: {str(e)[:160]}"]
            for k in sorted(set(before) | set(after)):
                if before.get(k) != after.get(k):
                    fails.append(f"get_pathline changed process-wide state: {k} was {before.get(k)}, is {after.get(k)} after the call "
                                 "(a default argument value / module-level container written in place: later calls inherit it)")
            if st["slot"] in intact and not intact[st["slot"]]():
                fails.append("get_pathline wrote into an array returned by a user callable (the callables hand back one persistent "
                             "ndarray each; its content changed between two calls of the callable)")
            known = is_known_pathline_failure(spec, rec, fails)
            if rec["exc"] is not None and not known:
                fails.append(f"get_pathline raised {rec['exc'][0]}: {rec['exc'][1]}")
            res = {"exc": rec["exc"], "known": bool(known), "known_sigs": rec.get("known", []), "fails": fails, "solver_called": rec["t"] is not None,
                   "event_calls": len(rec["calls"]), "ts": None, "X": None,
                   "stats": {k: stats[k] for k in ("event_calls", "event_forward_jumps", "end_error_max", "outside_max",
                                                   "strain_ratio_max", "ode_residual_max")}}
            if rec["exc"] is None:
                try:
                    res["ts"], res["X"] = _digest(rec)
                except Exception as e:  # noqa: BLE001
                    res["fails"].append(f"the returned pathline cannot be evaluated: {type(e).__name__}: {str(e)[:160]}")
                if st.get("scribble"):
                    try:
                        rec["ts_obj"][...] = np.nan       # the caller owns what was returned to it
                    except Exception:  # noqa: BLE001
                        pass
            out.append(res)
            del rec
    slots.clear()
    gc.collect()
    return out


def session_main(infile, outfile):
    """entry point of the session subprocess: scenarios in, per-call results out"""
    quiet()
    warnings.simplefilter("ignore")
    scs = json.load(open(infile))["scenarios"]
    import pydrex.pathlines, pydrex.velocity, scipy.integrate  # noqa: F401,E401
    gc.collect()
    gc.freeze()        # the interpreter's start-up heap is permanent: the gc.collect() of every `drop` step stays cheap
    res = [run_scenario(sc) for sc in scs]
    with open(outfile, "w") as f:
        json.dump({"results": res}, f)


SESSION_ENV_KEEP = ("PATH", "HOME", "LANG", "LD_LIBRARY_PATH", "TMPDIR", "VIRTUAL_ENV", "NUMBA_CACHE_DIR", "PYDREX_REPO", "C18_REPLAY_MODE")
# A defect that depends on recycled object addresses depends on the allocator's state, and that state depends on
# everything the interpreter allocated since start-up -- even on the size of the environment.  The session
# interpreter therefore gets a fixed, minimal environment (check, search and replay then see the same heap
# history), and a replay that passes is repeated under a few other heap layouts (C18_HEAP_PAD) before it is
# believed.
HEAP_PADS = (0, 1, 24, 500)


def start_sessions_subprocess(scenarios, pad=0):
    """Start ONE fresh interpreter (fixed minimal environment, PYTHONHASHSEED=0) that runs the scenarios one
    after the other; returns a handle for finish_sessions_subprocess (the caller can do other work meanwhile)."""
    d = tempfile.mkdtemp(prefix="c18seq_")
    fin, fout = os.path.join(d, "in.json"), os.path.join(d, "out.json")
    with open(fin, "w") as f:
        json.dump({"scenarios": scenarios}, f)
    hdir = os.path.dirname(os.path.dirname(os.path.abspath(__file__)))
    code = (f"import sys; sys.path.insert(0, {hdir!r}); import common; common.use_repo_source(); "
            f"import props.c18 as m; m.session_main({fin!r}, {fout!r})")
    env = {k: os.environ[k] for k in SESSION_ENV_KEEP if k in os.environ}
    env["PYTHONHASHSEED"] = "0"
    if pad:
        env["C18_HEAP_PAD"] = "x" * pad
    pr = subprocess.Popen([common.PY, "-c", code], stdout=subprocess.DEVNULL, stderr=subprocess.PIPE, text=True, env=env)
    return pr, d, fin, fout


def finish_sessions_subprocess(handle, timeout=900):
    pr, d, fin, fout = handle
    try:
        try:
            _, err = pr.communicate(timeout=timeout)
        except subprocess.TimeoutExpired:
            pr.kill()
            _, err = pr.communicate()
            raise RuntimeError(f"session subprocess did not finish within {timeout} s: " + (err or "")[-800:])
        if pr.returncode != 0 or not os.path.exists(fout):
            raise RuntimeError("session subprocess failed: " + (err or "")[-1500:])
        return json.load(open(fout))["results"]
    finally:
        for f in (fin, fout):
            if os.path.exists(f):
                os.remove(f)
        os.rmdir(d)


def run_sessions_subprocess(scenarios, timeout=900, pad=0):
    return finish_sessions_subprocess(start_sessions_subprocess(scenarios, pad=pad), timeout)


def scenario_calls(sc):
    """[(flowdef, path step)] in call order"""
    flowdef, out = {}, []
    for st in sc["steps"]:
        if st["op"] == "flow":
            flowdef[st["slot"]] = st
        elif st["op"] == "path":
            out.append((flowdef[st["slot"]], st))
    return out


def describe_call(sc, k, fd, st):
    return (f"call {k} of sequence '{sc['family']}' ({fd['flow']}({fd['h']!r}, {fd['v']!r}, "
            f"*{[unhx(a) for a in fd['ps']]}), final_location {st['p_float']}, max_strain {unhx(st['ms'])!r}, "
            f"regular_steps {st['steps']}, arguments as {st['as'] if not st['reuse'] else 'reused arrays'}"
            + (f", solver keyword arguments {st['kwargs']}" if st.get("kwargs") else "") + ")")


def compare_sessions(chk, scenarios, results, stats, known_path_points):
    """The correspondence of Model_pathline_session: the k-th result of every call history equals
    post-processing(solve_ivp(arguments of call k)), with the oracle evaluated ON ITS OWN (new flow
    objects, a private copy of pydrex.pathlines with fresh module state, each distinct request once, in this
    process, i.e. under a different history) and the post-processing done by the extracted `timestamps`.
    Returns [(scenario, message)]."""
    bad = []
    refs = {}
    hist = chk.cov.setdefault("histogram", {})
    seq = {"scenarios": len(scenarios), "calls": 0, "families": {}, "flows": {}, "containers": {}, "reused_argument_objects": 0,
           "results_overwritten_by_caller": 0, "regular_steps": {}, "drop_and_collect_steps": 0, "known_brentq_failures": 0,
           "calls_without_solver_call": 0, "max_timestamp_difference_rel": 0.0, "max_position_difference_rel": 0.0}
    lines, pending = [], []
    for sc, rs in zip(scenarios, results):
        calls = scenario_calls(sc)
        seq["families"][sc["family"]] = seq["families"].get(sc["family"], 0) + 1
        seq["drop_and_collect_steps"] += sum(1 for st in sc["steps"] if st["op"] == "drop")
        if len(calls) != len(rs):
            bad.append((sc, f"sequence '{sc['family']}': {len(rs)} results for {len(calls)} calls"))
            continue
        for k, ((fd, st), r) in enumerate(zip(calls, rs)):
            seq["calls"] += 1
            hist["sequence:" + sc["family"]] = hist.get("sequence:" + sc["family"], 0) + 1
            seq["flows"][fd["flow"]] = seq["flows"].get(fd["flow"], 0) + 1
            cname = "reused arrays" if st["reuse"] else st["as"]
            seq["containers"][cname] = seq["containers"].get(cname, 0) + 1
            seq["reused_argument_objects"] += int(st["reuse"])
            seq["results_overwritten_by_caller"] += int(st["scribble"])
            seq["regular_steps"][str(st["steps"])] = seq["regular_steps"].get(str(st["steps"]), 0) + 1
            seq["calls_without_solver_call"] += int(not r["solver_called"] and r["exc"] is None)
            chk.note_case(("sequence", sc["family"], k, solver_key(fd, st), st["steps"], st["as"], st["reuse"]), nontrivial=True)
            for key in ("event_calls", "event_forward_jumps"):
                stats[key] += r["stats"][key]
            for key in ("end_error_max", "outside_max", "strain_ratio_max", "ode_residual_max"):
                stats[key] = max(stats[key], r["stats"][key])
            where = describe_call(sc, k, fd, st)
            for f in r["fails"]:
                bad.append((sc, f"{where}: {f}"))
            spec = step_spec(fd, st)
            for sig in r.get("known_sigs", []):
                stats.setdefault("known_signatures", {}).setdefault(sig, []).append(spec)
            if r["known"]:
                seq["known_brentq_failures"] += 1
                known_path_points.append(spec)
                stats["failing_end_points"].append({"flow": fd["flow"], "axes": fd["h"] + fd["v"], "final_location": st["p_float"],
                                                    "max_strain": unhx(st["ms"]), "in_sequence": sc["family"]})
            # ---- the oracle on its own
            key = solver_key(fd, st)
            if key not in refs:
                if sum(1 for v in refs.values() if v["exc"] is not None and v["exc"][0] == "TimeoutError") >= 3:
                    continue        # a tree whose pathlines do not terminate: already reported three times over
                refs[key] = run_pathline(spec[:8] + (None,), module=fresh_pathlines_module(), solver_kwargs=st.get("kwargs"))
            ref = refs[key]
            if ref["exc"] is not None or r["exc"] is not None:
                if (ref["exc"] is None) != (r["exc"] is None) or list(ref["exc"]) != list(r["exc"]):
                    bad.append((sc, f"{where}: in the sequence get_pathline {'raised ' + str(r['exc']) if r['exc'] else 'returned'}, "
                                    f"on its own the same request {'raises ' + str(ref['exc']) if ref['exc'] else 'returns'}"))
                continue
            if r["ts"] is None:
                continue
            lines.append(common.model_line("timestamps", [0 if st["steps"] is None else 1, st["steps"] or 0], list(ref["t"])))
            pending.append((sc, where, spec, ref, r))
    mres = common.run_model(lines, group=GROUP) if lines else []
    for (sc, where, spec, ref, r), m in zip(pending, mres):
        ts = [unhx(a) for a in r["ts"]]
        T = abs(float(ref["t"][-1]))
        size = float(np.max(spec[5] - spec[4]))
        if m[0] != "OK" or len(m[1]) != len(ts):
            bad.append((sc, f"{where}: {len(ts)} time stamps {ts[:3]}..., the same request on its own gives "
                            f"{len(m[1]) if m[0] == 'OK' else m} time stamps {m[1][:3] if m[0] == 'OK' else ''}..."))
            continue
        dts = max(abs(a - b) for a, b in zip(ts, m[1])) / max(T, 1e-300)
        seq["max_timestamp_difference_rel"] = max(seq["max_timestamp_difference_rel"], dts)
        Xs = np.array([[unhx(a) for a in row] for row in r["X"]])
        Xr = np.array([np.asarray(ref["f"](float(m[1][0]) * fr), dtype=float) for fr in SEQ_FRACTIONS])
        dx = float(np.abs(Xs - Xr).max()) / size
        seq["max_position_difference_rel"] = max(seq["max_position_difference_rel"], dx)
        if dts > 1e-12 or dx > 1e-10:
            bad.append((sc, f"{where}: the result depends on the call history: time stamps start at {ts[0]!r} and the pathline starts at "
                            f"{list(Xs[-1])}; the same request computed on its own starts at t = {m[1][0]!r}, x = {list(Xr[-1])} "
                            f"(relative differences {dts:.3e} in time, {dx:.3e} of the box in position)"))
    seq["distinct_solver_requests"] = len(refs)
    chk.cov["call_sequences"] = seq
    return bad


def encode_sequence(scs):
    return {"call": SEQ_CALL, "scenarios": scs,
            "how": "run the steps of each scenario in order in one fresh interpreter: 'flow' builds the callables of a slot, 'drop' "
                   "forgets them and runs gc.collect(), 'path' calls get_pathline; every returned pathline must satisfy the clauses "
                   "of C18 for the flow IT was requested for"}


def sequence_failures(scs, pads=(0,)):
    """property oracle on call sequences (fresh interpreter): clause failures of every returned pathline.
    pads: heap layouts to try in turn until one shows a failure (see HEAP_PADS)."""
    fails = []
    for pad in pads:
        results = run_sessions_subprocess(scs, pad=pad)
        for sc, rs in zip(scs, results):
            for k, ((fd, st), r) in enumerate(zip(scenario_calls(sc), rs)):
                fails += [f"{describe_call(sc, k, fd, st)}: {f}" for f in r["fails"]]
        # histories with solver options: every PLAIN call of the history once more, each as the only call of its own
        # scenario in another fresh interpreter (plain calls leave no state behind on any tree seen so far, so one
        # interpreter serves them all); the two results must be identical bit for bit
        singles, where = [], []
        for sc, rs in zip(scs, results):
            if sc["family"] != "solver_options_then_plain":
                continue
            flow_steps = [st for st in sc["steps"] if st["op"] == "flow"]
            for k, ((fd, st), r) in enumerate(zip(scenario_calls(sc), rs)):
                if not st.get("kwargs"):
                    singles.append({"family": "single_plain_call", "flow": sc["flow"], "steps": flow_steps + [st]})
                    where.append((describe_call(sc, k, fd, st), r))
        if singles:
            for (desc, r), rs1 in zip(where, run_sessions_subprocess(singles, pad=pad)):
                r1 = rs1[0]
                if (r["exc"] is None) != (r1["exc"] is None) or (r["exc"] is None and (r["ts"] != r1["ts"] or r["X"] != r1["X"])):
                    t0 = unhx(r["ts"][0]) if r["ts"] else None
                    t1 = unhx(r1["ts"][0]) if r1["ts"] else None
                    fails.append(f"{desc}: the result depends on the calls made before it: in this history "
                                 f"{'it raised ' + str(r['exc']) if r['exc'] else f'{len(r['ts'])} time stamps from {t0!r}'}, as the only call of a "
                                 f"fresh process {'it raises ' + str(r1['exc']) if r1['exc'] else f'{len(r1['ts'])} time stamps from {t1!r}'}")
        if fails:
            break
    return fails


# --------------------------------------------------------------------------
# the property oracle (search only): central-difference Jacobians + pathline clauses
# --------------------------------------------------------------------------
def oracle_callables(flow, hl, vl, ps, x):
    """gradient == Jacobian of the velocity, trace-free.  Returns failure strings."""
    fails = []
    try:
        u, L = make_flow(flow, hl, vl, ps)
        x = np.asarray(x, dtype=float)
        G = np.asarray(L(np.nan, x))
        s = max(float(np.abs(x).max()), 1e-300)
        if flow == 1:
            s = abs(ps[1])
        hstep = 1e-6 * s
        J = np.zeros((3, 3))
        for j in range(3):
            e = np.zeros(3); e[j] = hstep
            J[:, j] = (np.asarray(u(np.nan, x + e)) - np.asarray(u(np.nan, x - e))) / (2 * hstep)
        sc = max(float(np.abs(J).max()), float(np.abs(G).max()), 1e-300)
        if not np.all(np.isfinite(G)):
            return fails
        if np.abs(G - J).max() > 1e-5 * sc:
            k, m = np.unravel_index(np.abs(G - J).argmax(), (3, 3))
            fails.append(f"{FLOWS[flow]}({hl!r}, {vl!r}): gradient[{k},{m}] = {G[k, m]!r} but d u_{k} / d x_{m} = {J[k, m]!r} at x = {list(x)}")
        if abs(np.trace(G)) > 1e-9 * sc:
            fails.append(f"{FLOWS[flow]}({hl!r}, {vl!r}): trace of the gradient = {np.trace(G)!r} at x = {list(x)}")
    except ValueError:
        pass
    return fails


def classify_callable_failure(flow, fails):
    """which known finding (if any) explains an oracle failure of the callables"""
    if flow == 0 and all("gradient[" in f for f in fails):
        return KF_SHEAR
    if flow == 1:
        return KF_CELL
    return None


def search(chk, rng_seed, extra_specs=(), extra_scenarios=(), extra_rep=(), extra_points=()):
    """Failing-input search: property oracle on the public API.  Known findings are only
    accepted when the failure has exactly their signature (shear: ratio 2 in the single
    non-zero entry; cell: only the two vertical-row entries / the trace)."""
    rng = np.random.default_rng(rng_seed)
    found = []
    for flow in range(3):
        for (h, v) in PAIRS:
            hl, vl = LETTERS[h], LETTERS[v]
            for _ in range(4):
                if flow == 0:
                    ps, x = [float(rng.uniform(0.1, 3))], rng.uniform(-1, 1, 3)
                elif flow == 1:
                    d = float(10.0 ** rng.uniform(-1, 3)); ps, x = [float(rng.uniform(0.1, 3)), d], rng.uniform(-0.45, 0.45, 3) * d
                else:
                    ps, x = [float(rng.uniform(0.1, 3))], rng.uniform(-1, 1, 3)
                    x[v] = -abs(x[v]) - 0.05
                fails = oracle_callables(flow, hl, vl, ps, x)
                fails = [f for f in fails if not explained_by_finding(flow, hl, vl, ps, x, f)]
                if fails:
                    found.append(({"call": f"pydrex.velocity.{FLOWS[flow]}", "horizontal": hl, "vertical": vl,
                                   "params": [hx(a) for a in ps], "x": [hx(a) for a in x]}, fails))
                    break
            if len(found) >= 3:
                return found
    # points of the closed domain incl. its boundary (the disagreeing kernel cases first, then every face / edge / corner class
    # for every size of the sweep); at most two replays of this kind so that a pathline ending on such a face is reported too
    seenp, nb = set(), 0
    sweep = [(p["flow"], p["hl"], p["vl"], p["ps"], p["x"], p["cls"]) for p in gen_domain_boundary_points(np.random.default_rng([rng_seed, 1806]), "quick")]
    for (flow, hl, vl, ps, x, cls) in [tuple(c) + ("disagreeing correspondence case",) for c in extra_points] + sweep:
        key = (flow, hl, vl, tuple(ps), tuple(float(a) for a in x))
        if key in seenp:
            continue
        seenp.add(key)
        try:
            fails = oracle_domain_point(flow, hl, vl, ps, x, f" ({cls})")
        except Exception as e:  # noqa: BLE001
            fails = [f"{FLOWS[flow]}({hl!r}, {vl!r}, *{list(ps)}) at x = {[float(a) for a in x]}: the property oracle could not be evaluated: {type(e).__name__}: {str(e)[:120]}"]
        if fails:
            found.append(({"call": f"pydrex.velocity.{FLOWS[flow]}", "horizontal": hl, "vertical": vl, "params": [hx(a) for a in ps],
                           "params_float": [float(a) for a in ps], "x": [hx(a) for a in x], "x_float": [float(a) for a in x], "domain_point": cls,
                           "how": "build the flow, apply both returned callables to the float64 position x (a point of the flow's closed domain: "
                                  "Stokes cell |x_i| <= edge_length/2, corner flow x_vertical <= 0 outside the 1e-15 box around the corner): both must "
                                  "return finite arrays and the gradient must be the (one-sided, into the domain) Jacobian of the velocity"}, fails[:4]))
            nb += 1
            if nb >= 2 or len(found) >= 3:
                break
    if len(found) >= 3:
        return found
    # the same point in other representations (the disagreeing cases first, then the structured sweep)
    seen = set()
    for c in list(extra_rep) + gen_representation_cases(np.random.default_rng([rng_seed, 1804]), "quick"):
        flow, hl, vl, ps, x, rep, trep = c
        key = (flow, hl, vl, tuple(ps), tuple(x), rep, trep)
        if key in seen:
            continue
        seen.add(key)
        fails = oracle_representation(flow, hl, vl, ps, x, rep, trep)
        if fails:
            found.append(({"call": f"pydrex.velocity.{FLOWS[flow]}", "horizontal": hl, "vertical": vl, "params": [hx(a) for a in ps],
                           "x": [hx(a) for a in x], "x_float": [float(a) for a in x], "representation": rep, "time_representation": trep,
                           "how": "apply both returned callables to the point x presented as `representation` (see present() in harness/props/c18.py) "
                                  "and as a float64 ndarray; for integer representations also form the Jacobian of the velocity callable from the "
                                  "six lattice neighbours x +- e_k in that representation"}, fails))
            if len(found) >= 3:
                return found
    # the letter table
    import pydrex.geometry as geo
    for h in range(3):
        for v in range(3):
            try:
                got = geo.to_indices2d(LETTERS[h], LETTERS[v])
            except ValueError:
                got = None
            want = None if h == v else (h, v)
            if got != want:
                found.append(({"call": "pydrex.geometry.to_indices2d", "horizontal": LETTERS[h], "vertical": LETTERS[v]},
                              [f"to_indices2d({LETTERS[h]!r}, {LETTERS[v]!r}) = {got}, expected {want}"]))
    # strain increment
    import pydrex.utils as utils
    for _ in range(20):
        Lm = rng.normal(size=(3, 3)); dt = float(rng.normal())
        want = abs(dt) * float(np.abs(np.linalg.eigvalsh((Lm + Lm.T) / 2)).max())
        got = float(utils.strain_increment(dt, Lm))
        if abs(got - want) > 1e-10 * max(1.0, want):
            found.append(({"call": "pydrex.utils.strain_increment", "dt": hx(dt), "velocity_gradient": [hx(a) for a in Lm.reshape(-1)]},
                          [f"strain_increment = {got!r}, |dt| * max |eig (L+L^T)/2| = {want!r}"]))
            break
    # pathlines
    stats = new_stats()
    timeouts = 0
    for spec in (list(extra_specs) + pathline_specs(rng, "quick")[:24] + [sp for _, sp in boundary_specs()]
                 + [sp for _, _, sp in domain_boundary_specs(np.random.default_rng([rng_seed, 1807]), "quick")]):
        if timeouts >= 2 and found:
            break
        rec = run_pathline(spec)
        timeouts += int(rec["exc"] is not None and rec["exc"][0] == "TimeoutError")
        try:
            fails = check_pathline(chk_dummy, spec, rec, stats)
        except Exception as e:  # noqa: BLE001
            fails = [f"the returned pathline cannot be evaluated: {type(e).__name__}: {str(e)[:160]}"]
        if rec["exc"] is not None and not is_known_pathline_failure(spec, rec, fails):
            fails.append(f"get_pathline raised {rec['exc'][0]}: {rec['exc'][1]}")
        if fails:
            found.append((encode_spec(spec), fails))
            if len(found) >= 3:
                break
    # call sequences: the scenarios that disagreed, each ON ITS OWN in a fresh interpreter (so that the replay
    # file is self-contained), then all of them together, then a fresh set
    if len(found) < 3:
        cands, count = [], {}
        for sc in extra_scenarios:
            if id(sc) not in count:
                cands.append(sc)
            count[id(sc)] = count.get(id(sc), 0) + 1
        cands.sort(key=lambda sc: -count[id(sc)])       # the sequence with the most failing calls first
        nseq = 0
        for sc in cands[:4]:
            fails = sequence_failures([sc])
            if fails:
                found.append((encode_sequence([sc]), fails[:6]))
                nseq += 1
                if len(found) >= 3:
                    break
        if not nseq:
            for scs in ([cands] if len(cands) > 1 else []) + [gen_scenarios(np.random.default_rng([rng_seed, 18]), "quick")]:
                fails = sequence_failures(scs)
                if fails:
                    # narrow the replay down to single histories: each scenario named by a failure is run once more on its own
                    named = [sc for k, sc in enumerate(scs)
                             if any(f"of sequence '{sc['family']}' ({scenario_calls(sc)[0][0]['flow']}({scenario_calls(sc)[0][0]['h']!r}, "
                                    f"{scenario_calls(sc)[0][0]['v']!r}, *{[unhx(a) for a in scenario_calls(sc)[0][0]['ps']]})" in f for f in fails)]
                    for sc in named[:6]:
                        own = sequence_failures([sc])
                        if own:
                            found.append((encode_sequence([sc]), own[:6]))
                            nseq += 1
                            if len(found) >= 3:
                                break
                    if not nseq:
                        found.append((encode_sequence(scs), fails[:6]))
                    break
    return found


class _Dummy:
    cov = {"samples": []}

    def note_case(self, *a, **k):
        pass


chk_dummy = _Dummy()


def explained_by_finding(flow, hl, vl, ps, x, fail):
    """True iff this oracle failure is exactly the documented defect of shear / cell"""
    u, L = make_flow(flow, hl, vl, ps)
    x = np.asarray(x, dtype=float)
    G = np.asarray(L(np.nan, x))
    h, v = ordl(hl), ordl(vl)
    # the findings are about the GRADIENT callables; the velocity callable must be the documented field (at x and at
    # two displaced points), otherwise the mismatch is something else
    def field(y):
        w = np.zeros(3)
        if flow == 0:
            w[h] = y[v] * ps[0]
        else:
            w[h] = ps[0] * math.cos(math.pi * y[h] / ps[1]) * math.sin(math.pi * y[v] / ps[1])
            w[v] = -ps[0] * math.sin(math.pi * y[h] / ps[1]) * math.cos(math.pi * y[v] / ps[1])
        return w
    if flow in (0, 1):
        s_ = max(float(np.abs(x).max()), 1e-300) if flow == 0 else abs(ps[1])
        for dy in (np.zeros(3), 1e-3 * s_ * np.eye(3)[h], -1e-3 * s_ * np.eye(3)[v]):
            try:
                got = np.asarray(u(np.nan, x + dy))
            except ValueError:
                continue
            if np.abs(got - field(x + dy)).max() > 1e-9 * abs(ps[0]) * (max(1.0, s_) if flow == 0 else 1.0):
                return False
    if flow == 0:
        # the only non-zero entry is [h, v] and it equals 2 * strain_rate
        Z = G.copy(); Z[h, v] = 0
        return (not np.any(Z)) and G[h, v] == 2 * ps[0] and "gradient[" in fail
    if flow == 1:
        d, U = ps[1], ps[0]
        a, b = math.pi * x[h] / d, math.pi * x[v] / d
        want = np.zeros((3, 3))
        want[h, h] = -U * math.pi / d * math.sin(a) * math.sin(b)
        want[h, v] = U * math.pi / d * math.cos(a) * math.cos(b)
        want[v, v] = -U * math.pi / d * math.cos(a) * math.cos(b)    # = d u_v / d x_h   (exchanged)
        want[v, h] = U * math.pi / d * math.sin(a) * math.sin(b)     # = d u_v / d x_v   (exchanged)
        sc = abs(U) * math.pi / abs(d)
        return bool(np.abs(G - want).max() <= 1e-9 * sc)
    return False


def new_stats():
    return {"pathlines": 0, "completed": 0, "raised": 0, "event_calls": 0, "event_forward_jumps": 0,
            "end_error_max": 0.0, "outside_max": 0.0, "strain_ratio_max": 0.0, "ode_residual_max": 0.0,
            "strain_ratios": [], "failing_end_points": []}


# --------------------------------------------------------------------------
# findings: do the witnesses still reproduce on the implementation?
# --------------------------------------------------------------------------
def witness_shear():
    u, L = make_flow(0, "X", "Z", [1.0])
    G = np.asarray(L(np.nan, np.zeros(3)))
    du = float(np.asarray(u(np.nan, np.array([0.0, 0.0, 1.0])))[0] - np.asarray(u(np.nan, np.zeros(3)))[0])
    return G[0, 2] == 2.0 and du == 1.0


def witness_cell():
    u, L = make_flow(1, "X", "Z", [1.0, 2.0])
    G = np.asarray(L(np.nan, np.zeros(3)))
    hstep = 1e-6
    duz_dz = float(np.asarray(u(np.nan, np.array([0, 0, hstep])))[2] - np.asarray(u(np.nan, np.array([0, 0, -hstep])))[2]) / (2 * hstep)
    return abs(G[2, 2] + math.pi / 2) < 1e-12 and abs(duz_dz) < 1e-6 and abs(np.trace(G) + math.pi / 2) < 1e-12


def build_findings():
    """Findings/C18_*.v are machine-checked refutations of the full statement for the two defective flows: they are
    EXPECTED to stop compiling when a defect is repaired, so they are not among the obligations of `prove`; they are
    built here (same Makefile, under the build lock) and the outcome is reported in the KNOWN-FINDING line."""
    out = {}
    with common.Lock():
        for k, f in FINDING_FILES.items():
            rc, _ = common.sh(f"cd {common.COQ} && timeout 600 make {f[:-2]}.vo", timeout=700)
            out[k] = rc == 0
    return out


def refine_broken(chk, br):
    """`common.build` extracts the first 12 lines of a coqc error; a unification error of an instance lemma is longer
    and is then reported as "not built (a dependency failed)".  Recover file / line / proof name from make's output."""
    import re
    out = getattr(br, "make_out", "") or ""
    for b in chk.cov.get("broken_obligations", []):
        m = re.match(r"proof obligation file (\S+) does not compile", b.get("what", ""))
        if not m or "dependency failed" not in str(b.get("detail", "")):
            continue
        k = out.find(f'File "./{m.group(1)}", line ')
        if k >= 0:
            txt = out[k:k + 1200]
            head = txt.split("\n", 1)[0]
            err = re.search(r"Error:[^\n]*(?:\n[^\n]*){0,3}", txt)
            b["detail"] = (head + " | " + (err.group(0) if err else txt[len(head):300])).replace("\n", " ")[:700]


def run(chk):
    quiet()
    ok, br = proofs.prove(chk, FILES, PROP, groups=(GROUP,), gen_modules=GEN_MODULES)
    refuted = build_findings()
    chk.cov["findings_refutations_compile"] = refuted
    refine_broken(chk, br)
    rng = np.random.default_rng(chk.seed)
    chk.cov["trusted_base"] = common.TRUSTED_COMMON + [
        "VelProxy / UtilsProxy in translator/specs_velocity.py: np.full, a statically non-zero np.pi, the replacement of "
        "abs(np.linalg.eigvalsh((L+L^T)/2)).max() by the oracle parameter `eigmax` (the argument of eigvalsh is checked structurally); the "
        "adapters that call the real public wrappers with the letters of two ordinals (XYZxyz) and apply the returned callables, and the "
        "dispatchers that turn the call made by a functools.partial object into a call of the generated kernel for its index pair",
        "translator/specs_pathlines.py (tie T of pydrex.pathlines): PathProxy (np.any of comparisons as one compound decision, np.zeros_like, "
        "np.linspace as start + i*step with the end point stored exactly; NumPy's step == 0 special case not forked on), the user callables and "
        "the eigenvalue oracle as function parameters of the generated code (applied as f(np.nan, point); anything else fails closed), the "
        "solve_ivp stand-in that records the request / returns a symbolic path.t, access to the two `nonlocal` variables of the event closure "
        "through its closure cells, the recording logger; emit_coq.py parameter kind `fun`",
        "hand-written Model_pathlines.v (wrappers, _is_inside, _ivp_func, _ivp_jac, event state machine, request vector, time stamps): now tied "
        "by the kernel-checked instance lemmas of Inst_velocity.v (all 36 letter pairs) and Inst_pathlines.v (dimensions 1-3, 1-3 solver time "
        "stamps, regular_steps None/0-3) to code regenerated from the source; beyond those sizes (longer path.t) by this differential run, "
        "incl. a replay of every recorded event call through BOTH the hand-written state machine and the generated closure",
        "oracles: numpy.linalg.eigvalsh (hypothesis: largest |eigenvalue| of (L+L^T)/2; eigenpair residuals checked at run time) and "
        "scipy.integrate.solve_ivp (hypotheses used by the theorems, all relative to the generated request and checked on every run: times start "
        "at t_span[0] = 0 and strictly decrease, the dense output at the start reproduces y0 = final_location; the request actually made is "
        "compared entry by entry with the generated request vector). dx/dt = u(x) along the numerical trajectory, its distance to the box and "
        "the quadrature of the strain are NOT proved: they are measured on real get_pathline runs (see runtime_checked); the exact solution of "
        "the posed problem is proved to stay in the box",
        "hand-written Model_pathline_session.v (get_pathline as a function of its arguments; a call history is the map of the single "
        "call; memoizing variants); tie H = the call-sequence run: every result of every sequence is compared with the extracted "
        "`timestamps` applied to solve_ivp's result for the same request computed on its own (new flow objects, private copy of the "
        "module, other process, other history)",
        "hand-written Model_pathline_options.v (the optional solver keyword arguments over call histories: requests are the map of the single "
        "call, defaults never written; `Sticky` variant refuted); tie = the plain / keyword request of the model IS the generated request "
        "(proved), and in the `solver_options_then_plain` histories the request every call actually makes is compared with its own request "
        "according to the generated model, every plain call with the same call on its own; harness/purity.py digests of mutable default "
        "argument values before / after every get_pathline call of a session",
    ]
    chk.cov["rule"] = (
        "kernels: three flows x six axis-letter pairs (upper and lower case) x velocity/gradient callables at random points (interior of the "
        "cell incl. its boundary and centre; both half spaces of the corner flow), amplitudes 10^U(-15,3), cell sizes 10^U(-3,6), t = nan or "
        "random; + every rejected letter pair, negative edge length, points outside the cell (ValueError) and inside the 1e-15 hole of the "
        "corner flow (NaN). strain_increment: random dt, L (10^U(-15,3)) with the eigvalsh oracle value passed to the model. _is_inside/_ivp_func: "
        "random boxes and points incl. faces and size mismatch. pathlines: real get_pathline runs (3 flows x 6 axis pairs x boxes x strain limits "
        "x regular_steps), every call of the terminal event recorded and replayed through the extracted state machine, solve_ivp's times through "
        "the time-stamp model. call sequences (one fresh interpreter, see coverage.call_sequences): parameter sweeps of each flow family at a "
        "FIXED end point / box / strain limit with every flow dropped and garbage collected before the next one (incl. the 2D-in-3D box in SI "
        "units), the same sweeps with all flows alive (parameters and the six axis pairs), repeated identical requests (same argument objects, "
        "returned time stamps overwritten by the caller in between, regular_steps varied), interleaved requests of two live flows, one "
        "argument changed at a time with the ndarray objects reused and overwritten in place, lists / tuples / float32 / integer boxes, and "
        "fixed boundary values (end point on a face / edge / corner / the line u = 0, strain limit 1e-9 and 1e6, regular_steps = 1), user "
        "callables that hand back one persistent ndarray per call (results bit-identical to fresh arrays, buffers never written to); every "
        "returned pathline is checked against ITS OWN flow with the same clauses and against the same request computed on its own. "
        "boundary-value pathlines (35, every run): end points on faces / edges / corners (inflow and outflow side, all three flows), boxes with "
        "one or all axes degenerate, strain limits 0 / 1e-300 / 1e-12 / 1e9 / reached exactly at a face / 20 (several revolutions of the cell), "
        "regular_steps 0 and 1, stagnation points. wrappers: letters that are no axis, mixed case, default edge length. every kernel case also "
        "through the wrapper generated from the source, _is_inside / _ivp_func / _ivp_jac through the generated kernels. "
        "domain boundaries (coverage.domain_boundary): both callables at points exactly ON the four faces / a face midpoint / a corner of the "
        "Stokes cell and at the binary64 neighbours of a face on both sides (the outer one must be rejected), for EVERY integer cell size "
        "1..128, powers of ten 1e-3..1e6, powers of two, decimals k/10^m, random sizes 10^U(-3,6) and U(1,128), the default edge length, all six "
        "axis pairs; the surface (+0 and -0), the ridge axis and the rim of the 1e-15 hole of the corner flow at the same length scales; the "
        "position must be left unmodified (argguard); pathlines whose final location lies on a face / an edge / a corner of the box that IS the "
        "flow's cell (a third of the sizes rounding-sensitive: some equivalent form of `x <= d/2` evaluates differently in binary64 at x = d/2). "
        "distinct = distinct inputs; non-trivial = some output non-zero")
    bad, path_bad, seq_bad = [], [], []
    stats = new_stats()
    known_path_points = []
    if br.drivers.get(GROUP, 1) is None:
        # call sequences run in their own fresh interpreter, concurrently with the cases below
        scenarios = gen_scenarios(np.random.default_rng([chk.seed, 18]), chk.tier)
        session = start_sessions_subprocess(scenarios)
        kc = gen_kernel_cases(rng, chk.tier)
        bad += compare_kernels(chk, kc, rtol=1e-10)
        rep_cases = gen_representation_cases(np.random.default_rng([chk.seed, 1804]), chk.tier)
        rep_bad = compare_representations(chk, rep_cases)
        bad += rep_bad
        bad += compare_strain_increment(chk, rng, chk.tier)
        bad += compare_inside(chk, rng, chk.tier)
        # points ON the boundary of every flow's closed domain, many sizes (own generators: the streams above are unchanged)
        dom_pts = gen_domain_boundary_points(np.random.default_rng([chk.seed, 1806]), chk.tier)
        bad += compare_domain_boundary(chk, dom_pts)
        bnd = boundary_specs()
        dom_specs = domain_boundary_specs(np.random.default_rng([chk.seed, 1807]), chk.tier)
        specs = [WITNESS_PATH] + [sp for _, sp in bnd] + [sp for _, _, sp in dom_specs] + pathline_specs(rng, chk.tier)
        names = {id(sp): nm for nm, sp in bnd}
        dom_keys = {id(sp): key for _, key, sp in dom_specs}
        dom_out = {"pathlines": len(dom_specs), "returned": 0, "raised the brentq ValueError (known finding)": 0, "failed": 0,
                   "sizes": sorted({float(sp[5][ordl(sp[1])] - sp[4][ordl(sp[1])]) for _, _, sp in dom_specs})}
        chk.cov.setdefault("histogram", {})["pathline:boundary_values"] = len(bnd)
        timeouts = 0
        for spec in specs:
            if timeouts >= 3:      # do not spend 20 s on each of the remaining pathlines
                stats["aborted_after_timeouts"] = True
                break
            rec = run_pathline(spec)
            timeouts += int(rec["exc"] is not None and rec["exc"][0] == "TimeoutError")
            stats["pathlines"] += 1
            try:
                fails = check_pathline(chk, spec, rec, stats)
            except Exception as e:  # noqa: BLE001
                fails = [f"the returned pathline cannot be evaluated: {type(e).__name__}: {str(e)[:160]}"]
            chk.note_case(("pathline", spec[0], spec[1], spec[2], tuple(spec[3]), spec[6].tobytes(), spec[4].tobytes(), spec[5].tobytes(),
                           spec[7], spec[8]), nontrivial=True)
            for sig in rec.get("known", []):
                stats.setdefault("known_signatures", {}).setdefault(sig, []).append(spec)
            if id(spec) in names:
                stats.setdefault("boundary_values", {})[names[id(spec)]] = (
                    "raised " + rec["exc"][0] if rec["exc"] is not None else
                    (f"{len(rec['ts'])} time stamps from {float(rec['ts'][0]):.6g}" if len(rec["ts"]) else "no time stamps")
                    + (f"; {'; '.join(f_[:80] for f_ in fails)}" if fails else ""))
            if id(spec) in dom_keys:
                hk = "pathline:domain_boundary:" + dom_keys[id(spec)]
                chk.cov["histogram"][hk] = chk.cov["histogram"].get(hk, 0) + 1
                dom_out["returned" if rec["exc"] is None else "raised the brentq ValueError (known finding)"
                        if is_known_pathline_failure(spec, rec, fails) else "failed"] += 1
                dom_out["failed"] += int(rec["exc"] is None and bool(fails))
            if rec["exc"] is None:
                stats["completed"] += 1
            else:
                stats["raised"] += 1
                if is_known_pathline_failure(spec, rec, fails):
                    known_path_points.append(spec)
                    stats["failing_end_points"].append({"flow": FLOWS[spec[0]], "axes": spec[1] + spec[2],
                                                        "final_location": [float(a) for a in spec[6]], "max_strain": spec[7]})
                else:
                    fails.append(f"get_pathline raised {rec['exc'][0]}: {rec['exc'][1]}")
            if len(chk.cov["samples"]) < 6 and rec["exc"] is None and spec is not WITNESS_PATH:
                chk.cov["samples"].append({"pathline": encode_spec(spec)["flow"], "final_location": [float(a) for a in spec[6]],
                                           "max_strain": spec[7], "regular_steps": spec[8], "t_start": float(rec["ts"][0]),
                                           "n_timestamps": int(len(rec["ts"])), "event_calls": len(rec["calls"])})
            for f in fails:
                path_bad.append((spec, f))
        try:
            seq_results = finish_sessions_subprocess(session)
        except RuntimeError as e:
            # the session interpreter crashed / did not finish: a correspondence failure of the session model, not a
            # machinery error -- the failing-input search below still runs
            seq_results = None
            seq_bad = [(scenarios[0], f"the call-sequence run did not complete: {str(e)[:300]}")]
            chk.cov["call_sequences"] = {"calls": 0, "error": str(e)[:300]}
        if seq_results is not None:
            seq_bad = compare_sessions(chk, scenarios, seq_results, stats, known_path_points)
        chk.cov.setdefault("domain_boundary", {})["pathlines_ending_on_the_faces_of_the_cell"] = dom_out
        chk.cov["traces_validated_against_impl"] = (len(kc) + len(rep_cases) + 2 * len(dom_pts) + stats["pathlines"]
                                                    + chk.cov["call_sequences"]["calls"])
    stats["strain_ratios"] = sorted(stats["strain_ratios"])[-8:]
    sigs = stats.pop("known_signatures", {})
    stats["known_boundary_signatures"] = {k: len(v) for k, v in sigs.items()}
    chk.cov["runtime_checked"] = {
        "note": "clauses about solve_ivp's trajectory, measured on real get_pathline runs (not proved)",
        **{k: v for k, v in stats.items()},
        "thresholds": {"end_error": "1e-9 x box", "outside": "2e-3 x box", "strain": "1.25 x max_strain (+0.1%)", "ode_residual": "5e-2 relative"},
    }
    chk.cov["disagreements"] = len(bad) + len(path_bad) + len(seq_bad)

    # ---- known findings: printed only while the witness reproduces on the implementation
    findings = {}
    if witness_shear():
        findings[KF_SHEAR] = ("simple_shear_2d: the gradient callable returns 2*strain_rate in entry [direction, plane] while the velocity "
                              "callable has d u/d x = strain_rate there (L = 2 x Jacobian; pinned by the doctest) -- witness simple_shear_2d('X','Z',1): "
                              "L[0,2] = 2, u([0,0,1])[0] - u(0)[0] = 1; Coq: Findings/C18_shear.v "
                              + ("(compiles)" if refuted["shear"] else "(DOES NOT COMPILE)"))
    if witness_cell():
        findings[KF_CELL] = ("cell_2d: gradient entries [v,h] and [v,v] are exchanged relative to the Jacobian of the velocity callable, trace = "
                             "-U*pi/d*cos(pi(h-v)/d) != 0 (pinned by the doctest) -- witness cell_2d('X','Z',1)(0,0,0): L[2,2] = -pi/2, d u_z/d z = 0; "
                             "Coq: Findings/C18_cell.v " + ("(compiles)" if refuted["cell"] else "(DOES NOT COMPILE)"))
    if any(s is WITNESS_PATH for s in known_path_points):
        others = [s for s in known_path_points if s is not WITNESS_PATH]
        findings[KF_PATH] = ("get_pathline raises ValueError('f(a) and f(b) must have different signs') -- the terminal event is stateful "
                             "(Coq: C18_event_not_a_function); witness cell_2d('X','Z',1), box [-1,1]^3, final_location (0.6, 0, 0.6), max_strain 0.5; "
                             f"same signature at {len(others)} of {stats['pathlines'] - 1 + chk.cov.get('call_sequences', {}).get('calls', 0)} other requests of this run "
                             "(listed in evidence: runtime_checked.failing_end_points)")
    elif known_path_points:
        # the same failure class without its recorded witness: not covered by the finding
        for s in known_path_points:
            path_bad.append((s, "get_pathline raised the brentq ValueError but the recorded witness of the known finding does not reproduce"))
    # ---- the three boundary-value findings: accepted (by their exact signature, see check_pathline) only while the
    #      recorded witness itself reproduces
    witnesses = {nm: sp for nm, sp in (bnd if br.drivers.get(GROUP, 1) is None else [])}
    texts = {
        KF_ZERO: ("shear: strain limit 0",
                  "get_pathline(max_strain=0) returns the time stamps [0., 0.] (not strictly increasing): the terminal event is 0 at t = 0, "
                  "solve_ivp returns t = [0, 0] and the duplicate is handed on -- witness simple_shear_2d('X','Z',1), box [-1,1]^3, "
                  "final_location (0.25, 0.5, 0.5), max_strain 0"),
        KF_STEPS0: ("shear: regular_steps = 0",
                    "get_pathline(regular_steps=0) returns ONE time stamp, the EARLIEST time of the pathline (np.linspace(a, b, 1) = [a]), so the "
                    "time stamps do not end at 0 (Coq: C18_generated_timestamps) -- witness simple_shear_2d('X','Z',1), box [-1,1]^3, "
                    "final_location (0.25, 0.5, 0.5), max_strain 0.5, regular_steps 0: [-0.5]"),
        KF_STAGNATION: ("cell: end point at a corner (stagnation point on the box)",
                        "for an end point at a corner of the Stokes cell (stagnation point ON the box, |u| ~ 1e-16 U) LSODA takes one step of "
                        "~2e9 time units, the point drifts out of the box by ~1e-6, the event returns exactly 0 there and the pathline ends at "
                        "that time: accumulated strain ~4.5e9 for max_strain 0.5 -- witness cell_2d('X','Z',1), box [-1,1]^3, "
                        "final_location (1, 0, 1), max_strain 0.5"),
    }
    for key, (wname, text) in texts.items():
        pts = sigs.get(key, [])
        if any(sp is witnesses.get(wname) for sp in pts):
            findings[key] = text + f"; same signature at {len(pts) - 1} other requests of this run"
        else:
            for sp in pts:
                path_bad.append((sp, f"a request shows the signature of the known finding {key} but its recorded witness does not reproduce"))
    for k, text in findings.items():
        chk.known_finding(f"{k} :: {text}")
    chk.cov["known_findings_reproducing"] = sorted(findings)

    if ok and not bad and not path_bad and not seq_bad:
        return
    found = search(chk, chk.seed + 1, extra_specs=[s for s, _ in path_bad if isinstance(s, tuple)][:6],
                   extra_scenarios=[sc for sc, _ in seq_bad],
                   extra_rep=[c for c, _ in bad if isinstance(c, tuple) and len(c) == 7 and isinstance(c[0], int)][:40],
                   extra_points=[(c[1], c[2], c[3], c[4], c[6]) for c, _ in bad
                                 if isinstance(c, tuple) and len(c) == 7 and c[0] in ("velocity", "gradient")][:60])
    if found:
        for inp, fails in found[:3]:
            chk.replay({"kind": "property-violation", "input": inp, "observed": fails,
                        "required": "C18 (see properties.jsonl)", "broken": chk.cov.get("broken_obligations", []),
                        "disagreements": [m for _, m in (bad + path_bad + seq_bad)[:3]]})
    else:
        note = "proof obligation or correspondence no longer checks; no failing input found by the search"
        if not witness_shear() or not witness_cell():
            note += ("; NOTE a known finding (shear / cell gradient) no longer reproduces on the implementation: its `_partial` theorem is "
                     "expected to break -- replace it by the full statement (Findings/C18_*.v then stop compiling)")
        chk.replay({"kind": "unproved", "broken": chk.cov.get("broken_obligations", []),
                    "disagreements": [{"input": (encode_spec(c) if isinstance(c, tuple) and len(c) == 9 else
                                                 encode_sequence([c]) if isinstance(c, dict) and "steps" in c else repr(c)[:400]), "detail": m}
                                      for c, m in (bad + path_bad + seq_bad)[:3]],
                    "note": note}, no_input=True)


def replay(d):
    os.environ["C18_REPLAY_MODE"] = "1"
    common.use_repo_source()
    quiet()
    if d.get("kind") != "property-violation":
        print("replay file names a broken obligation; re-run the check itself")
        return 1
    inp = d["input"]
    fails = []
    if inp["call"] == SEQ_CALL:
        fails = sequence_failures(inp["scenarios"], pads=HEAP_PADS)
    elif inp["call"].endswith("get_pathline"):
        spec = decode_spec(inp)
        rec = run_pathline(spec)
        fails = check_pathline(chk_dummy, spec, rec, new_stats()) if os.path.exists(os.path.join(common.EXTRACT, GROUP, "driver")) else []
        if rec["exc"] is not None and not is_known_pathline_failure(spec, rec, fails):
            fails.append(f"get_pathline raised {rec['exc'][0]}: {rec['exc'][1]}")
        elif rec["exc"] is not None:
            print("(get_pathline raises the brentq ValueError of the known finding C18:get_pathline:...:ValueError for this input)")
    elif inp["call"].endswith("to_indices2d"):
        import pydrex.geometry as geo
        h, v = inp["horizontal"], inp["vertical"]
        try:
            got = geo.to_indices2d(h, v)
        except ValueError:
            got = None
        want = None if h == v else (LETTERS.index(h), LETTERS.index(v))
        if got != want:
            fails.append(f"to_indices2d({h!r}, {v!r}) = {got}, expected {want}")
    elif inp["call"].endswith("strain_increment"):
        import pydrex.utils as utils
        Lm = np.array([unhx(a) for a in inp["velocity_gradient"]]).reshape(3, 3)
        dt = unhx(inp["dt"])
        want = abs(dt) * float(np.abs(np.linalg.eigvalsh((Lm + Lm.T) / 2)).max())
        got = float(utils.strain_increment(dt, Lm))
        if abs(got - want) > 1e-10 * max(1.0, want):
            fails.append(f"strain_increment = {got!r}, expected {want!r}")
    elif "domain_point" in inp:
        flow = FLOWS.index(inp["call"].split(".")[-1])
        fails = oracle_domain_point(flow, inp["horizontal"], inp["vertical"], [unhx(a) for a in inp["params"]],
                                    np.array([unhx(a) for a in inp["x"]]), f" ({inp['domain_point']})")
    elif "representation" in inp:
        flow = FLOWS.index(inp["call"].split(".")[-1])
        fails = oracle_representation(flow, inp["horizontal"], inp["vertical"], [unhx(a) for a in inp["params"]],
                                      np.array([unhx(a) for a in inp["x"]]), inp["representation"], inp.get("time_representation", "nan"))
    else:
        flow = FLOWS.index(inp["call"].split(".")[-1])
        ps = [unhx(a) for a in inp["params"]]
        x = [unhx(a) for a in inp["x"]]
        fails = [f for f in oracle_callables(flow, inp["horizontal"], inp["vertical"], ps, x)
                 if not explained_by_finding(flow, inp["horizontal"], inp["vertical"], ps, x, f)]
    for f in fails:
        print("still fails:", f)
    return 1 if fails else 0
