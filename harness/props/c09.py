"""C09 -- grain-boundary sliding: small grains are floored and do not rotate."""
from __future__ import annotations

import numpy as np

import common
import proofs
import gen_core as G
import minerals_trace as MT
from common import hx
from props import c01

FILES = ["Model_core.v", "Model_minerals.v", "Proofs_core.v", "Proofs_minerals.v", "Entry_core.v", "Extract_core.v"]
FILES += [f for f in MT.GLUE_TIE_FILES if f not in FILES]   # tie T of the glue model
PROP = "Properties/C09.v"


def gen_case(rng, n=None):
    n = int(n if n is not None else rng.integers(1, 40))
    chi = float([0.0, 1e-3, 0.1, 0.3, 0.5, 0.9, 0.99][rng.integers(7)] if rng.random() < 0.7 else rng.uniform(0, 1))
    kind = ["dirichlet", "many_small", "none_small", "ties", "zeros"][rng.integers(5)]
    if kind == "dirichlet":
        f = rng.dirichlet(np.ones(n))
    elif kind == "many_small":
        f = rng.dirichlet(np.ones(n)) * 1e-3
        f[rng.integers(n)] += 1.0
    elif kind == "none_small":
        f = np.full(n, 1.0 / n) * (1 + 0.1 * rng.random(n))
    elif kind == "ties":
        f = rng.dirichlet(np.ones(n))
        thr = chi / n
        f[rng.random(n) < 0.4] = thr          # bit-exact ties at the threshold
    else:
        f = rng.dirichlet(np.ones(n))
        f[rng.random(n) < 0.4] = 0.0
    s = f.sum()
    f = f / s if s > 0 else np.full(n, 1.0 / n)
    if kind == "ties":
        f[rng.random(n) < 0.3] = chi / n      # re-pin after normalisation
    o = G.rand_rot(rng, n)
    prev = G.rand_rot(rng, n)
    return dict(n=n, chi=chi, f=f, o=o, prev=prev, kind=kind)


def impl(utils, c):
    try:
        o, f = utils.apply_gbs(c["o"].copy(), c["f"].copy(), c["chi"], c["prev"].copy(), c["n"])
        return ("OK", np.asarray(o), np.asarray(f))
    except Exception as e:  # noqa: BLE001
        return ("ERR", common.exc_code(e), str(e))


def oracle(utils, c):
    r = impl(utils, c)
    if r[0] == "ERR":
        return [f"apply_gbs raised {r[1]}"]
    o2, f2 = r[1], r[2]
    n, chi, f = c["n"], c["chi"], c["f"]
    thr = chi / n
    mask = f < thr
    fails = []
    if not np.array_equal(o2[mask], c["prev"][mask]):
        fails.append("a floored grain does not carry exactly its start-of-update orientation")
    if not np.array_equal(o2[~mask], c["o"][~mask]):
        fails.append("an unfloored grain lost its integrated orientation")
    floored = np.where(mask, thr, f)
    S = floored.sum()
    if S > 0:
        if np.abs(f2 - floored / S).max() > 1e-14 * max(1.0, np.abs(floored / S).max()):
            fails.append("volumes are not (floored volume) / (common sum)")
        if abs(f2.sum() - 1) > 1e-12:
            fails.append(f"fractions sum to {f2.sum()!r}")
        if abs(f.sum() - 1) < 1e-12 and f.min() >= 0 and f2.min() < thr / (1 + chi) * (1 - 1e-12):
            fails.append("a stored fraction is below chi/(n(1+chi))")
        order = np.argsort(f, kind="stable")
        if np.any(np.diff(f2[order]) < -1e-15):
            fails.append("ordering of grain volumes not preserved")
    if chi == 0 and f.min() >= 0 and (not np.array_equal(o2, c["o"]) or np.abs(f2 - f / f.sum()).max() > 1e-15):
        fails.append("chi = 0 froze or floored a grain")
    return fails


def run_sc(rec, sc):
    """a history of a scenario; sc["assemblage"] / sc["fractions"] (phase ordinals, volume fractions) put the mineral into a
    multiphase aggregate"""
    import pydrex
    if sc.get("assemblage"):
        return c01.run_history(rec, sc, tuple(pydrex.MineralPhase(int(p)) for p in sc["assemblage"]), tuple(float(x) for x in sc["fractions"]))
    return c01.run_history(rec, sc)


def history_fails(h):
    """C09 read on a recorded history: after every update the grains whose INTEGRATED volume (LSODA's last vector, clipped and
    normalised within the phase) is below chi/n keep exactly their start-of-update orientation and get the floor chi/n; the stored
    volumes are the floored ones renormalised -- whatever the regime, the phase fraction of the mineral or the list order"""
    sc, m = h["sc"], h["mineral"]
    chi, n = float(h["params"]["gbs_threshold"]), sc["n"]
    out = []
    for k, u in enumerate(h["updates"]):
        tr = u["trace"]
        if tr.error is not None or not tr.step_ys or k + 1 >= len(m.orientations):
            continue
        ylast = tr.step_ys[-1]
        f_int = np.clip(ylast[9 + 9 * n:], 0, None)
        f_int = f_int / f_int.sum()
        masked = f_int < chi / n
        if masked.any() and not np.array_equal(np.asarray(m.orientations[k + 1])[masked], np.asarray(m.orientations[k])[masked]):
            out.append(f"update {k} in regime {sc['regime']}: a grain below chi/n did not keep its start-of-update orientation")
        floored = np.where(masked, chi / n, f_int)
        if np.abs(np.asarray(m.fractions[k + 1]) - floored / floored.sum()).max() > 1e-12:
            out.append(f"update {k} in regime {sc['regime']}: stored volumes are not the floored and renormalised integrated volumes")
        if np.asarray(m.fractions[k + 1]).min() < chi / (n * (1 + chi)) * (1 - 1e-9):
            out.append(f"update {k} in regime {sc['regime']}: a stored fraction {np.asarray(m.fractions[k + 1]).min():.6e} is below chi/(n (1 + chi)) = {chi / (n * (1 + chi)):.6e}")
    return out


def multiphase_scenarios(rng, tier):
    """sliding inside a multiphase aggregate: both phases, both list orders, own fraction 0.1 .. 0.9 (and exactly 1 inside a
    two-phase list), regimes with and without migration, textures with grains below AND between phi chi/n and chi/n"""
    out = []
    for r in range(1 if tier == "quick" else 6):
        for j, regime in enumerate((4, 6, 0, 1)):
            own = (j + r) % 2
            pair = (0, int(rng.integers(0, 5))) if own == 0 else (1, 5)
            sc = MT.scenario(rng, regime=regime, pair=pair, tkind=("nonuniform", "clustered")[(j + r) % 2], n=int(rng.integers(5, 14)),
                             nupd=2, strain=float(rng.uniform(0.4, 0.8)))
            sc["params"]["gbs_threshold"] = float(rng.uniform(0.3, 0.9))
            sc["params"]["gbm_mobility"] = float(rng.uniform(50, 200))
            phi = float((0.3, 0.7, 0.1, 0.5, 0.9, 1.0)[int(rng.integers(6))])
            order = [own, 1 - own] if (j // 2 + r) % 2 == 0 else [1 - own, own]
            sc["assemblage"] = order
            sc["fractions"] = [phi if p == own else 1.0 - phi for p in order]
            out.append(sc)
    return out


def encode(c):
    return {"n_grains": c["n"], "gbs_threshold": hx(c["chi"]), "fractions": [hx(x) for x in c["f"]],
            "orientations": [hx(x) for x in c["o"].reshape(-1)], "orientations_prev": [hx(x) for x in c["prev"].reshape(-1)]}


def decode(d):
    u = common.unhx
    n = d["n_grains"]
    return dict(n=n, chi=u(d["gbs_threshold"]), f=np.array([u(x) for x in d["fractions"]]),
                o=np.array([u(x) for x in d["orientations"]]).reshape(n, 3, 3),
                prev=np.array([u(x) for x in d["orientations_prev"]]).reshape(n, 3, 3), kind="replay")


def run(chk):
    ok, br = proofs.prove(chk, FILES, PROP, groups=("core",), gen_modules=MT.GLUE_TIE_GEN)
    import pydrex.utils as utils
    chk.cov["trusted_base"] = common.TRUSTED_COMMON + [MT.GLUE_TIE_TRUSTED,
        "hand-written Model_minerals.gbs_orient / gbs_fracs / update, tied by exact comparison with pydrex.utils.apply_gbs (public function) and by trace validation of whole updates",
        "the reference orientations are those of the start of the update; that the write-back of intermediate steps never reaches the integrator is a property of SciPy (LSODA.y is a copy), observed by the trace validation",
    ]
    chk.cov["rule"] = ("direct cases: n in 1..40 and {1000, 10000}, chi in {0,1e-3,0.1,0.3,0.5,0.9,0.99} or uniform, volume families "
                       "{dirichlet, many below threshold, none below, bit-exact ties at chi/n, zeros}; compared exactly (orientations) / 1e-15 (volumes) "
                       "with the extracted model; plus LSODA-driven updates (shared with C01) where the stored snapshot must equal the model's update; "
                       "non-trivial = at least one grain floored and at least one not")
    bad = []
    hist_fail = []
    rng = np.random.default_rng(chk.seed)
    if br.drivers.get("core", 1) is None:
        N = 600 if chk.tier == "quick" else 6000
        cases = [gen_case(rng) for _ in range(N)] + [gen_case(rng, n) for n in (1, 2, 1000, 10000)]
        # block-boundary grain counts (independent stream): 2^k - 1, 2^k, 2^k + 1, multiples of 64/128/256/1000/1024
        rngb = np.random.default_rng([chk.seed, 0xB10C])
        cases += [gen_case(rngb, n) for n in G.block_sizes(chk.tier, cap=16385 if chk.tier == "quick" else None)]
        lines = [common.model_line("apply_gbs", [c["n"]],
                                   [c["chi"]] + list(c["o"].reshape(-1)) + list(c["f"]) + list(c["prev"].reshape(-1)))
                 for c in cases]
        res = common.run_model(lines, "core")
        hist = chk.cov.setdefault("masked_fraction_histogram", {})
        for c, m in zip(cases, res):
            r = impl(utils, c)
            nm = int((c["f"] < c["chi"] / c["n"]).sum())
            b = "0" if nm == 0 else ("all" if nm == c["n"] else f"{min(9, int(10 * nm / c['n']))}0%")
            hist[b] = hist.get(b, 0) + 1
            chk.note_case(("gbs", c["n"], c["chi"], c["f"].tobytes()), nontrivial=0 < nm < c["n"],
                          sample={"n_grains": c["n"], "chi": c["chi"], "kind": c["kind"], "floored": nm,
                                  "fractions_out_head": [float(x) for x in (r[2][:3] if r[0] == "OK" else [])]})
            if r[0] != "OK" or m[0] != "OK":
                if not (r[0] == m[0]):
                    bad.append((c, f"implementation {r[:2]} vs model {m[0]}"))
                continue
            flat = list(r[1].reshape(-1)) + list(r[2])
            n9 = 9 * c["n"]
            if flat[:n9] != m[1][:n9]:
                bad.append((c, "orientations differ from the model (must be exact copies)"))
            else:
                okc, idx = common.vec_close(flat[n9:], m[1][n9:], rtol=0.0, atol=1e-15)
                if not okc:
                    bad.append((c, f"volume {idx}: {flat[n9 + idx]!r} vs model {m[1][n9 + idx]!r}"))
        # whole updates
        tb = []
        with MT.Recorder() as rec:
            for _ in range(8 if chk.tier == "quick" else 80):
                sc = MT.scenario(rng, regime=4, nupd=3, strain=0.9)
                sc["params"]["gbs_threshold"] = float(rng.uniform(0.2, 0.9))
                sc["params"]["gbm_mobility"] = float(rng.uniform(50, 200))
                h = c01.run_history(rec, sc)
                c01.validate_traces(chk, h, tb)
            for sc in MT.block_scenarios(np.random.default_rng([chk.seed, 0xB10C, 1]), chk.tier, regimes=(4, 6),
                                         sizes=(64, 128, 129, 1024) if chk.tier == "quick" else None, nupd=2):
                sc["params"]["gbs_threshold"] = float(rngb.uniform(0.2, 0.9))   # own stream: `rng` below is undisturbed
                h = c01.run_history(rec, sc)
                c01.validate_traces(chk, h, tb)
            # sliding acts after EVERY update, whatever the regime: textures that start with grains below
            # the threshold, in every accepted regime (incl. the ones with static volumes)
            for regime in (0, 1, 6, 7, 4):
                for _ in range(1 if chk.tier == "quick" else 6):
                    sc = MT.scenario(rng, regime=regime, tkind="nonuniform", n=int(rng.integers(4, 12)), nupd=2, strain=0.5)
                    sc["params"]["gbs_threshold"] = float(rng.uniform(0.3, 0.9))
                    h = c01.run_history(rec, sc)
                    c01.validate_traces(chk, h, tb)
                    tb += [(sc, msg) for msg in history_fails(h)]
            # sliding inside a multiphase aggregate (the threshold and the floor are chi/n whatever the phase fraction): own stream
            mh = chk.cov.setdefault("multiphase_sliding_histories", {})
            for sc in multiphase_scenarios(np.random.default_rng([chk.seed, 0xC09E]), chk.tier):
                h = run_sc(rec, sc)
                c01.validate_traces(chk, h, tb)
                tb += [(sc, msg) for msg in history_fails(h)]
                key = f"{('olivine', 'enstatite')[sc['pair'][0]]}/regime {sc['regime']}/phi {sc['fractions'][sc['assemblage'].index(sc['pair'][0])]:g}/listed {'first' if sc['assemblage'][0] == sc['pair'][0] else 'second'}"
                mh[key] = mh.get(key, 0) + 1
        bad += [(None, m) for _, m in tb]
        hist_fail = [(sc_, m) for sc_, m in tb if isinstance(sc_, dict) and "pair" in sc_ and
                     ("did not keep" in m or "stored volumes" in m or "a stored fraction" in m)]
        chk.cov["traces_validated_against_impl"] = chk.cov["evaluations"]
    chk.cov["disagreements"] = len(bad)
    if ok and not bad:
        return
    found = []
    if br.drivers.get("core", 1) is None and hist_fail:
        sc_, m = hist_fail[0]
        chk.replay({"kind": "property-violation", "call": "Mineral.update_orientations (history)", "scenario": c01.encode_sc(sc_),
                    "observed": [m for _, m in hist_fail[:4]], "required": "C09", "broken": chk.cov.get("broken_obligations", []),
                    "disagreements": [m for _, m in bad[:3]]})
        return
    pool = [c for c, _ in bad if c is not None] + [gen_case(rng) for _ in range(400)]
    for c in pool:
        fails = oracle(utils, c)
        if fails:
            found.append((c, fails))
            break
    if found:
        for c, fails in found:
            chk.replay({"kind": "property-violation", "call": "pydrex.utils.apply_gbs", "input": encode(c),
                        "observed": fails, "required": "C09", "broken": chk.cov.get("broken_obligations", []),
                        "disagreements": [m for _, m in bad[:3]]})
    else:
        chk.replay({"kind": "unproved", "broken": chk.cov.get("broken_obligations", []),
                    "disagreements": [m for _, m in bad[:3]],
                    "note": "proof obligation or correspondence no longer checks; no failing input found"}, no_input=True)


def replay(d):
    common.use_repo_source()
    import pydrex.utils as utils
    if d.get("kind") != "property-violation":
        print("replay file names a broken obligation; re-run the check itself")
        return 1
    if "scenario" in d:
        sc = d["scenario"]
        sc["pair"] = tuple(sc["pair"])
        with MT.Recorder() as rec:
            h = run_sc(rec, sc)
        fails = history_fails(h)
        for f in fails:
            print("still fails:", f)
        return 1 if fails else 0
    fails = oracle(utils, decode(d["input"]))
    for f in fails:
        print("still fails:", f)
    return 1 if fails else 0
