"""C06 -- the returned deformation gradient is the solution of dF/dt = L.F."""
from __future__ import annotations

import numpy as np
from scipy.integrate import solve_ivp

import common
import proofs
import minerals_trace as MT
from props import c01

FILES = ["Model_core.v", "Model_minerals.v", "Proofs_core.v", "Proofs_minerals.v", "Proofs_flow.v", "Proofs_rhs.v",
         "Entry_core.v", "Extract_core.v"]
FILES += [f for f in MT.GLUE_TIE_FILES if f not in FILES]   # tie T of the glue model
PROP = "Properties/C06.v"


def reference_F(get_L, get_x, F0, t0, t1, pristine=None):
    def f(t, y):
        L = pristine if pristine is not None else np.asarray(get_L(t, get_x(t)), dtype=float)
        return (L @ y.reshape(3, 3)).reshape(-1)
    # max_step: a velocity gradient with compact support in time (pulses, shear zones crossed along the pathline) must not
    # be stepped over by the reference integration
    sol = solve_ivp(f, (t0, t1), F0.reshape(-1), method="DOP853", rtol=1e-11, atol=1e-13, max_step=abs(t1 - t0) / 64)
    return sol.y[:, -1].reshape(3, 3)


def trace_int(get_L, get_x, t0, t1, k=200):
    ts = np.linspace(t0, t1, k + 1)
    return float(np.trapezoid([np.trace(np.asarray(get_L(t, get_x(t)))) for t in ts], ts))


def random_F0(rng):
    while True:
        F = np.eye(3) + 0.4 * rng.normal(size=(3, 3))
        if np.linalg.det(F) > 0.2:
            return F


def check_history(h, F0, fails):
    """F after each update vs an independent high-accuracy integration."""
    get_L, get_x, dt = h["get_L"], h["get_x"], h["dt"]
    worst = 0.0
    eps = 0.0
    for k in range(1, len(h["F_hist"])):
        t1 = k * dt
        Fref = reference_F(get_L, get_x, F0, 0.0, t1, pristine=h["desc"].get("pristine"))
        F = h["F_hist"][k]
        eps = c01.strain_of(get_L, get_x, 0.0, t1)
        rel = float(np.abs(F - Fref).max() / max(1e-300, np.abs(Fref).max()))
        bound = 5e-3 + 1e-3 * (k + 2 * eps)
        worst = max(worst, rel / bound)
        if rel > bound:
            fails.append((k - 1, f"returned F differs from the solution of dF/dt = L.F by {rel:.3e} (bound {bound:.3e})"))
        d, dref = np.linalg.det(F), np.linalg.det(F0) * np.exp(trace_int(get_L, get_x, 0.0, t1))
        if abs(d - dref) > (bound * 3) * abs(dref):
            fails.append((k - 1, f"det F = {d!r}, expected det F0 * exp(int tr L) = {dref!r}"))
    return worst


PRESENT_KEYS = ("F0_layout", "spelling")


def presentation_plan(rng, tier):
    """histories whose ARGUMENTS are presented differently (same values): starting F Fortran-ordered / strided / read-only, the
    velocity gradient handed back as a non-contiguous view of a caller's table / a read-only array / a Fortran-ordered array,
    phase / fabric / regime (and get_regime's result) as enum members or numpy integers"""
    plan = [("F0_layout", "fortran"), ("F0_layout", "strided"), ("F0_layout", "readonly"),
            ("lkind", "L_view"), ("lkind", "L_readonly"), ("lkind", "L_fortran"), ("spelling", "enum")]
    if tier != "quick":
        plan = plan * 3 + [("spelling", "np.uint8"), ("spelling", "np.int64")]
    out = []
    for j, (key, val) in enumerate(plan):
        sc = MT.scenario(rng, regime=int((4, 6, 0, 7)[j % 4]), n=int(rng.integers(2, 10)), nupd=2,
                         lkind=("general", "trace", "time", "simple")[int(rng.integers(4))])
        sc[key] = val
        if key == "spelling" and j % 2 == 0:
            r2 = int((6, 4, 7, 0)[j % 4])
            sc["regime_switch"], sc["regime_switch_update"] = [sc["regime"], r2, 0.0], float(rng.uniform(0.3, 0.7))
        out.append(sc)
    return out


def presentation_fails(rec, sc, F0, chk=None, bad=None):
    """one presented history: C06's oracle on it, and - where the plain presentation is expressible from the same scenario (layout
    of F0, spelling of the ordinals) - bit-identity of returned F and stored textures with the plain run"""
    h = c01.run_history(rec, sc, F0=F0)
    if chk is not None:
        c01.validate_traces(chk, h, bad)
    fails = [f for f in h["fails"]]
    worst = check_history(h, F0, fails)
    if any(k in sc for k in PRESENT_KEYS) and not h["fails"]:
        hp = c01.run_history(rec, {k: v for k, v in sc.items() if k not in PRESENT_KEYS}, F0=F0)
        same = (len(hp["F_hist"]) == len(h["F_hist"]) and all(np.array_equal(a, b) for a, b in zip(hp["F_hist"], h["F_hist"]))
                and all(np.array_equal(np.asarray(a), np.asarray(b)) for a, b in zip(hp["mineral"].orientations, h["mineral"].orientations))
                and all(np.array_equal(np.asarray(a), np.asarray(b)) for a, b in zip(hp["mineral"].fractions, h["mineral"].fractions)))
        if not same:
            what = ", ".join(f"{k} = {sc[k]}" for k in PRESENT_KEYS if k in sc)
            dF = max((float(np.abs(a - b).max()) for a, b in zip(hp["F_hist"], h["F_hist"])), default=float("nan"))
            fails.append((0, f"the same values presented differently ({what}) change the result: returned F differs from the plain "
                             f"presentation by {dF:.3e}"))
    return h, fails, worst


def run(chk):
    ok, br = proofs.prove(chk, FILES, PROP, groups=("core",), gen_modules=MT.GLUE_TIE_GEN)
    chk.cov["trusted_base"] = common.TRUSTED_COMMON + [MT.GLUE_TIE_TRUSTED,
        "hand-written Model_minerals.rhs / update, tied by trace validation (recorded eval_rhs outputs, returned F bit-exact from LSODA's last vector)",
        "NOT proved (LSODA accuracy): the bound 5e-3 + 1e-3 (N + 2 strain) on the returned F; measured here against DOP853 (rtol 1e-11)",
    ]
    chk.cov["rule"] = ("histories with non-identity starting F (det > 0, non-commuting with L), 7 flow families incl. time- and position-dependent, "
                       "all accepted regimes incl. the null regimes, 1..4 updates; each update: returned F vs the model (exact) and vs an "
                       "independent DOP853 integration; paired runs: different minerals / split vs whole interval / bulk update; flows that take exactly the same "
                       "value at the start, midpoint and end of every update but vary in between (whole cosine periods, pulses, shear zones along a straight "
                       "pathline, closed pathlines; one history per family [thorough: 6]); presentations of the arguments (starting F Fortran-ordered / strided / read-only, "
                       "L handed back as a view of a caller's table / read-only / Fortran-ordered, ordinals as enum members or numpy integers: oracle + bit-identity with the "
                       "plain presentation); non-trivial = F changed")
    bad, mon = [], []
    rng = np.random.default_rng(chk.seed)
    import pydrex
    if br.drivers.get("core", 1) is None:
        worst = 0.0
        with MT.Recorder() as rec:
            N = 16 if chk.tier == "quick" else 200
            for i in range(N):
                # the first scenarios are rigid rotations (zero strain rate, F must still follow dF/dt = L.F)
                forced = {0: "spin", 1: "shear_then_spin", 2: "stopping", 3: "shared"}.get(i)
                sc = MT.scenario(rng, regime=int((4, 6, 0, 7, 4)[i % 5]), n=int(rng.integers(2, 12)), lkind=forced)
                F0 = random_F0(rng)
                h = c01.run_history(rec, sc, F0=F0)
                c01.validate_traces(chk, h, bad)
                fails = [f for f in h["fails"]]
                worst = max(worst, check_history(h, F0, fails))
                mon += [(sc, k, m, F0) for k, m in fails]
                # a different mineral under the same flow returns the same F
                sc2 = dict(sc, pair=MT.ACCEPTED[rng.integers(6)], regime=int((4, 6, 0)[rng.integers(3)]),
                           n=int(rng.integers(2, 12)), tkind=MT.T_KINDS[rng.integers(4)])
                sc2["params"] = dict(sc["params"], gbm_mobility=float(rng.uniform(0, 200)), number_of_grains=sc2["n"])
                h2 = c01.run_history(rec, sc2, F0=F0)
                if not h["fails"] and not h2["fails"]:
                    dF = np.abs(h["F_hist"][-1] - h2["F_hist"][-1]).max() / np.abs(h["F_hist"][-1]).max()
                    chk.cov["F_mineral_dependence_max"] = max(chk.cov.get("F_mineral_dependence_max", 0.0), float(dF))
                    if dF > 2 * (5e-3 + 1e-3 * (sc["nupd"] + 2 * h["strain"])):
                        mon.append((sc, sc["nupd"] - 1, f"returned F depends on the mineral: relative difference {dF:.3e}", F0))
                # split vs whole
                if sc["nupd"] > 1:
                    sc1 = dict(sc, nupd=1)
                    h1 = c01.run_history(rec, sc1, F0=F0)
                    if not h1["fails"] and not h["fails"]:
                        dF = np.abs(h["F_hist"][-1] - h1["F_hist"][-1]).max() / np.abs(h["F_hist"][-1]).max()
                        if dF > 2 * (5e-3 + 1e-3 * (sc["nupd"] + 2 * h["strain"])):
                            mon.append((sc, sc["nupd"] - 1, f"split interval and whole interval give different F: {dF:.3e}", F0))
            # velocity gradients that coincide EXACTLY at the start, the midpoint and the end of every update and vary in
            # between (whole periods, pulses / shear zones strictly inside, closed pathlines): own PRNG stream
            rngc = np.random.default_rng([chk.seed, 0xC06D])
            fam = chk.cov.setdefault("coincident_flow_families", {})
            for sc in MT.coincident_scenarios(rngc, chk.tier, regimes=(4, 6, 0, 7)):
                F0 = random_F0(rngc)
                h = c01.run_history(rec, sc, F0=F0)
                c01.validate_traces(chk, h, bad)
                fails = [f for f in h["fails"]]
                worst = max(worst, check_history(h, F0, fails))
                mon += [(sc, k, m, F0) for k, m in fails]
                fam[sc["lkind"]] = fam.get(sc["lkind"], 0) + 1
                # the whole history as ONE update of the same flow (its sample points no longer coincide) returns the same F
                if sc["nupd"] > 1 and not fails:
                    m1, p1, gL, gx, _ = MT.build(sc)
                    F1 = m1.update_orientations(p1, F0.copy(), gL, (0.0, sc["nupd"] * h["dt"], gx))
                    dF = float(np.abs(F1 - h["F_hist"][-1]).max() / np.abs(h["F_hist"][-1]).max())
                    if dF > 2 * (5e-3 + 1e-3 * (sc["nupd"] + 2 * h["strain"])):
                        mon.append((sc, sc["nupd"] - 1, f"split interval and whole interval give different F: {dF:.3e}", F0))
            # the same values presented differently (memory layout of F0, storage of the returned L, spelling of the ordinals)
            rngp = np.random.default_rng([chk.seed, 0xC06E])
            ph = chk.cov.setdefault("presentation_histories", {})
            for sc in presentation_plan(rngp, chk.tier):
                F0 = random_F0(rngp)
                _, fails, w = presentation_fails(rec, sc, F0, chk, bad)
                worst = max(worst, w)
                mon += [(sc, k, m, F0) for k, m in fails]
                key = next((f"{k}={sc[k]}" for k in PRESENT_KEYS if k in sc), "L=" + sc["lkind"])
                ph[key] = ph.get(key, 0) + 1
            # block-boundary grain counts (trace validation of the rate kernel at those sizes; F as above)
            for sc in MT.block_scenarios(np.random.default_rng([chk.seed, 0xB10C]), chk.tier, regimes=(4, 6, 0),
                                         sizes=(64, 128, 129, 1024) if chk.tier == "quick" else None):
                F0 = random_F0(np.random.default_rng([chk.seed, 0xB10C, sc["n"]]))   # own stream: `rng` is undisturbed
                h = c01.run_history(rec, sc, F0=F0)
                c01.validate_traces(chk, h, bad)
                fails = [f for f in h["fails"]]
                worst = max(worst, check_history(h, F0, fails))
                mon += [(sc, k, m, F0) for k, m in fails]
            # bulk update returns the single-phase F
            for _ in range(3 if chk.tier == "quick" else 30):
                sc = MT.scenario(rng, regime=4, pair=(0, 0), n=6, nupd=1)
                m1, params, get_L, get_x, _ = MT.build(sc, (pydrex.MineralPhase.olivine, pydrex.MineralPhase.enstatite), (0.7, 0.3))
                sc_en = dict(sc, pair=(1, 5))
                m2, _, _, _, _ = MT.build(sc_en, (pydrex.MineralPhase.olivine, pydrex.MineralPhase.enstatite), (0.7, 0.3))
                F0 = random_F0(rng)
                Fb = pydrex.update_all([m1, m2], params, F0, get_L, (0.0, 0.3, get_x))
                m3, _, _, _, _ = MT.build(sc, (pydrex.MineralPhase.olivine, pydrex.MineralPhase.enstatite), (0.7, 0.3))
                Fs = m3.update_orientations(params, F0, get_L, (0.0, 0.3, get_x))
                Fref = reference_F(get_L, get_x, F0, 0.0, 0.3)
                chk.note_case(("bulk", sc["seed"]), nontrivial=True)
                for nm, Fx in (("bulk update", Fb), ("single-phase update", Fs)):
                    rel = np.abs(Fx - Fref).max() / np.abs(Fref).max()
                    if rel > 5e-3 + 1e-3 * 2:
                        mon.append((sc, 0, f"{nm}: F differs from the solution of dF/dt = L.F by {rel:.3e}", F0))
        chk.cov["F_error_over_bound_max"] = worst
        chk.cov["traces_validated_against_impl"] = chk.cov["evaluations"]
    chk.cov["disagreements"] = len(bad)
    chk.cov["monitor_failures"] = len(mon)
    if ok and not bad and not mon:
        return
    if mon:
        sc, k, msg, F0 = mon[0]
        chk.replay({"kind": "property-violation", "call": "Mineral.update_orientations", "scenario": c01.encode_sc(sc),
                    "F0": [common.hx(x) for x in F0.reshape(-1)], "update_index": k, "observed": msg, "required": "C06",
                    "broken": chk.cov.get("broken_obligations", []), "disagreements": [m for _, m in bad[:3]]})
    else:
        chk.replay({"kind": "unproved", "broken": chk.cov.get("broken_obligations", []),
                    "disagreements": [m for _, m in bad[:3]],
                    "note": "proof obligation or correspondence no longer checks; no failing input found"}, no_input=True)


def replay(d):
    common.use_repo_source()
    if d.get("kind") != "property-violation":
        print("replay file names a broken obligation; re-run the check itself")
        return 1
    sc = d["scenario"]
    sc["pair"] = tuple(sc["pair"])
    F0 = np.array([common.unhx(x) for x in d["F0"]]).reshape(3, 3)
    with MT.Recorder() as rec:
        _, fails, _ = presentation_fails(rec, sc, F0)
    for k, m in fails:
        print("still fails:", k, m)
    return 1 if fails else 0
