"""C06 -- the returned deformation gradient is the solution of dF/dt = L.F."""
from __future__ import annotations

import numpy as np
from scipy.integrate import solve_ivp

import common
import proofs
import minerals_trace as MT
from props import c01

FILES = ["Model_core.v", "Model_minerals.v", "Proofs_core.v", "Proofs_minerals.v", "Proofs_flow.v", "Proofs_rhs.v",
         "Entry_core.v", "Extract_core.v"]
FILES += [f for f in MT.GLUE_TIE_FILES if f not in FILES]   # tie T of the glue model
PROP = "Properties/C06.v"


def reference_F(get_L, get_x, F0, t0, t1, pristine=None):
    def f(t, y):
        L = pristine if pristine is not None else np.asarray(get_L(t, get_x(t)), dtype=float)
        return (L @ y.reshape(3, 3)).reshape(-1)
    # max_step: a velocity gradient with compact support in time (pulses, shear zones crossed along the pathline) must not
    # be stepped over by the reference integration
    sol = solve_ivp(f, (t0, t1), F0.reshape(-1), method="DOP853", rtol=1e-11, atol=1e-13, max_step=abs(t1 - t0) / 64)
    return sol.y[:, -1].reshape(3, 3)


def trace_int(get_L, get_x, t0, t1, k=200):
    ts = np.linspace(t0, t1, k + 1)
    return float(np.trapezoid([np.trace(np.asarray(get_L(t, get_x(t)))) for t in ts], ts))


def random_F0(rng):
    while True:
        F = np.eye(3) + 0.4 * rng.normal(size=(3, 3))
        if np.linalg.det(F) > 0.2:
            return F


def check_history(h, F0, fails):
    """F after each update vs an independent high-accuracy integration."""
    get_L, get_x, dt = h["get_L"], h["get_x"], h["dt"]
    worst = 0.0
    eps = 0.0
    for k in range(1, len(h["F_hist"])):
        t1 = k * dt
        Fref = reference_F(get_L, get_x, F0, 0.0, t1, pristine=h["desc"].get("pristine"))
        F = h["F_hist"][k]
        eps = c01.strain_of(get_L, get_x, 0.0, t1)
        rel = float(np.abs(F - Fref).max() / max(1e-300, np.abs(Fref).max()))
        bound = 5e-3 + 1e-3 * (k + 2 * eps)
        worst = max(worst, rel / bound)
        if rel > bound:
            fails.append((k - 1, f"returned F differs from the solution of dF/dt = L.F by {rel:.3e} (bound {bound:.3e})"))
        d, dref = np.linalg.det(F), np.linalg.det(F0) * np.exp(trace_int(get_L, get_x, 0.0, t1))
        if abs(d - dref) > (bound * 3) * abs(dref):
            fails.append((k - 1, f"det F = {d!r}, expected det F0 * exp(int tr L) = {dref!r}"))
    return worst


PRESENT_KEYS = ("F0_layout", "spelling")


def presentation_plan(rng, tier):
    """histories whose ARGUMENTS are presented differently (same values): starting F Fortran-ordered / strided / read-only, the
    velocity gradient handed back as a non-contiguous view of a caller's table / a read-only array / a Fortran-ordered array,
    phase / fabric / regime (and get_regime's result) as enum members or numpy integers"""
    plan = [("F0_layout", "fortran"), ("F0_layout", "strided"), ("F0_layout", "readonly"),
            ("lkind", "L_view"), ("lkind", "L_readonly"), ("lkind", "L_fortran"), ("spelling", "enum")]
    if tier != "quick":
        plan = plan * 3 + [("spelling", "np.uint8"), ("spelling", "np.int64")]
    out = []
    for j, (key, val) in enumerate(plan):
        sc = MT.scenario(rng, regime=int((4, 6, 0, 7)[j % 4]), n=int(rng.integers(2, 10)), nupd=2,
                         lkind=("general", "trace", "time", "simple")[int(rng.integers(4))])
        sc[key] = val
        if key == "spelling" and j % 2 == 0:
            r2 = int((6, 4, 7, 0)[j % 4])
            sc["regime_switch"], sc["regime_switch_update"] = [sc["regime"], r2, 0.0], float(rng.uniform(0.3, 0.7))
        out.append(sc)
    return out


def presentation_fails(rec, sc, F0, chk=None, bad=None):
    """one presented history: C06's oracle on it, and - where the plain presentation is expressible from the same scenario (layout
    of F0, spelling of the ordinals) - bit-identity of returned F and stored textures with the plain run"""
    h = c01.run_history(rec, sc, F0=F0)
    if chk is not None:
        c01.validate_traces(chk, h, bad)
    fails = [f for f in h["fails"]]
    worst = check_history(h, F0, fails)
    if any(k in sc for k in PRESENT_KEYS) and not h["fails"]:
        hp = c01.run_history(rec, {k: v for k, v in sc.items() if k not in PRESENT_KEYS}, F0=F0)
        same = (len(hp["F_hist"]) == len(h["F_hist"]) and all(np.array_equal(a, b) for a, b in zip(hp["F_hist"], h["F_hist"]))
                and all(np.array_equal(np.asarray(a), np.asarray(b)) for a, b in zip(hp["mineral"].orientations, h["mineral"].orientations))
                and all(np.array_equal(np.asarray(a), np.asarray(b)) for a, b in zip(hp["mineral"].fractions, h["mineral"].fractions)))
        if not same:
            what = ", ".join(f"{k} = {sc[k]}" for k in PRESENT_KEYS if k in sc)
            dF = max((float(np.abs(a - b).max()) for a, b in zip(hp["F_hist"], h["F_hist"])), default=float("nan"))
            fails.append((0, f"the same values presented differently ({what}) change the result: returned F differs from the plain "
                             f"presentation by {dF:.3e}"))
    return h, fails, worst


# --------------------------------------------------------------------------------------------------------------------
# bulk updates (pydrex.update_all) over assemblages ON THE BOUNDARY OF THE SIMPLEX of phase fractions, and mineral lists
# that are any sub-list of the assemblage.  The property quantifies over "all minerals and parameter sets, all phase
# assemblages" and says that a bulk update returns the F of a single-phase update: a phase fraction of exactly 0 / exactly
# 1 (a phase that vanishes on a stretch of the pathline), a list that tracks only the vanished phase, only one of two
# phases, the same phase twice, the phases in the other order than the assemblage, or a phase the assemblage does not name
# are all legal calls, and anything that decides per mineral whether / how to integrate is only visible there (seeded
# change C06f: minerals of zero-fraction phases skipped; F taken "from the minerals that were updated").
# --------------------------------------------------------------------------------------------------------------------
BULK_FLOWS = ("general", "simple", "time", "position", "trace", "spin", "pure")     # constant / time- / position-dependent
BULK_ASSEMBLAGES = (        # (label, phase ordinals, fractions); 0 = olivine, 1 = enstatite (the enum has no third phase)
    ("ol=1|en=0", (0, 1), (1.0, 0.0)), ("ol=0|en=1", (0, 1), (0.0, 1.0)),
    ("en=1|ol=0", (1, 0), (1.0, 0.0)), ("en=0|ol=1", (1, 0), (0.0, 1.0)),
    ("ol=1", (0,), (1.0,)), ("en=1", (1,), (1.0,)),
    # next to the boundary (smallest subnormal, 1e-300, one ulp below 1) and interior controls
    ("ol=1|en=5e-324", (0, 1), (1.0, 5e-324)), ("en=1e-300|ol=1", (1, 0), (1e-300, 1.0)),
    ("ol=1ulp|en=1-1ulp", (0, 1), (2.0 ** -53, 1.0 - 2.0 ** -53)),
    ("ol=0.7|en=0.3", (0, 1), (0.7, 0.3)), ("en=0.5|ol=0.5", (1, 0), (0.5, 0.5)),
)
BULK_LISTS = ((0,), (1,), (0, 1), (1, 0), (0, 0), (1, 1), (1, 0, 1), ())           # phases of the minerals handed over, in order
BULK_FRACTION_SPELLINGS = ("tuple", "list", "np.float64", "ndarray")               # same values, as configs / files / arrays give them
_FABRICS_OF = {0: (0, 1, 2, 3, 4), 1: (5,)}


def bulk_class(assemblage, fractions, listed):
    """where a call sits: what the listed minerals' phases weigh in the assemblage"""
    w = [fractions[assemblage.index(p)] if p in assemblage else None for p in listed]
    if not w:
        return "empty-list"
    if any(x is None for x in w):
        return "phase-absent:all" if all(x is None for x in w) else "phase-absent:some"
    if all(x == 0 for x in w):
        return "fraction-0:all-listed"
    if all(x == 1 for x in w):
        return "fraction-1:all-listed"
    if any(x == 0 for x in w):
        return "fraction-0:" + ("last" if w[-1] == 0 else "not-last")
    return "near-boundary" if min(min(x, 1 - x) for x in w) < 1e-12 else "interior"


def bulk_plan(rng, tier):
    """every assemblage of BULK_ASSEMBLAGES x every list of BULK_LISTS once (thorough: 4 times); flow family, regimes, fabrics, grain
    counts, textures of the members, number of consecutive bulk updates (1..2, thorough 1..3) and the spelling of the fractions vary"""
    out, j = [], 0
    for _ in range(1 if tier == "quick" else 4):
        for label, ass, fr in BULK_ASSEMBLAGES:
            for listed in BULK_LISTS:
                sc = MT.scenario(rng, regime=int((4, 6, 0, 7)[j % 4]), pair=(0, 0), n=int(rng.integers(2, 10)),
                                 lkind=BULK_FLOWS[j % len(BULK_FLOWS)], nupd=1 + int(rng.integers(2 if tier == "quick" else 3)),
                                 strain=float(rng.uniform(0.1, 0.5)))
                sc["flow_seed"] = int(rng.integers(0, 2**31 - 1))
                members = [[int(p), int(_FABRICS_OF[p][int(rng.integers(len(_FABRICS_OF[p])))]), int(rng.integers(2, 10)),
                            int((4, 6, 0, 7, 4)[int(rng.integers(5))]), MT.T_KINDS[int(rng.integers(4))]] for p in listed]
                sc["bulk"] = dict(label=label, assemblage=[int(p) for p in ass], fractions=[float(x) for x in fr], members=members,
                                  spelling=BULK_FRACTION_SPELLINGS[int(rng.integers(len(BULK_FRACTION_SPELLINGS)))],
                                  cls=bulk_class(list(ass), list(fr), list(listed)))
                out.append(sc)
                j += 1
    return out


def bulk_build(sc, single_phase_of=None):
    """minerals (fresh, one per member, own texture), params, flow and pathline of a bulk scenario.  single_phase_of = j: only
    member j, in a ONE-phase configuration (assemblage = its phase, fraction 1) -- the single-phase update of the property text"""
    import pydrex
    b = sc["bulk"]
    ass = [pydrex.MineralPhase(int(p)) for p in b["assemblage"]]
    fr = [float(x) for x in b["fractions"]]
    members = list(enumerate(b["members"]))
    if single_phase_of is not None:
        members = [members[single_phase_of]]
        ass, fr = [pydrex.MineralPhase(int(members[0][1][0]))], [1.0]
    sp = b.get("spelling", "tuple")
    ms, built = [], None
    for j, (ph, fab, n, reg, tk) in members or [(0, (0, 0, sc["n"], sc["regime"], sc["tkind"]))]:
        scj = dict(sc, pair=(int(ph), int(fab)), n=int(n), regime=int(reg), tkind=tk, seed=int(sc["seed"]) + 7 * j)
        built = MT.build(scj, ass, fr)
        ms.append(built[0])
    if not members:
        ms = []
    _, params, get_L, get_x, _ = built
    if sp == "list":
        params["phase_assemblage"], params["phase_fractions"] = list(ass), list(fr)
    elif sp == "np.float64":
        params["phase_fractions"] = tuple(np.float64(x) for x in fr)
    elif sp == "ndarray":
        params["phase_fractions"] = np.array(fr, dtype=float)
    return ms, params, get_L, get_x


def bulk_interval(sc, get_L, get_x):
    L0 = np.asarray(get_L(0.0, get_x(0.0)), dtype=float)
    s0 = float(np.abs(np.linalg.eigvalsh((L0 + L0.T) / 2)).max())
    return (sc["strain"] / sc["nupd"]) / s0 if s0 > 0 else (0.5 / (float(np.abs(L0).max()) or 1.0)) / sc["nupd"]


def _rel(A, B):
    return float(np.abs(np.asarray(A, dtype=float) - B).max() / max(1e-300, np.abs(B).max()))


def bulk_fails(sc, F0, info=None):
    """C06's oracle on one bulk scenario: sc["nupd"] consecutive pydrex.update_all calls on the same minerals.
      * every returned F vs an independent DOP853 integration of dF/dt = L(t, x(t)).F from F0 (stated bound), det F;
      * the first returned F vs single-phase updates (Mineral.update_orientations) of twins of the first and the last listed
        mineral: under the same parameter set, and in a one-phase configuration (its phase alone, fraction 1);
      * the consecutive updates vs ONE bulk update of twins over the whole interval;
      * the call leaves its arguments (params, starting F) alone, and a second call does not hand out the storage of the first.
    A call that RAISES returns no deformation gradient: nothing for C06 to judge (on the unchanged code that is every list with a
    phase the assemblage does not name -- eval_rhs returns None, LSODA raises RuntimeError -- and the empty list -- UnboundLocalError;
    both are `Err` in Model_minerals.lookup_fraction / update_all).  These two classes are EXCLUDED from 'a legal call must not
    raise'; if such a call does return an F, the F is judged like any other.  A raise for phases the assemblage names is a failure.
    info (dict) receives: cls, raised, rel_over_bound, vs_single, model_disagreement."""
    import pydrex
    import argguard
    info = info if info is not None else {}
    b = sc["bulk"]
    cls = bulk_class(list(b["assemblage"]), list(b["fractions"]), [m[0] for m in b["members"]])
    info.update(cls=cls, raised=None, rel_over_bound=0.0, vs_single=0.0, model_disagreement=None, changed=False)
    may_raise = cls.startswith("phase-absent") or cls == "empty-list"
    fails = []
    ms, params, get_L, get_x = bulk_build(sc)
    dt = bulk_interval(sc, get_L, get_x)
    what = f"update_all over [{', '.join('ol' if m[0] == 0 else 'en' for m in b['members'])}] with {b['label']}"
    F, t, eps, F_hist = F0.copy(), 0.0, 0.0, [F0.copy()]
    for k in range(sc["nupd"]):
        Fin = F.copy()
        try:
            Fn, faults = argguard.guarded(pydrex.update_all, (ms, params, F, get_L, (t, t + dt, get_x)), out=(0,))
        except Exception as e:  # noqa: BLE001
            info["raised"] = type(e).__name__
            if not may_raise:
                fails.append((k, f"{what}: raised {type(e).__name__}: {e}"))
            break       # no F returned
        for ft in faults:
            fails.append((k, f"{what}: {ft}"))
        if not (isinstance(Fn, np.ndarray) and Fn.shape == (3, 3) and np.all(np.isfinite(Fn))):
            fails.append((k, f"{what}: returned {type(Fn).__name__} {getattr(Fn, 'shape', '')} instead of a finite 3x3 deformation gradient"))
            break
        t1 = t + dt
        eps += c01.strain_of(get_L, get_x, t, t1)
        bound = 5e-3 + 1e-3 * ((k + 1) + 2 * eps)
        Fref = reference_F(get_L, get_x, F0, 0.0, t1)
        rel = _rel(Fn, Fref)
        info["rel_over_bound"] = max(info["rel_over_bound"], rel / bound)
        info["changed"] = info["changed"] or not np.array_equal(Fn, Fin)
        if rel > bound:
            stay = " (it is the supplied F, unchanged)" if np.array_equal(Fn, Fin) else ""
            fails.append((k, f"{what}: returned F differs from the solution of dF/dt = L.F by {rel:.3e} (bound {bound:.3e}){stay}"))
        d, dref = float(np.linalg.det(Fn)), float(np.linalg.det(F0) * np.exp(trace_int(get_L, get_x, 0.0, t1)))
        if abs(d - dref) > (bound * 3) * abs(dref):
            fails.append((k, f"{what}: det F = {d!r}, expected det F0 * exp(int tr L) = {dref!r}"))
        if k == 0 and b["members"]:
            # single-phase updates of twins (fresh minerals of the same description) over the same interval from the same F
            last = len(b["members"]) - 1
            for j in sorted({0, last}):
                for one_phase in (False, True):
                    if not one_phase and b["members"][j][0] not in b["assemblage"]:
                        continue        # the single-phase update itself raises for a phase the assemblage does not name
                    tw, p1, gL1, gx1 = bulk_build(sc, single_phase_of=j) if one_phase else bulk_build(sc)
                    try:
                        Fs = (tw[0] if one_phase else tw[j]).update_orientations(p1, F0.copy(), gL1, (0.0, dt, gx1))
                    except Exception as e:  # noqa: BLE001
                        fails.append((0, f"single-phase update of listed mineral {j} raised {type(e).__name__}: {e}"))
                        continue
                    dF = _rel(Fn, Fs)
                    info["vs_single"] = max(info["vs_single"], dF)
                    if dF > 2 * bound:
                        cfg = "in a one-phase configuration" if one_phase else "under the same parameters"
                        fails.append((0, f"{what}: returned F differs from the single-phase update of listed mineral {j} ({cfg}) by {dF:.3e}"))
                    if j == last and not one_phase and not np.array_equal(Fn, Fs):
                        # correspondence with Model_minerals.update_all (the last mineral's F from the common starting F): bit-exact
                        info["model_disagreement"] = (f"{what}: returned F is not the last listed mineral's single-phase F "
                                                      f"(max difference {float(np.abs(Fn - Fs).max()):.3e})")
        F, t = Fn, t1
        F_hist.append(np.array(Fn, dtype=float))
    if info["raised"] is None and may_raise and len(F_hist) > 1:
        info["model_disagreement"] = info["model_disagreement"] or f"{what}: returned an F where the model raises ({cls})"
    if sc["nupd"] > 1 and len(F_hist) == sc["nupd"] + 1 and not fails:
        ms1, p1, gL1, gx1 = bulk_build(sc)
        try:
            F1 = pydrex.update_all(ms1, p1, F0.copy(), gL1, (0.0, sc["nupd"] * dt, gx1))
            dF = _rel(F1, F_hist[-1])
            if dF > 2 * (5e-3 + 1e-3 * (sc["nupd"] + 2 * eps)):
                fails.append((sc["nupd"] - 1, f"{what}: split interval and whole interval give different F: {dF:.3e}"))
        except Exception as e:  # noqa: BLE001
            fails.append((sc["nupd"] - 1, f"{what}: the whole interval as one bulk update raised {type(e).__name__}: {e}"))
    if info["raised"] is None and not fails:
        def make_args():
            a = bulk_build(sc)
            return (a[0], a[1], F0.copy(), a[2], (0.0, dt, a[3])), {}
        for ft in argguard.fresh_result_probe(pydrex.update_all, make_args):
            fails.append((0, f"{what}: {ft}"))
    return fails, info


def run(chk):
    ok, br = proofs.prove(chk, FILES, PROP, groups=("core",), gen_modules=MT.GLUE_TIE_GEN)
    chk.cov["trusted_base"] = common.TRUSTED_COMMON + [MT.GLUE_TIE_TRUSTED,
        "hand-written Model_minerals.rhs / update, tied by trace validation (recorded eval_rhs outputs, returned F bit-exact from LSODA's last vector)",
        "NOT proved (LSODA accuracy): the bound 5e-3 + 1e-3 (N + 2 strain) on the returned F; measured here against DOP853 (rtol 1e-11)",
    ]
    chk.cov["rule"] = ("histories with non-identity starting F (det > 0, non-commuting with L), 7 flow families incl. time- and position-dependent, "
                       "all accepted regimes incl. the null regimes, 1..4 updates; each update: returned F vs the model (exact) and vs an "
                       "independent DOP853 integration; paired runs: different minerals / split vs whole interval / bulk update; flows that take exactly the same "
                       "value at the start, midpoint and end of every update but vary in between (whole cosine periods, pulses, shear zones along a straight "
                       "pathline, closed pathlines; one history per family [thorough: 6]); presentations of the arguments (starting F Fortran-ordered / strided / read-only, "
                       "L handed back as a view of a caller's table / read-only / Fortran-ordered, ordinals as enum members or numpy integers: oracle + bit-identity with the "
                       "plain presentation); bulk updates (pydrex.update_all, 1..2 [thorough 1..3] consecutive calls) over every assemblage on / next to the boundary of the simplex "
                       "of phase fractions (a fraction exactly 0 / exactly 1, one-phase assemblages, subnormal fractions, interior controls) x every "
                       "sub-list of minerals (only the zero-fraction phase, only one phase, both orders, a phase twice, a phase the assemblage does "
                       "not name, the empty list): returned F vs the model (the last mineral's F, bit-exact; raises where the model is Err), vs DOP853, "
                       "vs single-phase updates of twins (same parameters / one-phase configuration), split vs whole, arguments unchanged, result "
                       "storage not shared; non-trivial = F changed")
    bad, mon = [], []
    rng = np.random.default_rng(chk.seed)
    import pydrex
    if br.drivers.get("core", 1) is None:
        worst = 0.0
        with MT.Recorder() as rec:
            N = 16 if chk.tier == "quick" else 200
            for i in range(N):
                # the first scenarios are rigid rotations (zero strain rate, F must still follow dF/dt = L.F)
                forced = {0: "spin", 1: "shear_then_spin", 2: "stopping", 3: "shared"}.get(i)
                sc = MT.scenario(rng, regime=int((4, 6, 0, 7, 4)[i % 5]), n=int(rng.integers(2, 12)), lkind=forced)
                F0 = random_F0(rng)
                h = c01.run_history(rec, sc, F0=F0)
                c01.validate_traces(chk, h, bad)
                fails = [f for f in h["fails"]]
                worst = max(worst, check_history(h, F0, fails))
                mon += [(sc, k, m, F0) for k, m in fails]
                # a different mineral under the same flow returns the same F
                sc2 = dict(sc, pair=MT.ACCEPTED[rng.integers(6)], regime=int((4, 6, 0)[rng.integers(3)]),
                           n=int(rng.integers(2, 12)), tkind=MT.T_KINDS[rng.integers(4)])
                sc2["params"] = dict(sc["params"], gbm_mobility=float(rng.uniform(0, 200)), number_of_grains=sc2["n"])
                h2 = c01.run_history(rec, sc2, F0=F0)
                if not h["fails"] and not h2["fails"]:
                    dF = np.abs(h["F_hist"][-1] - h2["F_hist"][-1]).max() / np.abs(h["F_hist"][-1]).max()
                    chk.cov["F_mineral_dependence_max"] = max(chk.cov.get("F_mineral_dependence_max", 0.0), float(dF))
                    if dF > 2 * (5e-3 + 1e-3 * (sc["nupd"] + 2 * h["strain"])):
                        mon.append((sc, sc["nupd"] - 1, f"returned F depends on the mineral: relative difference {dF:.3e}", F0))
                # split vs whole
                if sc["nupd"] > 1:
                    sc1 = dict(sc, nupd=1)
                    h1 = c01.run_history(rec, sc1, F0=F0)
                    if not h1["fails"] and not h["fails"]:
                        dF = np.abs(h["F_hist"][-1] - h1["F_hist"][-1]).max() / np.abs(h["F_hist"][-1]).max()
                        if dF > 2 * (5e-3 + 1e-3 * (sc["nupd"] + 2 * h["strain"])):
                            mon.append((sc, sc["nupd"] - 1, f"split interval and whole interval give different F: {dF:.3e}", F0))
            # velocity gradients that coincide EXACTLY at the start, the midpoint and the end of every update and vary in
            # between (whole periods, pulses / shear zones strictly inside, closed pathlines): own PRNG stream
            rngc = np.random.default_rng([chk.seed, 0xC06D])
            fam = chk.cov.setdefault("coincident_flow_families", {})
            for sc in MT.coincident_scenarios(rngc, chk.tier, regimes=(4, 6, 0, 7)):
                F0 = random_F0(rngc)
                h = c01.run_history(rec, sc, F0=F0)
                c01.validate_traces(chk, h, bad)
                fails = [f for f in h["fails"]]
                worst = max(worst, check_history(h, F0, fails))
                mon += [(sc, k, m, F0) for k, m in fails]
                fam[sc["lkind"]] = fam.get(sc["lkind"], 0) + 1
                # the whole history as ONE update of the same flow (its sample points no longer coincide) returns the same F
                if sc["nupd"] > 1 and not fails:
                    m1, p1, gL, gx, _ = MT.build(sc)
                    F1 = m1.update_orientations(p1, F0.copy(), gL, (0.0, sc["nupd"] * h["dt"], gx))
                    dF = float(np.abs(F1 - h["F_hist"][-1]).max() / np.abs(h["F_hist"][-1]).max())
                    if dF > 2 * (5e-3 + 1e-3 * (sc["nupd"] + 2 * h["strain"])):
                        mon.append((sc, sc["nupd"] - 1, f"split interval and whole interval give different F: {dF:.3e}", F0))
            # the same values presented differently (memory layout of F0, storage of the returned L, spelling of the ordinals)
            rngp = np.random.default_rng([chk.seed, 0xC06E])
            ph = chk.cov.setdefault("presentation_histories", {})
            for sc in presentation_plan(rngp, chk.tier):
                F0 = random_F0(rngp)
                _, fails, w = presentation_fails(rec, sc, F0, chk, bad)
                worst = max(worst, w)
                mon += [(sc, k, m, F0) for k, m in fails]
                key = next((f"{k}={sc[k]}" for k in PRESENT_KEYS if k in sc), "L=" + sc["lkind"])
                ph[key] = ph.get(key, 0) + 1
            # block-boundary grain counts (trace validation of the rate kernel at those sizes; F as above)
            for sc in MT.block_scenarios(np.random.default_rng([chk.seed, 0xB10C]), chk.tier, regimes=(4, 6, 0),
                                         sizes=(64, 128, 129, 1024) if chk.tier == "quick" else None):
                F0 = random_F0(np.random.default_rng([chk.seed, 0xB10C, sc["n"]]))   # own stream: `rng` is undisturbed
                h = c01.run_history(rec, sc, F0=F0)
                c01.validate_traces(chk, h, bad)
                fails = [f for f in h["fails"]]
                worst = max(worst, check_history(h, F0, fails))
                mon += [(sc, k, m, F0) for k, m in fails]
            # bulk update returns the single-phase F
            for _ in range(3 if chk.tier == "quick" else 30):
                sc = MT.scenario(rng, regime=4, pair=(0, 0), n=6, nupd=1)
                m1, params, get_L, get_x, _ = MT.build(sc, (pydrex.MineralPhase.olivine, pydrex.MineralPhase.enstatite), (0.7, 0.3))
                sc_en = dict(sc, pair=(1, 5))
                m2, _, _, _, _ = MT.build(sc_en, (pydrex.MineralPhase.olivine, pydrex.MineralPhase.enstatite), (0.7, 0.3))
                F0 = random_F0(rng)
                Fb = pydrex.update_all([m1, m2], params, F0, get_L, (0.0, 0.3, get_x))
                m3, _, _, _, _ = MT.build(sc, (pydrex.MineralPhase.olivine, pydrex.MineralPhase.enstatite), (0.7, 0.3))
                Fs = m3.update_orientations(params, F0, get_L, (0.0, 0.3, get_x))
                Fref = reference_F(get_L, get_x, F0, 0.0, 0.3)
                chk.note_case(("bulk", sc["seed"]), nontrivial=True)
                for nm, Fx in (("bulk update", Fb), ("single-phase update", Fs)):
                    rel = np.abs(Fx - Fref).max() / np.abs(Fref).max()
                    if rel > 5e-3 + 1e-3 * 2:
                        mon.append((sc, 0, f"{nm}: F differs from the solution of dF/dt = L.F by {rel:.3e}", F0))
        chk.cov["traces_validated_against_impl"] = chk.cov["evaluations"]
        # bulk updates over assemblages on the boundary of the simplex x sub-lists of the assemblage (own PRNG stream): correspondence
        # with Model_minerals.update_all (the last mineral's F from the common starting F, bit-exact; `Err` where a phase is not
        # named / the list is empty) and C06's oracle on the same calls
        rngb = np.random.default_rng([chk.seed, 0xC06F])
        hb = {k: chk.cov.setdefault(k, {}) for k in ("bulk_boundary_classes", "bulk_boundary_assemblages", "bulk_boundary_lists",
                                                      "bulk_boundary_raised", "bulk_boundary_fraction_spellings")}
        for sc in bulk_plan(rngb, chk.tier):
            F0 = random_F0(rngb)
            fails, info = bulk_fails(sc, F0)
            b = sc["bulk"]
            lst = "[" + ",".join("ol" if m[0] == 0 else "en" for m in b["members"]) + "]"
            for hk, key in (("bulk_boundary_classes", info["cls"]), ("bulk_boundary_assemblages", b["label"]), ("bulk_boundary_lists", lst),
                            ("bulk_boundary_fraction_spellings", b["spelling"])) + ((("bulk_boundary_raised", info["raised"]),) if info["raised"] else ()):
                hb[hk][key] = hb[hk].get(key, 0) + 1
            chk.note_case(("bulk-boundary", b["label"], lst, sc["seed"]), nontrivial=bool(info["changed"]),
                          sample=dict(call="pydrex.update_all", assemblage=b["label"], minerals=lst, cls=info["cls"], updates=sc["nupd"],
                                      flow=sc["lkind"], raised=info["raised"], F_error_over_bound=info["rel_over_bound"])
                          if info["cls"] == "fraction-0:all-listed" else None)
            if info["model_disagreement"]:
                bad.append((sc, info["model_disagreement"]))
            if info["raised"] is None:
                worst = max(worst, info["rel_over_bound"])
                chk.cov["bulk_vs_single_phase_max"] = max(chk.cov.get("bulk_vs_single_phase_max", 0.0), float(info["vs_single"]))
            mon += [(sc, k, m, F0) for k, m in fails]
        chk.cov["F_error_over_bound_max"] = worst
    chk.cov["disagreements"] = len(bad)
    chk.cov["monitor_failures"] = len(mon)
    if ok and not bad and not mon:
        return
    if mon:
        sc, k, msg, F0 = mon[0]
        chk.replay({"kind": "property-violation", "call": "pydrex.update_all" if "bulk" in sc else "Mineral.update_orientations",
                    "scenario": c01.encode_sc(sc),
                    "F0": [common.hx(x) for x in F0.reshape(-1)], "update_index": k, "observed": msg, "required": "C06",
                    "broken": chk.cov.get("broken_obligations", []), "disagreements": [m for _, m in bad[:3]]})
    else:
        chk.replay({"kind": "unproved", "broken": chk.cov.get("broken_obligations", []),
                    "disagreements": [m for _, m in bad[:3]],
                    "note": "proof obligation or correspondence no longer checks; no failing input found"}, no_input=True)


def replay(d):
    common.use_repo_source()
    if d.get("kind") != "property-violation":
        print("replay file names a broken obligation; re-run the check itself")
        return 1
    sc = d["scenario"]
    sc["pair"] = tuple(sc["pair"])
    F0 = np.array([common.unhx(x) for x in d["F0"]]).reshape(3, 3)
    if "bulk" in sc:        # a bulk scenario (pydrex.update_all over a boundary assemblage)
        fails, _ = bulk_fails(sc, F0)
    else:
        with MT.Recorder() as rec:
            _, fails, _ = presentation_fails(rec, sc, F0)
    for k, m in fails:
        print("still fails:", k, m)
    return 1 if fails else 0
