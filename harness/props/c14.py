"""C14 -- M-index is a frame-independent texture-strength scalar in [0, 1].

Proofs: coq/Properties/C14.v (+ Findings/C14_*.v).  Correspondence: utils.quat_product,
geometry.symmetry_operations / misorientation_angles, stats.misorientation_hist /
misorientations_random, diagnostics.misorientation_index against the extracted
Model_mindex; Rotation.as_quat is an oracle (recorded, residual-checked).  The quaternion
product VARIANT the code realises (Dropped | Hamilton) is decided here.  The batched
misorientation_indices (process pools) is compared with the sequential values at run time
only (declared partial).  Large aggregates (grain counts / pair-row counts on both sides of size boundaries, ordered
heterogeneous textures, reorderings, row-wise evaluation of big row stacks) are a family of their own (`large_aggregates`),
stored in replay files as recipes.  Call histories (sequences of public calls in one process, the caller editing what it
was handed between calls; `call_histories`) run in forked children and, for the search / a replay, in new interpreters.
Known defects of the unchanged tree are printed as
KNOWN-FINDING while their witnesses reproduce; any other disagreement is a VIOLATION."""
from __future__ import annotations

import math
import multiprocessing
import re
import warnings

import numpy as np

import common
import proofs
from common import hx

FILES = ["Model_mindex.v", "Proofs_mindex.v", "Proofs_mindex_mass.v", "Proofs_mindex_single.v", "Proofs_mindex_batched.v",
         "Proofs_mindex_single_tm.v", "Proofs_mindex_single_o.v", "Proofs_mindex_single_thm.v", "Proofs_mindex_hist.v", "Proofs_mindex_frame.v",
         "gen/Gen_mindex.v", "Inst_mindex.v", "Inst_mindex_random.v", "Inst_mindex_random_o.v", "Inst_mindex_random_r.v",
         "Inst_mindex_random_t.v", "Inst_mindex_random_h.v", "Inst_mindex_index.v", "Proofs_mindex_gen.v",
         "Entry_mindex.v", "Extract_mindex.v", "Model_blocks.v", "Proofs_blocks.v"]
PROP = "Properties/C14.v"
FINDINGS = ["Findings/C14_quat.v", "Findings/C14_mass.v", "Findings/C14_gen.v"]
GROUP = "mindex"
SYSTEMS = ["triclinic", "monoclinic", "orthorhombic", "rhombohedral", "tetragonal", "hexagonal"]
GOOD_MASS = ("triclinic", "monoclinic", "orthorhombic")
WITNESS_SEED = 14

KNOWN = {
    "C14:quat_product:cross(q1,q1)":
        "utils.quat_product drops the cross term (np.cross(q1[:3], q1[:3]) = 0): quat_product((1,0,0,0),(0,1,0,0)) = (0,0,0,0), the quaternion product is (0,0,1,0)",
    "C14:misorientation_index:frame-dependent":
        "misorientation_index changes under a rigid rotation of the sample frame (60 Haar grains, default_rng(14), orthorhombic)",
    "C14:misorientation_index:symmetry-relabelling":
        "misorientation_index changes when grains are replaced by orthorhombic-equivalent orientations (two-fold rotations about the crystal axes; 60 Haar grains, default_rng(14))",
    "C14:misorientations_random:mass:tetragonal":
        "the theoretical random-misorientation density for tetragonal integrates to about 0.945 over [0, 90], not 1",
    "C14:misorientations_random:mass:hexagonal":
        "the theoretical random-misorientation density for hexagonal integrates to about 0.977 over [0, 90], not 1",
    "C14:misorientation_index:nan:no-pair-in-range":
        "misorientation_index returns NaN (not a number in [0, 1]) when no pair angle lies in [0, theta_max]: np.histogram(density=True) divides 0 by 0; such angles exist because the operator lists are not the point groups and the float32 angle of a pair at exactly theta_max can round above it (tetragonal: identity and the half turn about (1,1,1) give 109.47 > 90; orthorhombic: identity and 120 degrees about (1,1,1) give 120.0000076 > 120)",
    "C14:misorientations_random:rhombohedral:AssertionError":
        "misorientations_random(k, k+1, rhombohedral) hits `assert False` for every bin k >= 104 (edges above round(2 atan(sqrt(1 + 2 a^2))) = 104 < theta_max = 120), so misorientation_index always raises for rhombohedral",
}


def lattice(geo, name):
    return getattr(geo.LatticeSystem, name)


# --------------------------------------------------------------------------
# recorders (outside /repo): Rotation.as_quat and geometry.misorientation_angles
# --------------------------------------------------------------------------
class Recorder:
    def __init__(self):
        import pydrex.stats as st
        import pydrex.geometry as geo
        self.st, self.geo = st, geo
        self.quats, self.angle_calls = [], []

    def __enter__(self):
        rec = self
        # pydrex.stats may no longer use scipy's Rotation (then no as_quat call is recorded and the correspondence
        # reports that; the oracle hypothesis is still checked on the quaternions that enter misorientation_angles)
        self._has_rot = hasattr(self.st, "Rotation")
        real_rot = self.st.Rotation if self._has_rot else None
        real_ang = self.geo.misorientation_angles
        self._real = (real_rot, real_ang)

        class Wrapped:
            def __init__(self, r, m):
                self._r, self._m = r, m

            def as_quat(self, *a, **k):
                q = self._r.as_quat(*a, **k)
                rec.quats.append((np.array(self._m, copy=True), np.array(q, copy=True), a, dict(k)))
                return q

            def __getattr__(self, k):
                return getattr(self._r, k)

        class RotProxy:
            def __getattr__(self, k):
                return getattr(real_rot, k)

            def from_matrix(self, m, *a, **k):
                return Wrapped(real_rot.from_matrix(m, *a, **k), m)

        def ang(q1, q2):
            out = real_ang(q1, q2)
            rec.angle_calls.append((np.array(q1, copy=True), np.array(q2, copy=True), np.array(out, copy=True)))
            return out

        if self._has_rot:
            self.st.Rotation = RotProxy()
        self.geo.misorientation_angles = ang
        return self

    def __exit__(self, *a):
        if self._has_rot:
            self.st.Rotation = self._real[0]
        self.geo.misorientation_angles = self._real[1]

    def take(self):
        q, a = self.quats, self.angle_calls
        self.quats, self.angle_calls = [], []
        return q, a


def mat_of_quat(q):
    x, y, z, w = q
    return np.array([[x * x - y * y - z * z + w * w, 2 * (x * y - z * w), 2 * (x * z + y * w)],
                     [2 * (x * y + z * w), y * y - x * x - z * z + w * w, 2 * (y * z - x * w)],
                     [2 * (x * z - y * w), 2 * (y * z + x * w), z * z - x * x - y * y + w * w]])


def quat_residuals(mats, quats):
    fails = []
    n = np.abs(np.einsum("ij,ij->i", quats, quats) - 1).max()
    if n > 1e-12:
        fails.append(f"as_quat: not unit ({n:.3e})")
    r = max(np.abs(mat_of_quat(q) - m).max() for q, m in zip(quats, mats))
    if r > 1e-10:
        fails.append(f"as_quat: rotation matrix of the quaternion differs from the input ({r:.3e})")
    return fails


# --------------------------------------------------------------------------
# generators
# --------------------------------------------------------------------------
def haar(rng, n):
    from scipy.spatial.transform import Rotation
    return Rotation.random(n, random_state=rng).as_matrix()


def texture(rng, kind, n):
    from scipy.spatial.transform import Rotation
    if kind == "random":
        return haar(rng, n)
    if kind == "single":
        return np.repeat(haar(rng, 1), n, axis=0)
    base = Rotation.from_matrix(haar(rng, 1)[0])
    sig = 0.08 if kind == "tight" else 0.5
    return (Rotation.from_rotvec(rng.normal(0, sig, (n, 3))) * base).as_matrix()


def gen_textures(chk, tier):
    rng = np.random.default_rng(chk.seed)
    sizes = [2, 3, 5, 10, 20, 40, 80] if tier == "quick" else [2, 3, 5, 10, 30, 60, 120, 200]
    kinds = ["random", "clustered", "tight", "single"]
    out = []
    total = 120 if tier == "quick" else 480
    i = 0
    while len(out) < total:
        sysname = SYSTEMS[i % 6]
        kind = kinds[(i // 6) % 4]
        n = sizes[(i // 24 + i) % len(sizes)]
        out.append(dict(system=sysname, kind=kind, n=n, os=texture(rng, kind, n)))
        i += 1
    if tier == "quick":  # the upper end of the size range, for the systems with few operators
        out[-2:] = [dict(system="triclinic", kind="clustered", n=200, os=texture(rng, "clustered", 200)),
                    dict(system="orthorhombic", kind="random", n=200, os=texture(rng, "random", 200))]
    return out


SPECIAL_AXES = (("x", (1, 0, 0)), ("y", (0, 1, 0)), ("z", (0, 0, 1)), ("xy", (1, 1, 0)), ("xz", (1, 0, 1)),
                ("yz", (0, 1, 1)), ("xyz", (1, 1, 1)), ("x-y", (1, -1, 0)))
SPECIAL_DEGREES = (30, 45, 60, 90, 120, 135, 150, 180)


def special_rotations():
    """identity + rotations by the crystallographically special angles about low-index axes: pairs of these have
    misorientation angles AT the ends of the admissible range (exactly 0, exactly theta_max) and just beyond"""
    from scipy.spatial.transform import Rotation
    out = {"id": np.eye(3)}
    for ax, v in SPECIAL_AXES:
        v = np.array(v, dtype=float) / np.linalg.norm(v)
        for deg in SPECIAL_DEGREES:
            out[f"{ax}{deg}"] = Rotation.from_rotvec(np.deg2rad(deg) * v).as_matrix()
    return out


def signed_permutations():
    """the 24 rotation matrices that are signed permutation matrices (exact in binary64)"""
    import itertools
    out = []
    for perm in itertools.permutations(range(3)):
        for signs in itertools.product((1.0, -1.0), repeat=3):
            m = np.zeros((3, 3))
            for i, (j, sg) in enumerate(zip(perm, signs)):
                m[i, j] = sg
            if round(np.linalg.det(m)) == 1:
                out.append(m)
    return out


def oblique_half_turns():
    """EXACT half turns about oblique axes: the six signed permutation matrices with trace -1 that are not diagonal
    (axes (1,1,0), (1,-1,0), (1,0,1), (1,0,-1), (0,1,1), (0,1,-1)) and the four 2 n n^T - I about (1,+-1,+-1)/sqrt(3)
    (exactly symmetric).  Their quaternion has w = 0: the relative signs of the axis components cannot be read from the
    antisymmetric part of the matrix."""
    out = [m for m in signed_permutations() if np.trace(m) == -1 and np.count_nonzero(np.diag(m)) == 1]
    for sg in ((1, 1), (1, -1), (-1, 1), (-1, -1)):
        nvec = np.array([1.0, sg[0], sg[1]]) / np.sqrt(3.0)
        out.append(2.0 * np.outer(nvec, nvec) - np.eye(3))
    return out


def gen_oblique(chk, tier):
    """grains that are exact half turns about oblique axes, for every lattice system: pairs of them (and with the
    identity), aligned grains seen from a sample frame rotated by such a half turn, signed-permutation textures"""
    rng = np.random.default_rng(chk.seed + 34)
    obl = oblique_half_turns()
    sps = signed_permutations()
    rz90 = np.array([[0.0, -1.0, 0.0], [1.0, 0.0, 0.0], [0.0, 0.0, 1.0]])
    out = []
    for sysname in SYSTEMS:
        base = [np.eye(3)] + obl[:6]
        pairs = [(base[i], base[j]) for i in range(len(base)) for j in range(i + 1, len(base))]
        if tier == "quick":
            pairs = [pairs[i] for i in rng.choice(len(pairs), 8, replace=False)] + [(obl[1], obl[0]), (np.eye(3), obl[7])]
        else:
            pairs += [(obl[i], obl[j]) for i in range(6, 10) for j in range(i)]
        for a, b in pairs:
            out.append(dict(system=sysname, kind="boundary-oblique", n=2, os=np.stack([a, b]), label="oblique-pair"))
        for Q in (obl[:6] + obl[6:8] if tier == "quick" else obl):   # aligned grains seen from a half-turned sample frame
            out.append(dict(system=sysname, kind="boundary-oblique", n=3, os=np.stack([np.eye(3), rz90, haar(rng, 1)[0]]) @ Q.T,
                            label="oblique-frame"))
        k = 4 if tier == "quick" else 24
        for t in range(k):
            idx = rng.choice(len(sps), 4, replace=False)
            out.append(dict(system=sysname, kind="boundary-oblique", n=4, os=np.stack([sps[i] for i in idx]), label="signed-permutations"))
    return out


def grain_quaternion_residual(os, q1a, q2a):
    """oracle hypothesis of the matrix -> quaternion step, checked on what actually ENTERS misorientation_angles: the
    first operator of every system is the identity, so q1_array[i, 0] / q2_array[i, 0] are the (float32) quaternions of
    the two grains of pair i, whichever routine produced them.  Returns (worst residual, grain index)."""
    n = len(os)
    if n < 2:
        return 0.0, -1
    firsts = np.cumsum([0] + [n - 1 - a for a in range(n - 2)])          # index of pair (a, a+1), a = 0..n-2
    qs = np.concatenate([np.asarray(q1a[firsts, 0], dtype=float), np.asarray(q2a[-1:, 0], dtype=float)])
    qs = qs / np.linalg.norm(qs, axis=1, keepdims=True)
    x, y, z, w = qs.T
    m = np.stack([np.stack([x * x - y * y - z * z + w * w, 2 * (x * y - z * w), 2 * (x * z + y * w)], -1),
                  np.stack([2 * (x * y + z * w), y * y - x * x - z * z + w * w, 2 * (y * z - x * w)], -1),
                  np.stack([2 * (x * z - y * w), 2 * (y * z + x * w), z * z - x * x - y * y + w * w], -1)], 1)
    r = np.abs(m - np.asarray(os, dtype=float)).reshape(n, -1).max(axis=1)
    k = int(r.argmax())
    return float(r[k]), k


BOUNDARY_FIXED = [("id", "x180"), ("id", "y180"), ("id", "z180"), ("id", "xy180"), ("id", "xyz120"), ("id", "xyz180"),
                  ("id", "x90"), ("id", "x60"), ("x90", "y90"), ("x30", "xy180")]


def gen_boundary(chk, tier):
    """textures whose pair angles sit at the ends of the admissible range, for every lattice system:
    two-grain textures (identity, c) for every special rotation c and a sample of the other pairs, copies of the
    half-turn / third-turn pairs in rotated sample frames and with a common crystal-side factor (float32 rounding
    to exactly theta_max happens in some frames only), and 3-/4-grain textures made of a grain, symmetry-equivalent
    copies of it (two-fold rotations about the crystal axes) and a half-turn related grain"""
    rng = np.random.default_rng(chk.seed + 33)
    sp = special_rotations()
    names = list(sp)
    allpairs = [(a, b) for i, a in enumerate(names) for b in names[i + 1:] if a != "id"]
    out = []
    for sysname in SYSTEMS:
        pairs = [("id", c) for c in names[1:]]
        k = 30 if tier == "quick" else 400
        pairs += [allpairs[i] for i in rng.choice(len(allpairs), k, replace=False)]
        for a, b in pairs:
            out.append(dict(system=sysname, kind="boundary", n=2, os=np.stack([sp[a], sp[b]]), label=f"{a}|{b}"))
        for t in range(12 if tier == "quick" else 120):
            a, b = BOUNDARY_FIXED[t % len(BOUNDARY_FIXED)]
            Q = haar(rng, 1)[0]
            os = np.stack([sp[a], sp[b]])
            os = os @ Q.T if t % 2 == 0 else Q @ os
            out.append(dict(system=sysname, kind="boundary-frame", n=2, os=os, label=f"{a}|{b}|{'frame' if t % 2 == 0 else 'crystal'}"))
        for t in range(6 if tier == "quick" else 40):
            g = haar(rng, 1)[0] if t % 2 else np.eye(3)
            a, b = BOUNDARY_FIXED[t % len(BOUNDARY_FIXED)]
            grains = [g, TWOFOLD[1 + t % 3] @ g, sp[b] @ g]
            if t % 3 == 0:
                grains.append(TWOFOLD[1 + (t + 1) % 3] @ sp[b] @ g)
            out.append(dict(system=sysname, kind="boundary-copies", n=len(grains), os=np.stack(grains), label=f"copies|{b}"))
    return out


def in_range_count(angs, tmax):
    """number of angles np.histogram(range=(0, tmax)) counts: the closed interval [0, tmax]"""
    a = np.asarray(angs, dtype=float)
    return int(((a >= 0) & (a <= tmax)).sum())


def impl_call(f, *a, **k):
    try:
        return ("OK", f(*a, **k))
    except Exception as e:  # noqa: BLE001
        return ("ERR", common.exc_code(e))


def flat(a):
    return [float(x) for x in np.asarray(a, dtype=float).reshape(-1)]


class Batch:
    def __init__(self):
        self.lines, self.handlers = [], []

    def add(self, entry, ints, floats, handler):
        self.lines.append(common.model_line(entry, ints, floats))
        self.handlers.append(handler)

    def run(self):
        if not self.lines:
            return
        for h, m in zip(self.handlers, common.run_model(self.lines, group=GROUP)):
            h(m)


def expect_vec(bad, meta, exp, rtol=1e-10, atol=None):
    def h(m):
        if exp[0] == "ERR" or m[0] == "ERR":
            if not (exp[0] == m[0] and exp[1] == m[1]):
                bad.append((meta, f"implementation {exp[:2] if exp[0] == 'ERR' else 'OK'} vs model {m[:2] if m[0] == 'ERR' else 'OK'}"))
            return
        ok, idx = common.vec_close([float(x) for x in exp[1]], m[1], rtol=rtol, atol=atol)
        if not ok:
            a = [float(x) for x in exp[1]]
            bad.append((meta, f"component {idx}: implementation {a[max(0, idx - 1):idx + 2] if idx >= 0 else len(a)} vs model {m[1][max(0, idx - 1):idx + 2] if idx >= 0 else len(m[1])}"))
    return h


# --------------------------------------------------------------------------
# correspondence
# --------------------------------------------------------------------------
def decide_variant(chk, ut, bad):
    """Which quaternion product does utils.quat_product realise?"""
    rng = np.random.default_rng(chk.seed + 5)
    cases = [(np.array([1., 0, 0, 0]), np.array([0., 1, 0, 0])), (np.array([0., 0, 0, 1]), np.array([.5, .5, .5, .5]))]
    cases += [(rng.normal(0, 1, 4), rng.normal(0, 1, 4)) for _ in range(48)]
    lines = []
    for p, q in cases:
        lines.append(common.model_line("qprod", [0], list(p) + list(q)))
        lines.append(common.model_line("qprod", [1], list(p) + list(q)))
    res = common.run_model(lines, group=GROUP)
    agree = {0: 0, 1: 0}
    for k, (p, q) in enumerate(cases):
        r = np.array(ut.quat_product(p, q), dtype=float)
        for v in (0, 1):
            m = res[2 * k + v]
            if m[0] == "OK" and common.vec_close(list(r), m[1], rtol=1e-12)[0]:
                agree[v] += 1
        chk.note_case(("qprod", p.tobytes(), q.tobytes()), nontrivial=True)
    n = len(cases)
    gres = common.run_model([common.model_line("gen_qprod", [], list(p) + list(q)) for p, q in cases], group=GROUP)
    gen_agree = 0
    for (p, q), m in zip(cases, gres):
        r = np.array(ut.quat_product(p, q), dtype=float)
        if m[0] == "OK" and common.vec_close(list(r), m[1], rtol=1e-12)[0]:   # np.dot (BLAS) may differ from left-to-right sums in the last bit
            gen_agree += 1
        else:
            bad.append((dict(function="quat_product", q1=p.tolist(), q2=q.tolist()),
                        f"the GENERATED k_quat_product gives {m} but utils.quat_product gives {r.tolist()}"))
    chk.cov["quat_product_agreement"] = {"cases": n, "Dropped": agree[0], "Hamilton": agree[1], "generated": gen_agree}
    if agree[1] == n:
        return 1
    if agree[0] == n:
        return 0
    bad.append((dict(function="quat_product"), f"utils.quat_product agrees with neither model variant (Dropped {agree[0]}/{n}, Hamilton {agree[1]}/{n})"))
    return 0


def correspondence(chk, tier):
    import pydrex.diagnostics as dg
    import pydrex.stats as st
    import pydrex.geometry as geo
    import pydrex.utils as ut
    bad = []
    hist = chk.cov.setdefault("histogram", {"system": {}, "kind": {}, "n_grains": {}, "result": {}})

    def bump(k, v):
        hist[k][str(v)] = hist[k].get(str(v), 0) + 1

    variant = decide_variant(chk, ut, bad)
    chk.cov["variant_realised"] = "Hamilton" if variant == 1 else "Dropped"
    B = Batch()
    # operator tables, theoretical densities (all bins), range errors
    rng = np.random.default_rng(chk.seed + 9)
    for k, name in enumerate(SYSTEMS):
        s = lattice(geo, name)
        ops = geo.symmetry_operations(s)
        fl = []
        for o in ops:
            o = np.asarray(o, dtype=float)
            fl += ([0.0] + list(o)) if o.shape == (4,) else ([1.0] + list(np.diag(o)))
            if o.shape == (4, 4) and np.abs(o - np.diag(np.diag(o))).max() != 0:
                bad.append((dict(function="symmetry_operations", system=name), "4x4 operator is not diagonal (model stores the diagonal)"))
        B.add("symops", [k], [], expect_vec(bad, dict(function="symmetry_operations", system=name), ("OK", fl), atol=1e-15, rtol=0))
        B.add("gen_symops", [k], [], expect_vec(bad, dict(function="symmetry_operations", system=name, what="GENERATED table (RotSym stand-in) vs scipy"),
                                                ("OK", fl), atol=1e-15, rtol=0))
        th = st._max_misorientation(s)
        edges = [(float(i), float(i + 1)) for i in range(th)]
        edges += [tuple(sorted(rng.uniform(0, th, 2))) for _ in range(10)]
        edges += [(-1.0, 5.0), (5.0, 4.0), (0.0, th + 1.0), (0.0, 0.0), (float(th), float(th))]
        for lo, hi in edges:
            r = impl_call(st.misorientations_random, lo, hi, s)
            B.add("random", [k], [lo, hi], expect_vec(bad, dict(function="misorientations_random", system=name, low=lo, high=hi),
                                                       ("OK", [r[1]]) if r[0] == "OK" else r, rtol=1e-11))
            B.add("gen_random", [k], [lo, hi], expect_vec(bad, dict(function="misorientations_random", system=name, low=lo, high=hi,
                                                                   what="GENERATED k_misorientations_random"),
                                                           ("OK", [r[1]]) if r[0] == "OK" else r, rtol=1e-13))
            chk.note_case(("random", name, lo, hi), nontrivial=r[0] == "OK")
    # misorientation_angles on binary64 arrays
    for t in range(12 if tier == "quick" else 60):
        N, A, Bn = int(rng.integers(1, 6)), int(rng.integers(1, 5)), int(rng.integers(1, 5))
        q1 = rng.normal(0, 1, (N, A, 4)); q1 /= np.linalg.norm(q1, axis=-1, keepdims=True)
        q2 = rng.normal(0, 1, (N, Bn, 4)); q2 /= np.linalg.norm(q2, axis=-1, keepdims=True)
        if t % 3 == 0:
            q2[:, 0] = q1[:, 0]  # zero angle
        out = geo.misorientation_angles(q1, q2)
        for i in range(N):
            def h(m, a=float(out[i]), meta=dict(function="misorientation_angles", q1=q1[i].tolist(), q2=q2[i].tolist())):
                if m[0] != "OK" or abs(math.cos(math.radians(a / 2)) - math.cos(math.radians(m[1][0] / 2))) > 1e-12:
                    bad.append((meta, f"implementation {a!r} vs model {m}"))
            B.add("misangle", [A, Bn], flat(q1[i]) + flat(q2[i]), h)
            chk.note_case(("misangle", q1[i].tobytes(), q2[i].tobytes()), nontrivial=True)
    r = impl_call(geo.misorientation_angles, np.zeros((2, 1, 4)), np.zeros((3, 1, 4)))
    if r != ("ERR", "ValueError"):
        bad.append((dict(function="misorientation_angles"), f"unequal first dimensions: {r}"))
    # textures
    near_total = 0
    bnd = chk.cov.setdefault("boundary", {})
    with Recorder() as rec:
        for t in gen_textures(chk, tier) + gen_boundary(chk, tier) + gen_oblique(chk, tier):
            name, os, n = t["system"], t["os"], t["n"]
            boundary = t["kind"].startswith("boundary")
            k = SYSTEMS.index(name)
            s = lattice(geo, name)
            bump("system", name); bump("kind", t["kind"]); bump("n_grains", n)
            rec.take()
            with warnings.catch_warnings():
                warnings.simplefilter("ignore")
                r = impl_call(dg.misorientation_index, os, s)
            quats, acalls = rec.take()
            bump("result", r[0] if r[0] == "ERR" else "OK")
            meta = dict(function="misorientation_index", system=name, kind=t["kind"], n=n, os=os)
            chk.note_case(("mindex", name, os.tobytes()), nontrivial=t["kind"] != "single",
                          sample=dict(function="misorientation_index", system=name, kind=t["kind"], n_grains=n,
                                      result=float(r[1]) if r[0] == "OK" else r[1]))
            if len(acalls) == 1:
                # oracle hypothesis of the matrix -> quaternion step on the quaternions that enter misorientation_angles
                ops0 = np.asarray(geo.symmetry_operations(s)[0], dtype=float)
                if ops0.shape == (4,) and np.array_equal(ops0, [0.0, 0.0, 0.0, 1.0]) and acalls[0][0].ndim == 3 \
                        and acalls[0][0].shape[0] == n * (n - 1) // 2:
                    res_q, kq = grain_quaternion_residual(os, acalls[0][0], acalls[0][1])
                    chk.cov["grain_quaternion_residual_max"] = max(chk.cov.get("grain_quaternion_residual_max", 0.0), res_q)
                    if not res_q <= 2e-6:
                        bad.append((meta, f"oracle hypothesis: the quaternion of grain {kq} that enters misorientation_angles does not represent its "
                                          f"orientation matrix (residual {res_q:.3e}; float32 storage allows 2e-6)"))
            if len(quats) != 1 or len(acalls) != 1:
                bad.append((meta, f"expected one as_quat and one misorientation_angles call, saw {len(quats)} / {len(acalls)}"))
                continue_after = True
                if len(acalls) != 1:
                    continue
                # as_quat not recorded (the code converts the matrices some other way): compare what can still be compared
                q1a, q2a, angs = acalls[0]
                B.add("mindex_angles", [k], flat(angs), expect_vec(bad, dict(meta, what="index from the recorded pair angles"),
                                                                   ("OK", [r[1]]) if r[0] == "OK" else r, rtol=1e-10))
                continue
            mats, q, qa, qk = quats[0]
            if qa or qk:
                bad.append((meta, f"as_quat called with arguments {qa} {qk} (model assumes scalar-last default)"))
            for f in quat_residuals(mats, q):
                bad.append((meta, "oracle hypothesis: " + f))
            B.add("matq", [], list(q[0]), expect_vec(bad, dict(meta, what="mat_of_quat(as_quat(o)) = o"), ("OK", flat(mats[0])), atol=1e-10, rtol=0))
            q1a, q2a, angs = acalls[0]
            tmax_s = st._max_misorientation(s)
            n_in = in_range_count(angs, tmax_s)
            if boundary:
                b = bnd.setdefault(name, {"textures": 0, "pairs": 0, "exactly_zero": 0, "exactly_theta_max": 0,
                                          "above_theta_max": 0, "index_nan_no_pair_in_range": 0})
                b["textures"] += 1
                b["pairs"] += len(angs)
                b["exactly_zero"] += int((angs == 0).sum())
                b["exactly_theta_max"] += int((angs == tmax_s).sum())
                b["above_theta_max"] += int((angs > tmax_s).sum())
            # NaN is not a number in [0, 1]: a violation unless NO pair angle lies in [0, theta_max] (np.histogram then
            # divides 0 by 0 -- the recorded finding C14:misorientation_index:nan:no-pair-in-range)
            if r[0] == "OK" and not np.isfinite(float(r[1])):
                if n_in > 0:
                    bad.append((dict(meta, what="range"), f"misorientation_index returned {float(r[1])!r} although {n_in} of {len(angs)} pair angles lie in [0, {tmax_s}]"))
                elif boundary:
                    b["index_nan_no_pair_in_range"] += 1
                chk.cov["index_nan_no_pair_in_range"] = chk.cov.get("index_nan_no_pair_in_range", 0) + 1
            npairs = n * (n - 1) // 2
            nops = len(geo.symmetry_operations(s))
            if q1a.shape != (npairs, nops, 4) or q2a.shape != (npairs, nops, 4):
                bad.append((meta, f"misorientation_angles called on shapes {q1a.shape}, {q2a.shape}"))
                continue
            # (a) histogram + index from the RECORDED angles: exact path
            B.add("mindex_angles", [k], flat(angs), expect_vec(bad, dict(meta, what="index from the recorded pair angles"),
                                                               ("OK", [r[1]]) if r[0] == "OK" else r, rtol=1e-10))
            with warnings.catch_warnings():
                warnings.simplefilter("ignore")
                hh = impl_call(st.misorientation_hist, os, s)
            rec.take()
            if hh[0] == "OK":
                # the GENERATED index applied to the implementation's own histogram
                B.add("gen_index", [k], flat(hh[1][0]), expect_vec(bad, dict(meta, what="GENERATED k_misorientation_index of the implementation's histogram"),
                                                                    ("OK", [r[1]]) if r[0] == "OK" else r, rtol=1e-12))
                B.add("hist", [st._max_misorientation(s)], flat(angs),
                      expect_vec(bad, dict(meta, what="misorientation_hist density"), ("OK", flat(hh[1][0])), rtol=1e-12))
                if not np.array_equal(hh[1][1], np.arange(st._max_misorientation(s) + 1.0)):
                    bad.append((meta, "bin edges are not 0, 1, ..., theta_max"))
            # (b) + (c) pair angles and index from the recorded quaternions, full model path
            #     (binary64 model vs the code's float32 storage of the operator-multiplied quaternions)
            def check_angles(ma, angs, meta, npairs):
                nonlocal near_total
                if len(ma) != npairs:
                    bad.append((dict(meta, what="pair angles"), f"model {len(ma)} angles, implementation {npairs}"))
                    return None
                ma = np.array(ma)
                d = np.abs(np.cos(np.radians(ma / 2)) - np.cos(np.radians(angs / 2)))
                if d.max() > 2e-6:
                    j = int(d.argmax())
                    bad.append((dict(meta, what="pair angles"), f"pair {j}: implementation {float(angs[j])!r} (float32 storage) vs model {float(ma[j])!r}"))
                moved = int((np.floor(ma) != np.floor(angs)).sum())
                near_total += moved
                return moved

            def hfull(m, angs=angs, meta=meta, r=r, npairs=npairs, s=s):
                if r[0] == "ERR" or m[0] == "ERR":
                    if not (r[0] == m[0] and r[1] == m[1]):
                        bad.append((dict(meta, what="full path"), f"implementation {r} vs model {m if m[0] == 'ERR' else 'OK'}"))
                    return
                moved = check_angles(m[1][1:], angs, meta, npairs)
                if moved is None:
                    return
                # |M - M'| <= 1/2 sum_i |h_i - h'_i| (bin width 1): the exact effect of the pairs whose bin
                # changed, with np.histogram's normalisation by the number of IN-RANGE angles (angles above
                # theta_max occur because of the recorded quat_product finding and are dropped by the histogram,
                # so one moved pair weighs 1/n_in_range, not 1/npairs)
                tmax = st._max_misorientation(s)
                h_model, _ = np.histogram(np.array(m[1][1:]), bins=tmax, range=(0, tmax), density=True)
                h_impl, _ = np.histogram(np.array(angs, dtype=float), bins=tmax, range=(0, tmax), density=True)
                tol = 0.5 * float(np.abs(h_model - h_impl).sum()) + 1e-9
                if abs(float(r[1]) - m[1][0]) > tol:
                    bad.append((dict(meta, what="full path"), f"implementation {float(r[1])!r} vs model {m[1][0]!r} (tolerance {tol:.2e})"))
            if not boundary:
                B.add("mindex_full", [variant, k, n], flat(q), hfull)
            if r[0] == "ERR" or boundary:  # the index raises (rhombohedral) / boundary textures (the bin of an angle at theta_max
                # flips with float32 rounding, so only the angles are compared through the full path): compare the pair angles
                def hang(m, angs=angs, meta=meta, npairs=npairs):
                    if m[0] != "OK":
                        bad.append((dict(meta, what="pair angles"), f"model {m}"))
                    else:
                        check_angles(m[1], angs, meta, npairs)
                B.add("angles", [variant, k, n], flat(q), hang)
    B.run()
    chk.cov["near_discontinuity"] = near_total
    chk.cov["traces_validated_against_impl"] = len(B.lines)
    return bad, variant


def batched(chk, tier):
    """runtime-only part: misorientation_indices vs sequential values (equality, order)"""
    import pydrex.diagnostics as dg
    import pydrex.geometry as geo
    bad = []
    rng = np.random.default_rng(chk.seed + 21)
    workers = range(1, 5) if tier == "quick" else range(1, 17)
    lengths = range(1, 9) if tier == "quick" else list(range(1, 9)) + [16, 40]
    runs = 0
    s = geo.LatticeSystem.orthorhombic
    hist = chk.cov.setdefault("batched", {"workers": {}, "stack_length": {}, "external_pool": 0})
    stacks = {}
    for L in lengths:
        stack = np.stack([texture(rng, ("random", "clustered", "single")[i % 3], 8) for i in range(L)])
        seq = np.array([dg.misorientation_index(o, s) for o in stack])
        stacks[L] = (stack, seq)
    with warnings.catch_warnings():
        warnings.simplefilter("ignore")
        for w in workers:
            for L in (lengths if tier == "thorough" or w <= 2 else [l for l in lengths if l in (1, 3, 8)]):
                stack, seq = stacks[L]
                out = dg.misorientation_indices(stack, s, ncpus=w)
                runs += 1
                hist["workers"][str(w)] = hist["workers"].get(str(w), 0) + 1
                hist["stack_length"][str(L)] = hist["stack_length"].get(str(L), 0) + 1
                chk.note_case(("batched", w, L), nontrivial=L > 1)
                if not (out.shape == seq.shape and np.array_equal(out, seq)):
                    bad.append((dict(function="misorientation_indices", ncpus=w, stack=stack, system="orthorhombic"),
                                f"ncpus={w}, stack length {L}: {out.tolist()} vs sequential {seq.tolist()}"))
        ctx = multiprocessing.get_context("fork")
        for w in (2, 3):
            with ctx.Pool(processes=w) as pool:
                for L in (1, 5, 8):
                    stack, seq = stacks[L]
                    out = dg.misorientation_indices(stack, s, pool=pool)
                    runs += 1
                    hist["external_pool"] += 1
                    chk.note_case(("batched-pool", w, L), nontrivial=L > 1)
                    if not (out.shape == seq.shape and np.array_equal(out, seq)):
                        bad.append((dict(function="misorientation_indices", pool=w, stack=stack, system="orthorhombic"),
                                    f"external pool of {w}, stack length {L}: {out.tolist()} vs sequential {seq.tolist()}"))
    chk.cov["batched_runs"] = runs
    return bad


# --------------------------------------------------------------------------
# large aggregates / size boundaries
#
# The property quantifies over 2..2000 grains; everything above works with <= 200.  An implementation may treat a LARGE
# stack of pair rows differently from a small one (blocked / chunked evaluation under a memory cap, a wider index type, a
# different reduction): such code is only executed when the number of pair rows n(n-1)/2, or the size rows x n_sym^2 x 8
# bytes of the rows x (A*B) table of candidate angles, crosses some boundary.  This family puts grain counts / row counts
# on BOTH sides of the boundaries 2^k bytes and 2^j rows (and on / off multiples of typical block sizes) for every lattice
# system, with ORDERED heterogeneous textures (blocks of aligned / tightly clustered / random grains one after the other:
# which pairs sit in which part of the row stack depends on the grain order), and judges
#   * public API (misorientation_index): index a number in [0, 1]; unchanged when the grains are reordered (reversed,
#     randomly permuted, blocks swapped) -- every pair keeps its angle, and the index moves by at most the pairs whose
#     1-degree bin changed; index = model index of the recorded angles; arguments unchanged;
#   * geometry.misorientation_angles is ROW-WISE (row r of the result is the minimum over the operator pairs of the
#     angle between q1[r, a] and q2[r, b]): its value on a big row stack equals its value on any slice / gather of the rows,
#     and sampled rows equal the extracted model (`misangle`).
# A case is a function of a small RECIPE (system, grain count, block kinds, seed): that is what a replay file stores.
# The calls are expensive (misorientation_hist loops over pairs x operators in Python: 10 s for 520 hexagonal grains), so
# the units run side by side in forked workers.
# --------------------------------------------------------------------------
MAX_GRAINS = 2000
LARGE_BLOCK_KINDS = (("aligned", "random"), ("random", "aligned"), ("tight", "random"), ("random", "tight", "aligned"))
REORDERINGS = ("reversed", "permutation", "blocks-swapped")
TYPICAL_BLOCKS = (1000, 1024, 4096, 65536)
SAME_ROW_TOL = 1e-6     # cos(angle / 2) of the SAME rows evaluated twice / of the SAME pair in another order (float32 arithmetic)


def npairs(n):
    return n * (n - 1) // 2


def grains_above(rows):
    """smallest number of grains with MORE than `rows` pairs"""
    n = max(2, (1 + math.isqrt(1 + 8 * max(rows, 0))) // 2)
    while npairs(n) <= rows:
        n += 1
    while n > 2 and npairs(n - 1) > rows:
        n -= 1
    return n


def split_blocks(n, kinds):
    b = len(kinds)
    sizes = [n // b] * (b - 1) + [n - (b - 1) * (n // b)]
    return [[k, int(c)] for k, c in zip(kinds, sizes)]


def ordered_texture(recipe):
    """the orientation matrices of a recipe dict(n, blocks=[[kind, count], ...], seed): blocks of aligned (one orientation),
    tight (0.08 rad), clustered (0.5 rad) or random (Haar) grains, one block after the other"""
    rng = np.random.default_rng([int(recipe["seed"]), 14, int(recipe["n"])])
    parts = [texture(rng, {"aligned": "single"}.get(kind, kind), int(cnt)) for kind, cnt in recipe["blocks"] if int(cnt) > 0]
    os = np.ascontiguousarray(np.concatenate(parts))
    assert len(os) == int(recipe["n"])
    return os


def reorder_perm(recipe, order):
    """index array p of a reordering: the reordered texture is os[p]"""
    n = int(recipe["n"])
    if order == "reversed":
        return np.arange(n)[::-1].copy()
    if order == "permutation":
        return np.random.default_rng([int(recipe["seed"]), 15, n]).permutation(n)
    if order == "blocks-swapped":
        c0 = int(recipe["blocks"][0][1])
        return np.concatenate([np.arange(c0, n), np.arange(0, c0)])
    raise ValueError(order)


def pair_index_map(n, p):
    """row k[r] of the ORIGINAL pair list (itertools.combinations order) that holds the two grains of row r of the pair
    list of the reordered texture os[p]"""
    iu, ju = np.triu_indices(n, 1)
    gi, gj = p[iu], p[ju]
    lo, hi = np.minimum(gi, gj), np.maximum(gi, gj)
    return lo * n - lo * (lo + 1) // 2 + (hi - lo - 1)


def half_cos(a):
    return np.cos(np.radians(np.asarray(a, dtype=float) / 2))


def reorder_judgement(angs, angs2, n, p, tmax):
    """the pair angles of the reordered texture against the angles of the same pairs in the original order: number of
    pairs whose angle changed (beyond float32 arithmetic), the worst one, the pairs that kept their angle but changed
    their unit bin (the only legitimate source of a change of the index) and the resulting bound on |M - M'|"""
    k = pair_index_map(n, p)
    a, b = np.asarray(angs, dtype=float)[k], np.asarray(angs2, dtype=float)
    d = np.abs(half_cos(a) - half_cos(b))
    changed = ~(d <= SAME_ROW_TOL)
    moved = int(((np.floor(a) != np.floor(b)) & ~changed).sum())
    n_in = max(1, min(in_range_count(a, tmax), in_range_count(b, tmax)))
    j = int(np.argmax(np.where(np.isnan(d), np.inf, d))) if len(d) else -1
    iu, ju = np.triu_indices(n, 1)
    return dict(changed=int(changed.sum()), moved=moved, tol=2.0 * moved / n_in + 1e-9, worst_row=j,
                worst=(int(p[iu[j]]), int(p[ju[j]]), float(a[j]), float(b[j])) if j >= 0 else None)


def slice_plan(rows, ncols, rng, full=False):
    """index sets of a stack of `rows` rows on which a row-wise function is evaluated again: head / tail pieces, windows
    around every 2^k rows and around the last multiple of typical block sizes (among them 2^j bytes / (8 ncols) for
    j = 20..30), a strided gather through the whole stack, random pieces [thorough: also consecutive pieces of 32768]"""
    plan = []

    def win(lo, hi):
        lo, hi = max(0, int(lo)), min(rows, int(hi))
        if hi > lo:
            plan.append(slice(lo, hi))

    for w in (1, 257, 4099):
        win(0, w)
        win(rows - w, rows)
    k = 10
    while 2 ** k < rows:
        win(2 ** k - 3, 2 ** k + 3)
        k += 1
    for blk in sorted(set(TYPICAL_BLOCKS) | {max(1, 2 ** j // (8 * ncols)) for j in range(20, 31)}):
        if 1 < blk < rows:
            m = (rows // blk) * blk
            win(m - 3, m + 3)
    plan.append(np.arange(0, rows, max(1, rows // 2048)))
    for _ in range(8):
        lo = int(rng.integers(0, rows))
        win(lo, lo + int(rng.integers(1, 2049)))
    if full:
        for lo in range(0, rows, 32768):
            win(lo, lo + 32768)
    return plan


def slice_faults(fn, q1, q2, whole, plan):
    """fn(q1, q2) is row-wise: fn(q1[I], q2[I]) must be whole[I] for every index set I.  Returns (faults, rows evaluated)"""
    faults, nrows = [], 0
    rows = len(q1)
    whole = np.asarray(whole, dtype=float)
    if whole.shape != (rows,):
        return [f"result of shape {whole.shape} for {rows} rows"], 0
    for idx in plan:
        part = np.asarray(fn(np.ascontiguousarray(q1[idx]), np.ascontiguousarray(q2[idx])), dtype=float)
        ref = whole[idx]
        nrows += len(ref)
        if part.shape != ref.shape:
            faults.append(f"{part.shape} results for {len(ref)} rows")
            continue
        d = np.abs(half_cos(part) - half_cos(ref))
        bad_rows = np.flatnonzero(~(d <= SAME_ROW_TOL))
        if bad_rows.size and len(faults) < 3:
            j = int(bad_rows[0])
            r = (idx.start + j) if isinstance(idx, slice) else int(idx[j])
            what = f"rows {idx.start}..{idx.stop - 1}" if isinstance(idx, slice) else f"every {int(idx[1] - idx[0]) if len(idx) > 1 else 1}-th row"
            faults.append(f"geometry.misorientation_angles on the whole stack of {rows} pair rows ({q1.shape[1]} x {q2.shape[1]} operator pairs, "
                          f"{q1.dtype}) returns {float(whole[r])!r} for row {r}, evaluated on {what} alone it returns {float(part[j])!r} "
                          f"({bad_rows.size} of the {len(ref)} rows of this piece differ)")
    return faults, nrows


def sample_rows(rows, ncols, rng, k=12):
    """rows whose value is compared with the extracted model: ends, neighbours of 2^j rows and of the last multiples of
    block sizes, random ones"""
    c = {0, rows - 1, rows // 2}
    j = 10
    while 2 ** j < rows:
        c |= {2 ** j - 1, 2 ** j}
        j += 1
    for blk in {max(1, 2 ** j // (8 * ncols)) for j in range(24, 31)} | set(TYPICAL_BLOCKS):
        if 1 < blk < rows:
            m = (rows // blk) * blk
            c |= {m - 1, min(rows - 1, m)}
    c = sorted(x for x in c if 0 <= x < rows)
    if len(c) > k:
        keep = {0, rows - 1}
        c = sorted(keep | set(int(x) for x in rng.choice(c, k - 2, replace=False)))
    return sorted(set(c) | set(int(x) for x in rng.integers(0, rows, 4)))


def operator_matrices(geo, name):
    """4x4 matrices acting on scalar-last quaternions: left multiplication by the operator quaternion (quaternion
    product) or the stored 4x4 reflection -- used to BUILD row stacks only (any unit quaternions would do)"""
    mats = []
    for o in geo.symmetry_operations(lattice(geo, name)):
        o = np.asarray(o, dtype=float)
        if o.shape == (4, 4):
            mats.append(o)
        else:
            x, y, z, w = o
            mats.append(np.array([[w, -z, y, x], [z, w, -x, y], [-y, x, w, z], [-x, -y, -z, w]]))
    return np.array(mats)


def rowstack_arrays(geo, recipe):
    """(q1, q2) of a row-stack recipe dict(system, rows, dtype, b_ops, kinds, seed): the first `rows` pair rows
    (itertools.combinations order) of the operator-multiplied quaternions of an ordered texture with just enough grains"""
    from scipy.spatial.transform import Rotation
    rows = int(recipe["rows"])
    n = grains_above(rows - 1)
    tex = dict(n=n, blocks=split_blocks(n, recipe["kinds"]), seed=recipe["seed"])
    quats = Rotation.from_matrix(ordered_texture(tex)).as_quat()
    Q = np.einsum("aij,gj->gai", operator_matrices(geo, recipe["system"]), quats)
    iu, ju = np.triu_indices(n, 1)
    dt = np.dtype(recipe["dtype"])
    q1 = np.ascontiguousarray(Q[iu[:rows]].astype(dt))
    q2 = np.ascontiguousarray(Q[ju[:rows]][:, :int(recipe.get("b_ops") or Q.shape[1])].astype(dt))
    return q1, q2


def record_index(dg, geo, os, s):
    """misorientation_index(os, s) under the recorder and the argument guard"""
    import argguard
    faults = []
    with warnings.catch_warnings():
        warnings.simplefilter("ignore")
        with Recorder() as rec:
            rec.take()
            try:
                m, faults = argguard.guarded(dg.misorientation_index, (os, s))
                r = ("OK", float(m))
            except Exception as e:  # noqa: BLE001
                r = ("ERR", common.exc_code(e))
                faults = list(getattr(e, "argguard_faults", []))
            _, ac = rec.take()
    return r, ac, faults


def large_unit(task):
    """one expensive call of the family (runs in a forked worker): a texture call (recipe + order) or a row stack"""
    import time
    import traceback
    t0 = time.time()
    try:
        import pydrex.diagnostics as dg
        import pydrex.geometry as geo
        import argguard
        rng = np.random.default_rng([int(task["seed"]), 16, int(task["id"])])
        out = dict(id=task["id"])
        if task["what"] == "texture":
            rc = task["recipe"]
            os = ordered_texture(rc)
            if task["order"]:
                os = np.ascontiguousarray(os[reorder_perm(rc, task["order"])])
            r, ac, faults = record_index(dg, geo, os, lattice(geo, rc["system"]))
            out.update(r=r, arg_faults=faults, ncalls=len(ac))
            if len(ac) == 1:
                q1, q2, angs = ac[0]
                out.update(shapes=(q1.shape, q2.shape), dtypes=(str(q1.dtype), str(q2.dtype)), angs=np.asarray(angs, dtype=float))
        else:
            rc = task["recipe"]
            q1, q2 = rowstack_arrays(geo, rc)
            try:
                angs, faults = argguard.guarded(geo.misorientation_angles, (q1, q2))
                out.update(r=("OK", None), arg_faults=faults, ncalls=1, shapes=(q1.shape, q2.shape), dtypes=(str(q1.dtype), str(q2.dtype)),
                           angs=np.asarray(angs, dtype=float))
            except Exception as e:  # noqa: BLE001
                out.update(r=("ERR", common.exc_code(e)), arg_faults=[], ncalls=0)
        if "angs" in out and q1.ndim == 3 and q2.ndim == 3 and len(q1) == len(q2) == len(out["angs"]) and out["angs"].ndim == 1:
            rows, ncols = len(q1), q1.shape[1] * q2.shape[1]
            out["slice_faults"], out["slice_rows"] = slice_faults(geo.misorientation_angles, q1, q2, out["angs"],
                                                                  slice_plan(rows, ncols, rng, full=task.get("full", False)))
            out["model_rows"] = [(int(i), q1.shape[1], q2.shape[1], flat(q1[i]), flat(q2[i]), float(out["angs"][i]))
                                 for i in sample_rows(rows, ncols, rng)]
            if task["what"] == "rowstack":
                a = out.pop("angs")
                out["summary"] = dict(n=len(a), finite=bool(np.all(np.isfinite(a))), lo=float(np.nanmin(a)), hi=float(np.nanmax(a)),
                                      zeros=int((a == 0).sum()))
        out["wall"] = time.time() - t0
        return out
    except Exception:  # noqa: BLE001
        return dict(id=task["id"], crash=traceback.format_exc()[-1500:], wall=time.time() - t0)


def run_units(tasks):
    """the units side by side in forked workers (the JIT-compiled kernels are inherited), results in task order"""
    import os as _os
    workers = int(_os.environ.get("VERIF_C14_WORKERS", min(6, _os.cpu_count() or 1)))
    if workers <= 1 or len(tasks) <= 1:
        return [large_unit(t) for t in tasks]
    order = sorted(range(len(tasks)), key=lambda i: -tasks[i].get("cost", 0))
    with multiprocessing.get_context("fork").Pool(processes=min(workers, len(tasks))) as pool:
        res = pool.map(large_unit, [tasks[i] for i in order], chunksize=1)
    out = [None] * len(tasks)
    for i, r in zip(order, res):
        out[i] = r
    return out


def large_plan(geo, tier, seed):
    """the cases of the family: (texture cases, row-stack cases).  cap(k) = 2^k bytes / (8 n_sym^2) = number of pair rows
    whose rows x n_sym^2 binary64 table of candidate angles fills 2^k bytes."""
    rng = np.random.default_rng(seed + 35)
    nsym = {name: len(geo.symmetry_operations(lattice(geo, name))) for name in SYSTEMS}
    quick = tier == "quick"
    tex, stacks = [], []

    def cap(name, k):
        return 2 ** k // (8 * nsym[name] ** 2)

    def add_tex(name, n, side, boundary, orders, kinds=None):
        if not 3 <= n <= MAX_GRAINS:
            return
        kinds = kinds or LARGE_BLOCK_KINDS[int(rng.integers(0, len(LARGE_BLOCK_KINDS)))]
        tex.append(dict(recipe=dict(system=name, n=int(n), blocks=split_blocks(int(n), kinds), seed=int(seed)),
                        orders=list(orders), side=side, boundary=boundary, cost=npairs(n) * nsym[name] * 5e-6))

    def add_stack(name, rows, side, boundary, dtype, b_ops=None, kinds=None):
        if rows < 2 or (nsym[name] == 1 and rows > npairs(MAX_GRAINS)):
            return
        kinds = kinds or LARGE_BLOCK_KINDS[int(rng.integers(0, len(LARGE_BLOCK_KINDS)))]
        stacks.append(dict(recipe=dict(system=name, rows=int(rows), dtype=dtype, b_ops=b_ops, kinds=list(kinds), seed=int(seed)),
                           side=side, boundary=boundary, cost=rows * nsym[name] * (b_ops or nsym[name]) * 1e-7))

    by_ops = sorted(SYSTEMS, key=lambda s: -nsym[s])
    reps = {}                                   # one system per distinct operator count
    for name in SYSTEMS:
        reps.setdefault(nsym[name], name)
    rot = int(seed) % 3
    # -- textures through the public API -------------------------------------------------------------------------------
    if quick:
        top = by_ops[0]                         # most operators: the fewest grains (and the cheapest call) at 2^28 bytes
        add_tex(top, grains_above(cap(top, 28)) + int(rng.integers(0, 41)), "above", "2^28 bytes", ("reversed", "permutation"),
                kinds=LARGE_BLOCK_KINDS[int(seed) % 2 * 2])          # aligned / tight block first, random block last
        for i, name in enumerate(SYSTEMS):      # a cheaper boundary for every system, sides and orders alternate
            k = max(kk for kk in range(16, 29) if npairs(grains_above(cap(name, kk))) * nsym[name] <= 300000)
            above = (i + int(seed)) % 2 == 0
            n = grains_above(cap(name, k)) + int(rng.integers(0, 9)) if above else grains_above(cap(name, k)) - 1 - int(rng.integers(0, 3))
            add_tex(name, n, "above" if above else "below", f"2^{k} bytes", (REORDERINGS[(i + rot) % 3],))
    else:
        for name in SYSTEMS:
            for k in (28, 27, 26, 24):
                n0 = grains_above(cap(name, k))
                add_tex(name, n0 + int(rng.integers(0, 88 if k == 28 else 9)), "above", f"2^{k} bytes", REORDERINGS if k >= 27 else REORDERINGS[:2])
                if k in (28, 26):
                    add_tex(name, n0 - 1, "below", f"2^{k} bytes", REORDERINGS[:2])
            for j in (16, 17):                  # numbers of pair rows around 2^j
                n0 = grains_above(2 ** j)
                add_tex(name, n0, "above", f"2^{j} rows", REORDERINGS[:1])
                add_tex(name, n0 - 1, "below", f"2^{j} rows", REORDERINGS[1:2])
        add_tex("triclinic", MAX_GRAINS, "at", "2000 grains", REORDERINGS[:2])
        add_tex("triclinic", 1024, "at", "rows multiple of 512", REORDERINGS[:2])
        add_tex("orthorhombic", 512, "at", "rows multiple of 256", REORDERINGS[:2])
    # -- row stacks handed to geometry.misorientation_angles directly ---------------------------------------------------
    names = [reps[o] for o in sorted(reps) if o > 1]
    tri = reps.get(1)
    if quick:
        for i, name in enumerate(names):
            c = cap(name, 28)
            add_stack(name, c + 1 + int(rng.integers(0, c // 16)), "above", "2^28 bytes", "float32",
                      kinds=LARGE_BLOCK_KINDS[(i + int(seed)) % 2 * 2])
        a, b, c3 = names[rot % len(names)], names[(rot + 1) % len(names)], names[(rot + 2) % len(names)]
        add_stack(a, cap(a, 28), "at", "2^28 bytes", "float32")
        add_stack(b, cap(b, 27) + 1 + int(rng.integers(0, 999)), "above", "2^27 bytes", "float64")
        add_stack(c3, cap(c3, 26) - int(rng.integers(0, 999)), "below", "2^26 bytes", "float64")
        add_stack(c3, 2 * cap(c3, 25), "at", "2 x 2^25 bytes", "float32")
        add_stack(b, 2 * cap(b, 25) + cap(b, 25) // 2, "above", "2.5 x 2^25 bytes", "float32")
        add_stack(a, 65536 * 2 + 1, "above", "2 x 65536 rows", "float64", b_ops=1)
        if tri:
            add_stack(tri, npairs(MAX_GRAINS), "at", "2000 grains", "float32")
            add_stack(tri, 2 ** 20 + 1, "above", "2^20 rows", "float64")
    else:
        for i, name in enumerate(names + ([tri] if tri else [])):
            for k in (29, 28, 27, 26, 25, 24, 22, 20):
                c = cap(name, k)
                dt = ("float32", "float64")[(i + k) % 2]
                add_stack(name, c + 1 + int(rng.integers(0, max(1, c // 16))), "above", f"2^{k} bytes", dt)
                add_stack(name, c + 1, "above", f"2^{k} bytes", "float32")
                add_stack(name, c, "at", f"2^{k} bytes", dt)
                add_stack(name, c - 1 - int(rng.integers(0, max(1, c // 16))), "below", f"2^{k} bytes", "float32")
            for mult in (2, 3):
                add_stack(name, mult * cap(name, 26), "at", f"{mult} x 2^26 bytes", "float32")
                add_stack(name, mult * cap(name, 26) + 1 + int(rng.integers(0, cap(name, 26) - 1)), "above", f"{mult} x 2^26 bytes", "float32")
            for blk in TYPICAL_BLOCKS:
                for rows in (3 * blk - 1, 3 * blk, 3 * blk + 1):
                    add_stack(name, rows, ("below", "at", "above")[rows - 3 * blk + 1], f"3 x {blk} rows", "float32")
            for j in (16, 17, 18, 19):
                add_stack(name, 2 ** j + 1, "above", f"2^{j} rows", "float64", b_ops=1)
                add_stack(name, 2 ** j, "at", f"2^{j} rows", "float32")
    return tex, stacks


def theory_mass(st, geo, name):
    s = lattice(geo, name)
    try:
        return float(sum(st.misorientations_random(i, i + 1, s) for i in range(st._max_misorientation(s))))
    except Exception:  # noqa: BLE001
        return None


def large_aggregates(chk, tier):
    """correspondence of the large-aggregate / size-boundary family (see the comment above)"""
    import argguard
    import pydrex.stats as st
    import pydrex.geometry as geo
    bad = []
    B = Batch()
    tex, stacks = large_plan(geo, tier, chk.seed)
    cov = chk.cov.setdefault("large_aggregates", {"texture_calls": 0, "rowstack_calls": 0, "system": {}, "n_grains": {}, "pair_rows_log2": {},
                                                  "scratch_bytes_log2": {}, "side": {}, "boundary": {}, "blocks": {}, "reordering": {},
                                                  "dtype": {}, "slice_rows_evaluated": 0, "model_rows": 0, "pairs_matched_under_reordering": 0,
                                                  "pairs_bin_moved": 0, "max_grains": 0, "max_pair_rows": 0, "unit_wall_s": 0.0})

    def bump(k, v):
        cov[k][str(v)] = cov[k].get(str(v), 0) + 1

    tasks = []
    for ci, c in enumerate(tex):
        for order in [None] + c["orders"]:
            tasks.append(dict(id=len(tasks), what="texture", case=ci, recipe=c["recipe"], order=order, seed=chk.seed,
                              cost=c["cost"], full=tier != "quick"))
    for ci, c in enumerate(stacks):
        tasks.append(dict(id=len(tasks), what="rowstack", case=ci, recipe=c["recipe"], seed=chk.seed, cost=c["cost"], full=tier != "quick"))
    results = run_units(tasks)
    hist = chk.cov["histogram"]
    nsym = {name: len(geo.symmetry_operations(lattice(geo, name))) for name in SYSTEMS}

    def common_checks(t, res, meta, rows, A, Bn, f32):
        if "crash" in res:
            bad.append((meta, "the unit raised: " + res["crash"]))
            return False
        cov["unit_wall_s"] = round(cov["unit_wall_s"] + res["wall"], 1)
        for f in res["arg_faults"]:
            bad.append((dict(meta, what="arguments"), f))
        if res["ncalls"] != 1:
            bad.append((meta, f"expected one misorientation_angles call, saw {res['ncalls']}" if t["what"] == "texture" else f"misorientation_angles: {res['r']}"))
            return False
        if tuple(res["shapes"][0]) != (rows, A, 4) or tuple(res["shapes"][1]) != (rows, Bn, 4):
            bad.append((meta, f"misorientation_angles called on shapes {res['shapes']}, expected ({rows}, {A}, 4) / ({rows}, {Bn}, 4)"))
            return False
        if "slice_faults" not in res:
            bad.append((meta, "misorientation_angles did not return one angle per row"))
            return False
        for f in res["slice_faults"]:
            bad.append((dict(meta, what="row-wise"), f))
        cov["slice_rows_evaluated"] += res["slice_rows"]
        for i, a_, b_, f1, f2, ang in res["model_rows"]:
            def h(m, ang=ang, i=i, meta=meta):
                if m[0] != "OK" or not abs(math.cos(math.radians(ang / 2)) - math.cos(math.radians(m[1][0] / 2))) <= (SAME_ROW_TOL if f32 else 1e-12):
                    bad.append((dict(meta, what="pair angles"), f"row {i} of {rows}: implementation {ang!r} vs model {m}"))
            B.add("misangle", [a_, b_], f1 + f2, h)
            cov["model_rows"] += 1
        bump("pair_rows_log2", int(math.log2(rows)))
        bump("scratch_bytes_log2", int(math.log2(rows * A * Bn * 8)))
        cov["max_pair_rows"] = max(cov["max_pair_rows"], rows)
        return True

    for ci, c in enumerate(tex):
        rc = c["recipe"]
        name, n = rc["system"], rc["n"]
        k, s = SYSTEMS.index(name), lattice(geo, name)
        tmax = st._max_misorientation(s)
        kinds = "+".join(b[0] for b in rc["blocks"])
        runs = {t["order"]: (t, results[t["id"]]) for t in tasks if t["what"] == "texture" and t["case"] == ci}
        okay = {}
        for order, (t, res) in runs.items():
            meta = dict(function="misorientation_index", system=name, kind="large:" + kinds, n=n, large=dict(call="large_aggregate", recipe=rc, orders=c["orders"]),
                        order=order or "as generated")
            cov["texture_calls"] += 1
            bump("system", name); bump("n_grains", n); bump("side", c["side"]); bump("boundary", c["boundary"]); bump("blocks", kinds)
            bump("reordering", order or "as generated"); bump("dtype", "texture")
            hist["system"][name] = hist["system"].get(name, 0) + 1
            hist["kind"]["large"] = hist["kind"].get("large", 0) + 1
            hist["n_grains"][str(n)] = hist["n_grains"].get(str(n), 0) + 1
            cov["max_grains"] = max(cov["max_grains"], n)
            r = res.get("r", ("ERR", "crash"))
            hist["result"][r[0] if r[0] == "ERR" else "OK"] = hist["result"].get(r[0] if r[0] == "ERR" else "OK", 0) + 1
            chk.note_case(("large", name, n, kinds, order, rc["seed"]), nontrivial=True,
                          sample=dict(function="misorientation_index", system=name, kind="large:" + kinds, n_grains=n, order=order,
                                      result=r[1]))
            if not common_checks(t, res, meta, npairs(n), nsym[name], nsym[name], True):
                continue
            angs = res["angs"]
            # index = model index of the recorded angles (errors included: rhombohedral raises, a recorded finding)
            B.add("mindex_angles", [k], flat(angs), expect_vec(bad, dict(meta, what="index from the recorded pair angles"),
                                                               ("OK", [r[1]]) if r[0] == "OK" else r, rtol=1e-10))
            if r[0] == "OK":
                T = theory_mass(st, geo, name)
                upper = 1 + 1e-3 if name in GOOD_MASS else (1 + (T if T is not None else 1.0)) / 2 + 1e-9
                if not (math.isfinite(r[1]) and -1e-12 <= r[1] <= upper):
                    bad.append((dict(meta, what="range"), f"misorientation_index returned {r[1]!r}, not a number in [0, {upper:.6f}] "
                                                          f"({in_range_count(angs, tmax)} of {len(angs)} pair angles lie in [0, {tmax}])"))
            okay[order] = (r, angs)
        if None not in okay:
            continue
        r0, a0 = okay[None]
        for order in c["orders"]:
            if order not in okay:
                continue
            r1, a1 = okay[order]
            meta = dict(function="misorientation_index", system=name, kind="large:" + kinds, n=n, what="reordering",
                        large=dict(call="large_aggregate", recipe=rc, orders=c["orders"]), order=order)
            p = reorder_perm(rc, order)
            j = reorder_judgement(a0, a1, n, p, tmax)
            cov["pairs_matched_under_reordering"] += len(a0)
            cov["pairs_bin_moved"] += j["moved"]
            if j["changed"]:
                gi, gj, x, y = j["worst"]
                bad.append((meta, f"{j['changed']} of {len(a0)} pair angles change when the grains are reordered ({order}): grains ({gi}, {gj}) "
                                  f"have {x!r} in the original order and {y!r} in the new one"))
            if r0[0] != r1[0] or (r0[0] == "ERR" and r0[1] != r1[1]):
                bad.append((meta, f"misorientation_index: {r0} in the original order, {r1} after the reordering ({order})"))
            elif r0[0] == "OK" and not abs(r0[1] - r1[1]) <= j["tol"]:
                bad.append((meta, f"M-index changes under a reordering of the grains ({order}): {r0[1]!r} -> {r1[1]!r} "
                                  f"(tolerance {j['tol']:.2e}: {j['moved']} pairs changed their bin)"))
    for ci, c in enumerate(stacks):
        rc = c["recipe"]
        name, rows = rc["system"], rc["rows"]
        t = next(t for t in tasks if t["what"] == "rowstack" and t["case"] == ci)
        res = results[t["id"]]
        A, Bn = nsym[name], int(rc.get("b_ops") or nsym[name])
        meta = dict(function="misorientation_angles", system=name, kind="large-rowstack:" + "+".join(rc["kinds"]), rows=rows,
                    large=dict(call="misorientation_angles_rowstack", recipe=rc))
        cov["rowstack_calls"] += 1
        bump("system", name); bump("side", c["side"]); bump("boundary", c["boundary"]); bump("blocks", "+".join(rc["kinds"])); bump("dtype", rc["dtype"])
        chk.note_case(("large-rowstack", name, rows, rc["dtype"], Bn, tuple(rc["kinds"]), rc["seed"]), nontrivial=True)
        if not common_checks(t, res, meta, rows, A, Bn, rc["dtype"] == "float32"):
            continue
        sm = res["summary"]
        if not (sm["finite"] and 0 <= sm["lo"] and sm["hi"] <= 180 + 1e-9):
            bad.append((dict(meta, what="range"), f"angles not all in [0, 180]: {sm}"))
    # returned storage is not shared between calls (a blocked implementation may keep its buffers)
    q1, q2 = rowstack_arrays(geo, dict(system=SYSTEMS[-1], rows=4097, dtype="float32", kinds=LARGE_BLOCK_KINDS[0], seed=chk.seed))
    for f in argguard.fresh_result_probe(geo.misorientation_angles, lambda: ((q1.copy(), q2.copy()), {})):
        bad.append((dict(function="misorientation_angles", what="returned storage"), f))
    B.run()
    chk.cov["traces_validated_against_impl"] = chk.cov.get("traces_validated_against_impl", 0) + len(B.lines)
    return bad


# property oracle of the family (public API only; `large` = the recipe dicts above)
def oracle_large_texture(dg, st, geo, recipe, orders):
    fails = []
    name, n = recipe["system"], int(recipe["n"])
    s = lattice(geo, name)
    tmax = st._max_misorientation(s)
    os = ordered_texture(recipe)
    r0, ac0, faults = record_index(dg, geo, os, s)
    fails += [f"misorientation_index modifies its argument: {f}" for f in faults]
    known_raise = name == "rhombohedral" and r0 == ("ERR", "AssertionError")       # recorded finding: the theory raises
    if r0[0] == "ERR" and not known_raise:
        return fails + [f"misorientation_index raised {r0[1]} for {n} grains ({name})"]
    a0 = np.asarray(ac0[0][2], dtype=float) if len(ac0) == 1 else None
    if r0[0] == "OK":
        T = theory_mass(st, geo, name)
        upper = 1 + 1e-3 if name in GOOD_MASS else (1 + (T if T is not None else 1.0)) / 2 + 1e-9
        if not math.isfinite(r0[1]):
            if not (a0 is not None and in_range_count(a0, tmax) == 0):     # recorded finding: no pair in range
                fails.append(f"M-index of {n} grains ({name}) is {r0[1]!r}, not a number in [0, 1]")
        elif not -1e-12 <= r0[1] <= upper:
            fails.append(f"M-index {r0[1]!r} of {n} grains ({name}) outside [0, {upper:.6f}]")
    if a0 is not None and ac0[0][0].ndim == 3 and ac0[0][1].ndim == 3 and len(ac0[0][0]) == len(ac0[0][1]) == len(a0):
        # every pair contributes its misorientation angle minimised over the symmetry operators: the function that
        # computes them is row-wise, the rows of the big stack evaluated in pieces must give the same angles
        q1, q2 = ac0[0][0], ac0[0][1]
        sf, _ = slice_faults(geo.misorientation_angles, q1, q2, a0,
                             slice_plan(len(q1), q1.shape[1] * q2.shape[1], np.random.default_rng([int(recipe["seed"]), 17]), full=True))
        fails += [f"{n} grains ({name}): " + f for f in sf[:1]]
    for order in orders:
        p = reorder_perm(recipe, order)
        r1, ac1, _ = record_index(dg, geo, np.ascontiguousarray(os[p]), s)
        if r1[0] != r0[0] or (r0[0] == "ERR" and r1[1] != r0[1]):
            fails.append(f"misorientation_index of {n} grains ({name}): {r0} in the original order, {r1} after the reordering ({order})")
            continue
        tol, moved = 1e-9, 0
        if a0 is not None and len(ac1) == 1 and len(ac1[0][2]) == len(a0) == npairs(n):
            j = reorder_judgement(a0, ac1[0][2], n, p, tmax)
            tol, moved = j["tol"], j["moved"]
            if j["changed"]:
                gi, gj, x, y = j["worst"]
                fails.append(f"{j['changed']} of the {len(a0)} pair angles of {n} grains ({name}) change when the grains are reordered ({order}): "
                             f"grains ({gi}, {gj}) have misorientation {x!r} in the original order and {y!r} in the new one")
        if r0[0] == "OK" and not same_value(r0[1], r1[1], tol):
            fails.append(f"M-index of {n} grains ({name}) changes under a reordering of the grains ({order}): {r0[1]!r} -> {r1[1]!r} "
                         f"(tolerance {tol:.2e}: {moved} pairs changed their bin)")
    return fails


def oracle_rowstack(geo, recipe):
    import argguard
    q1, q2 = rowstack_arrays(geo, recipe)
    try:
        whole, faults = argguard.guarded(geo.misorientation_angles, (q1, q2))
    except Exception as e:  # noqa: BLE001
        return [f"misorientation_angles raised {type(e).__name__} on {q1.shape} / {q2.shape}"]
    fails = [f"misorientation_angles modifies its argument: {f}" for f in faults]
    whole = np.asarray(whole, dtype=float)
    if whole.shape != (len(q1),):
        return fails + [f"misorientation_angles returned shape {whole.shape} for {len(q1)} rows"]
    if not (np.all(np.isfinite(whole)) and whole.min() >= 0 and whole.max() <= 180 + 1e-9):
        fails.append(f"misorientation angles of {len(q1)} rows of unit quaternions not all in [0, 180] (min {whole.min()!r}, max {whole.max()!r})")
    sf, _ = slice_faults(geo.misorientation_angles, q1, q2, whole,
                         slice_plan(len(q1), q1.shape[1] * q2.shape[1], np.random.default_rng([int(recipe["seed"]), 17]), full=True))
    return fails + sf[:1]


def oracle_large(dg, st, geo, large):
    if large["call"] == "large_aggregate":
        return oracle_large_texture(dg, st, geo, large["recipe"], large["orders"])
    return oracle_rowstack(geo, large["recipe"])


LARGE_NOTE = ("input too large to inline: a member of the large-aggregate / size-boundary family, regenerated from the recipe -- "
              "large_aggregate: orientations = c14.ordered_texture(recipe) (blocks of aligned / tight / random grains, "
              "np.random.default_rng([seed, 14, n])), reorderings c14.reorder_perm(recipe, order); "
              "misorientation_angles_rowstack: (q1, q2) = c14.rowstack_arrays(geometry, recipe)")


def search_large(chk, extra, add, nothing_found_yet):
    """the members of the family that failed in the correspondence first; the quick plan of the family (cheapest first)
    when nothing at all was found -- a change that only acts above a size boundary leaves every small input intact"""
    import json
    import pydrex.diagnostics as dg
    import pydrex.stats as st
    import pydrex.geometry as geo
    got = {"large_aggregate": 0, "misorientation_angles_rowstack": 0}
    seen = set()

    def sweep(cands):
        for c in cands:
            key = json.dumps(c, sort_keys=True, default=str)
            if key in seen or got[c["call"]] >= 1:
                continue
            seen.add(key)
            fails = oracle_large(dg, st, geo, c)
            if fails:
                got[c["call"]] += 1
                add(dict(c, note=LARGE_NOTE), fails)

    def size(c):
        return c["recipe"].get("rows", 0) * 1e-3 + npairs(c["recipe"].get("n", 0))

    sweep(sorted((m["large"] for m in extra if isinstance(m.get("large"), dict)), key=size))
    if nothing_found_yet() and not any(got.values()):
        tex, stacks = large_plan(geo, "quick", chk.seed)
        sweep([dict(call="misorientation_angles_rowstack", recipe=c["recipe"]) for c in sorted(stacks, key=lambda c: c["cost"])]
              + [dict(call="large_aggregate", recipe=c["recipe"], orders=c["orders"]) for c in sorted(tex, key=lambda c: c["cost"])])


# --------------------------------------------------------------------------
# call histories: sequences of public calls in ONE process where the caller edits what it was handed
#
# The models are pure functions: the value of a call is a function of its arguments.  A single call cannot see an
# implementation that keeps what it returns (a result cache handing out its stored mutable objects, a module-level table
# returned by reference, a result that is a view of an argument buffer): the first call of every process is right.  This
# family runs HISTORIES: sequences of public calls of the modules C14 is anchored in -- geometry.symmetry_operations,
# geometry.misorientation_angles, stats.misorientation_hist, stats.misorientations_random, diagnostics.misorientation_index,
# diagnostics.misorientation_indices (ncpus / a pool opened EARLIER in the history) -- where BETWEEN calls the caller
#   * edits in place an object an earlier call RETURNED (the list of operators truncated / reversed / entries dropped or
#     duplicated, its arrays rescaled / component-rolled / negated / zeroed; a returned histogram and its edges rescaled; a
#     returned array of indices or angles overwritten), or
#   * reuses its own argument buffers (the orientation buffer / the quaternion buffers overwritten with the next input).
# Every call goes through argguard.guarded; every later call is judged ON ITS OWN by the property text:
#   index a number in [0, upper] (the bounds oracle_texture uses); unchanged under a reordering of the grains (1e-9); equal to
#   the index rebuilt from misorientation_hist + misorientations_random; the batched variant equal to the per-snapshot values;
#   observed density a probability density; pair angles in [0, 180]; a result the caller did NOT edit is unchanged by later
#   calls; two calls of the history with equal argument values give equal values; and every call gives the value the SAME
#   call with the same argument values gives in a REFERENCE process in which the caller never edits a result (buffer reuse
#   is kept there: it defines the arguments).
# A history is a small JSON recipe (textures are regenerated from (kind, n, seed)): that is what a replay file stores.
# Correspondence: history and reference run in forked children of the harness process (compiled kernels inherited, the
# harness process itself never edits a result, so it stays clean on a changed tree); the operator lists returned INSIDE a
# history are compared with the extracted model table.  Search / replay: history and reference each in a NEW interpreter.
# --------------------------------------------------------------------------
HISTORY_FUNCTIONS = ("symmetry_operations", "misorientation_angles", "misorientation_hist", "misorientations_random",
                     "misorientation_index", "misorientation_indices")
LIST_EDITS = ("truncate", "reverse", "drop-first", "duplicate-last", "swap-ends")
ARRAY_EDITS = ("scale", "roll", "negate", "zero", "flip")
# edits of a returned operator list (each a list of elementary edits), rotated over the lattice systems by the seed
OPERATOR_EDIT_PLANS = (
    (("truncate", None), ("each:roll", None)),     # keep the leading half (the quaternion operators), scalar-first component order
    (("reverse", None),),
    (("each:scale", 3.0),),
    (("drop-first", None), ("each:negate", None)),
    (("swap-ends", None), ("duplicate-last", None)),
    (("each:zero", None),),
    (("truncate", 1), ("each:flip", None)),
)


def enc(v):
    """JSON-able, bit-exact encoding of a returned value"""
    if isinstance(v, dict) and "err" in v:
        return v
    if isinstance(v, np.ndarray):
        return {"a": [hx(x) for x in np.asarray(v, dtype=float).reshape(-1)], "shape": list(v.shape), "dtype": str(v.dtype)}
    if isinstance(v, (list, tuple)):
        return {"l": [enc(x) for x in v]}
    if isinstance(v, (float, int, np.floating, np.integer)):
        return {"f": hx(float(v))}
    return {"repr": repr(v)[:200]}


def dec_floats(e):
    """all numbers of an encoded value, flat; None for an error"""
    if "err" in e or "repr" in e:
        return None
    if "f" in e:
        return [common.unhx(e["f"])]
    if "a" in e:
        return [common.unhx(x) for x in e["a"]]
    out = []
    for x in e["l"]:
        d = dec_floats(x)
        if d is None:
            return None
        out += d
    return out


def enc_shape(e):
    if "err" in e:
        return ("err", e["err"])
    if "a" in e:
        return ("a", tuple(e["shape"]))
    if "l" in e:
        return ("l", tuple(enc_shape(x) for x in e["l"]))
    if "f" in e:
        return ("f",)
    return ("repr", e.get("repr"))


def same_enc(a, b, tol=1e-12):
    """equal results of the same call: the same error, or the same structure with numbers within tol (NaN = NaN)"""
    if ("err" in a) or ("err" in b):
        return a.get("err") == b.get("err")
    if enc_shape(a) != enc_shape(b):
        return False
    x, y = dec_floats(a), dec_floats(b)
    if x is None or y is None:
        return a == b
    x, y = np.array(x, dtype=float), np.array(y, dtype=float)
    if x.shape != y.shape:
        return False
    both_nan = np.isnan(x) & np.isnan(y)
    with np.errstate(invalid="ignore"):
        return bool(np.all(both_nan | (np.abs(x - y) <= tol) | (x == y)))


def show_enc(e, k=4):
    if "err" in e:
        return "ERR:" + str(e["err"])
    d = dec_floats(e)
    if d is None:
        return str(e)[:80]
    if "f" in e:
        return repr(d[0])
    return f"{enc_shape(e)[:2]} [{', '.join(f'{x:.6g}' for x in d[:k])}{', ...' if len(d) > k else ''}]"


def apply_edit(obj, edit, param, env):
    """one in-place edit of an object the caller holds; returns the elementary edits actually made"""
    import argguard
    done = []
    if edit.startswith("each:"):
        for _, a in argguard.result_arrays(obj):
            done += apply_edit(a, edit[5:], param, env)
        return done
    if isinstance(obj, list):
        n = len(obj)
        if edit == "truncate":
            del obj[(param if param is not None else (n + 1) // 2):]
        elif edit == "reverse":
            obj.reverse()
        elif edit == "drop-first":
            del obj[:1]
        elif edit == "duplicate-last" and n:
            obj.append(np.array(obj[-1], copy=True))
        elif edit == "swap-ends" and n > 1:
            obj[0], obj[-1] = obj[-1], obj[0]
        else:
            return done
        return [f"list:{edit}"]
    if isinstance(obj, np.ndarray):
        if not obj.flags.writeable:
            return ["array:read-only"]
        if edit == "scale":      # (the reflections of the operator lists are INTEGER matrices: np.diag of an int list)
            c = param if param is not None else 3.0
            obj *= (int(c) if obj.dtype.kind in "iu" else c)
        elif edit == "roll":
            obj[...] = np.roll(obj, 1, axis=-1)
        elif edit == "negate":
            np.negative(obj, out=obj)
        elif edit == "zero":
            obj[...] = 0
        elif edit == "flip":
            obj[...] = obj[..., ::-1].copy()
        elif edit == "assign":
            obj[...] = env[param]
        else:
            return done
        return [f"array:{edit}"]
    return done


def _arg_digest(fn, system, arrays, scalars):
    import hashlib
    h = hashlib.sha1()
    for a in arrays:
        a = np.asarray(a)
        h.update(str(a.shape).encode() + str(a.dtype).encode() + np.ascontiguousarray(a).tobytes())
    return f"{fn}|{system}|{scalars}|{h.hexdigest()[:16]}"


def run_history(H):
    """execute one history in THIS process (call it in a forked child or a new interpreter only: on a changed tree the
    process is polluted afterwards).  Returns a JSON-able record: one entry per public call."""
    import pydrex.diagnostics as dg
    import pydrex.stats as st
    import pydrex.geometry as geo
    import argguard
    env, held, calls, pools, edits_made = {}, {}, [], [], []
    prng = np.random.default_rng([int(H.get("seed", 0)), 1414])
    uppers = {}

    def upper(name):
        if name not in uppers:
            s = lattice(geo, name)
            th = st._max_misorientation(s)
            try:
                T = float(sum(st.misorientations_random(i, i + 1, s) for i in range(th)))
                uppers[name] = 1 + 1e-3 if name in GOOD_MASS else (1 + T) / 2 + 1e-9
            except Exception:  # noqa: BLE001
                uppers[name] = None
        return uppers[name]

    def call(fn, args, kwargs=None):
        try:
            r, faults = argguard.guarded(fn, args, kwargs or {})
            return r, faults
        except Exception as e:  # noqa: BLE001
            return {"err": common.exc_code(e)}, list(getattr(e, "argguard_faults", []))

    def check_held(pos, faults):
        # a result the caller did not edit must not change behind the caller's back
        for name, (obj, pristine, edited) in held.items():
            if edited:
                continue
            if not same_enc(enc(obj), pristine, tol=0.0):
                faults.append(f"the result `{name}` of an earlier call (never edited by the caller) changed: it was "
                              f"{show_enc(pristine)} when returned and is {show_enc(enc(obj))} after step {pos}")
                held[name] = (obj, enc(obj), False)

    try:
        with warnings.catch_warnings():
            warnings.simplefilter("ignore")
            for pos, stp in enumerate(H["steps"]):
                op = stp["op"]
                if op == "skip":
                    continue
                if op == "texture":
                    env[stp["as"]] = np.ascontiguousarray(texture(np.random.default_rng(stp["seed"]), stp["kind"], stp["n"]))
                elif op == "stack":
                    env[stp["as"]] = np.stack([env[k] for k in stp["of"]])
                elif op == "quats":
                    q = np.random.default_rng(stp["seed"]).normal(0, 1, (stp["rows"], stp["cols"], 4))
                    env[stp["as"]] = q / np.linalg.norm(q, axis=-1, keepdims=True)
                elif op == "copy":
                    env[stp["as"]] = np.array(env[stp["of"]], copy=True)
                elif op == "pool":
                    p = multiprocessing.get_context("fork").Pool(processes=stp["workers"])
                    pools.append(p)
                    env[stp["as"]] = p
                elif op == "edit":
                    tgt = stp["of"]
                    obj = held[tgt][0] if tgt in held else env[tgt]
                    made = apply_edit(obj, stp["edit"], stp.get("param"), env)
                    edits_made += made
                    if tgt in held:
                        held[tgt] = (held[tgt][0], held[tgt][1], True)
                    faults = []
                    check_held(pos, faults)
                    if faults:
                        calls.append(dict(step=pos, fn="(edit)", key=None, value={"repr": "edit"}, faults=faults))
                elif op == "probe":
                    name = stp["system"]
                    s = lattice(geo, name)
                    if stp["fn"] == "symmetry_operations":
                        fl = argguard.fresh_result_probe(geo.symmetry_operations, lambda: ((s,), {}))
                    else:
                        tex = env[stp["texture"]]
                        fl = argguard.fresh_result_probe(st.misorientation_hist, lambda: ((tex.copy(), s), {}))
                    calls.append(dict(step=pos, fn="probe:" + stp["fn"], key=None, value={"repr": "probe"},
                                      faults=[f"fresh_result_probe({stp['fn']}, {name}): {f}" for f in fl]))
                elif op == "call":
                    fn, a = stp["fn"], stp.get("args", {})
                    name = a.get("system")
                    s = lattice(geo, name) if name else None
                    entry = dict(step=pos, fn=fn, system=name, faults=[])
                    if fn == "symmetry_operations":
                        r, fl = call(geo.symmetry_operations, (s,))
                        entry["key"] = _arg_digest(fn, name, (), "")
                    elif fn == "misorientations_random":
                        r, fl = call(st.misorientations_random, (a["low"], a["high"], s))
                        entry["key"] = _arg_digest(fn, name, (), (a["low"], a["high"]))
                    elif fn == "misorientation_angles":
                        q1, q2 = env[a["q1"]], env[a["q2"]]
                        entry["key"] = _arg_digest(fn, None, (q1, q2), "")
                        r, fl = call(geo.misorientation_angles, (q1, q2))
                        if isinstance(r, np.ndarray):
                            rr = np.asarray(r, dtype=float)
                            if rr.shape != (len(q1),) or np.any(~np.isfinite(rr)) or np.any(rr < 0) or np.any(rr > 180 + 1e-9):
                                entry["faults"].append(f"misorientation_angles of unit quaternions returns {show_enc(enc(r))}: not "
                                                       f"{len(q1)} angles in [0, 180]")
                    elif fn == "misorientation_hist":
                        os_ = env[a["texture"]]
                        entry["key"] = _arg_digest(fn, name, (os_,), "")
                        r, fl = call(st.misorientation_hist, (os_, s))
                        if isinstance(r, tuple):
                            h = np.asarray(r[0], dtype=float)
                            if np.all(np.isfinite(h)) and (abs(h.sum() - 1) > 1e-9 or np.any(h < 0)):
                                entry["faults"].append("observed misorientation density is not a probability density on unit bins")
                    elif fn == "misorientation_index":
                        os_ = env[a["texture"]]
                        entry["key"] = _arg_digest(fn, name, (os_,), "")
                        r, fl = call(dg.misorientation_index, (os_, s))
                        if not isinstance(r, dict):
                            r = float(r)
                            entry["upper"] = upper(name)
                            perm = prng.permutation(len(os_))
                            r2, fl2 = call(dg.misorientation_index, (np.ascontiguousarray(os_[perm]), s))
                            entry["reordered"] = enc(r2 if isinstance(r2, dict) else float(r2))
                            fl = fl + fl2
                            try:
                                entry["rebuilt"] = enc(rebuilt_index(st, os_, s))
                            except Exception as e:  # noqa: BLE001
                                entry["rebuilt"] = {"err": common.exc_code(e)}
                    elif fn == "misorientation_indices":
                        stack = env[a["stack"]]
                        entry["key"] = _arg_digest(fn, name, (stack,), "")
                        per = []
                        for o in stack:
                            v, flv = call(dg.misorientation_index, (o, s))
                            per.append(v if isinstance(v, dict) else float(v))
                        entry["per_snapshot"] = enc(per) if not any(isinstance(v, dict) for v in per) else {"err": "per-snapshot call raised"}
                        if "pool" in a:
                            pl = env[a["pool"]]
                            r, fl = call(lambda st_, s_: dg.misorientation_indices(st_, s_, pool=pl), (stack, s))
                            entry["how"] = f"pool of {a['pool']} opened at an earlier step"
                        else:
                            r, fl = call(lambda st_, s_: dg.misorientation_indices(st_, s_, ncpus=a.get("ncpus", 2)), (stack, s))
                            entry["how"] = f"ncpus={a.get('ncpus', 2)}"
                    else:
                        raise ValueError(f"unknown function {fn}")
                    entry["faults"] += [f"{fn}: argument {f}" for f in fl]
                    entry["value"] = enc(r)
                    if stp.get("as"):
                        held[stp["as"]] = (r, enc(r), False)
                    check_held(pos, entry["faults"])
                    calls.append(entry)
                else:
                    raise ValueError(f"unknown step {op}")
    finally:
        for p in pools:
            try:
                p.terminate()
                p.join()
            except Exception:  # noqa: BLE001
                pass
    return dict(id=H.get("id"), calls=calls, edits_made=edits_made)


def reference_history(H):
    """the same calls with the same argument values, the caller never edits a RESULT (buffer reuse stays: it defines the
    arguments; probes scribble over results and are dropped)"""
    results = {s["as"] for s in H["steps"] if s["op"] == "call" and s.get("as")}
    steps = [dict(op="skip") if (s["op"] == "edit" and s["of"] in results) or s["op"] == "probe" else s for s in H["steps"]]   # positions kept
    return dict(H, id=str(H.get("id")) + ":reference", steps=steps)


def judge_history(H, rec, ref):
    """the property text on every call of the history (see the header of this section)"""
    fails = []
    if rec is None or "crash" in rec:
        return [f"history {H.get('id')}: the run did not complete ({(rec or {}).get('crash', 'no result')[-300:]})"]
    if ref is None or "crash" in ref:
        return [f"history {H.get('id')}: the reference run did not complete ({(ref or {}).get('crash', 'no result')[-300:]})"]
    what = f"history {H.get('id')}"
    refcalls = {(c["step"], c["fn"]): c for c in ref["calls"]}
    first = {}
    for c in rec["calls"]:
        at = f"{what}, step {c['step']} ({c['fn']}" + (f", {c['system']}" if c.get("system") else "") + ")"
        for f in c["faults"]:
            fails.append(f"{at}: {f}")
        if c["fn"] not in HISTORY_FUNCTIONS:
            continue
        v = c["value"]
        r = refcalls.get((c["step"], c["fn"]))
        if r is not None and not same_enc(v, r["value"]):
            fails.append(f"{at}: returns {show_enc(v)}; the same call with the same argument values in a process where the caller "
                         f"never edited a returned object gives {show_enc(r['value'])} (the result depends on what the caller did "
                         f"to objects it was handed earlier)")
        k = c.get("key")
        if k is not None:
            if k in first and not same_enc(first[k][1], v):
                fails.append(f"{at}: returns {show_enc(v)}, the same call with equal argument values returned {show_enc(first[k][1])} at "
                             f"step {first[k][0]} of the same history")
            first.setdefault(k, (c["step"], v))
        if c["fn"] == "misorientation_index" and "f" in v:
            m = common.unhx(v["f"])
            ref_nan = r is not None and "f" in r["value"] and math.isnan(common.unhx(r["value"]["f"]))
            if not math.isfinite(m):
                if not ref_nan:   # (NaN in the reference too: the recorded finding nan:no-pair-in-range, judged by oracle_texture)
                    fails.append(f"{at}: M-index is {m!r}, not a number in [0, 1]")
            else:
                up = c.get("upper")
                if up is not None and not (-1e-12 <= m <= up):
                    fails.append(f"{at}: M-index {m!r} outside [0, {up:.6f}]")
                if "reordered" in c and not same_enc(v, c["reordered"], tol=1e-9):
                    fails.append(f"{at}: M-index changes under a permutation of the grains: {m!r} -> {show_enc(c['reordered'])}")
                if "rebuilt" in c and "f" in c["rebuilt"] and not same_enc(v, c["rebuilt"], tol=1e-9):
                    fails.append(f"{at}: misorientation_index = {m!r} but misorientation_hist + misorientations_random give "
                                 f"{show_enc(c['rebuilt'])}")
        if c["fn"] == "misorientation_indices" and "per_snapshot" in c:
            ps = c["per_snapshot"]
            if "err" not in ps and "err" not in v:
                a, b = dec_floats(v), dec_floats(ps)
                if not (len(a) == len(b) and np.array_equal(np.array(a), np.array(b), equal_nan=True)):
                    fails.append(f"{at}: misorientation_indices ({c.get('how')}) = {a} but the per-snapshot values are {b}")
            elif ("err" in v) != ("err" in ps):
                fails.append(f"{at}: misorientation_indices ({c.get('how')}) gives {show_enc(v)}, the per-snapshot calls {show_enc(ps)}")
    return fails


def gen_histories(seed, tier):
    """the histories of the family (JSON recipes); every random choice from the seed"""
    rng = np.random.default_rng([int(seed), 77])
    kinds = ("random", "clustered", "tight")
    hs = []

    def tex(name, kind, n):
        return dict(op="texture", **{"as": name}, kind=kind, n=int(n), seed=[int(seed), 78, int(rng.integers(0, 2 ** 31))])

    def C(fn, out=None, **args):
        d = dict(op="call", fn=fn, args=args)
        if out:
            d["as"] = out
        return d

    def E(of, edit, param=None):
        return dict(op="edit", of=of, edit=edit, param=param)

    def judged_block(name, other, with_pool):
        """the calls made before and again after the caller's edits"""
        b = []
        for sysname in dict.fromkeys((name, other)):
            if sysname != "rhombohedral":      # (known finding: misorientation_index always raises for rhombohedral)
                b.append(C("misorientation_index", system=sysname, texture="T"))
            b.append(C("misorientation_hist", system=sysname, texture="U"))
        if name != "rhombohedral":
            if with_pool:
                b.append(C("misorientation_indices", system=name, stack="S", pool="P"))
            b.append(C("misorientation_indices", system=name, stack="S", ncpus=2))
        th = {"tetragonal": 90, "hexagonal": 90, "triclinic": 180, "monoclinic": 180}.get(name, 120)
        lo = float(int(rng.integers(0, min(th, 100) - 1)))
        b.append(C("misorientations_random", system=name, low=lo, high=lo + 1.0))
        b.append(C("symmetry_operations", system=name))
        return b

    rot = int(rng.integers(0, len(OPERATOR_EDIT_PLANS)))
    reps = 2 if tier == "quick" else 4
    for k, name in enumerate(SYSTEMS):
        other = {"monoclinic": "orthorhombic", "orthorhombic": "monoclinic"}.get(name, name)   # same operators, separate call
        for rep in range(reps):
            plan = OPERATOR_EDIT_PLANS[0] if rep == 0 else OPERATOR_EDIT_PLANS[1 + (rot + k * (reps - 1) + rep - 1) % (len(OPERATOR_EDIT_PLANS) - 1)]
            with_pool = (rep == 0 and name in ("orthorhombic", "hexagonal")) or tier != "quick"
            n = int(rng.integers(5, 11))
            steps = [tex("T", kinds[(k + rep) % 3], n), tex("U", kinds[(k + rep + 1) % 3], n), tex("V", "single", n),
                     dict(op="stack", **{"as": "S"}, of=["T", "U", "V"])]
            if with_pool:
                steps.append(dict(op="pool", **{"as": "P"}, workers=2))
            steps += judged_block(name, other, with_pool)
            steps.append(C("symmetry_operations", "ops", system=name))
            steps += [E("ops", e, p) for e, p in plan]
            steps += judged_block(name, other, with_pool)
            hs.append(dict(id=f"operators-edited/{name}/{'+'.join(e for e, _ in plan)}", template="returned operator list edited in place",
                           system=name, seed=int(seed), steps=steps))
    # a returned histogram (density, edges) rescaled / zeroed in place
    for j, name in enumerate(("orthorhombic", "triclinic") if tier == "quick" else SYSTEMS):
        edit = ("each:scale", "each:zero")[j % 2]
        steps = [tex("T", "clustered", 7), C("misorientation_hist", "h", system=name, texture="T"),
                 C("misorientation_index", system=name, texture="T") if name != "rhombohedral" else C("misorientation_hist", system=name, texture="T"),
                 E("h", edit, 5.0 if edit == "each:scale" else None),
                 C("misorientation_hist", system=name, texture="T")]
        if name != "rhombohedral":
            steps.append(C("misorientation_index", system=name, texture="T"))
        hs.append(dict(id=f"histogram-edited/{name}/{edit}", template="returned histogram edited in place", system=name, seed=int(seed), steps=steps))
    # a returned array of indices overwritten; the batched call repeated
    for name in (("monoclinic",) if tier == "quick" else ("monoclinic", "tetragonal", "triclinic")):
        steps = [tex("T", "random", 6), tex("U", "tight", 6), dict(op="stack", **{"as": "S"}, of=["T", "U"]),
                 C("misorientation_indices", "m", system=name, stack="S", ncpus=2), E("m", "zero"),
                 C("misorientation_indices", system=name, stack="S", ncpus=2), C("misorientation_indices", system=name, stack="S", ncpus=1)]
        hs.append(dict(id=f"indices-edited/{name}/zero", template="returned index array edited in place", system=name, seed=int(seed), steps=steps))
    # the caller's orientation buffer reused for the next texture (and for the first one again)
    for name in (("hexagonal", "orthorhombic") if tier == "quick" else [s for s in SYSTEMS if s != "rhombohedral"]):
        steps = [tex("T", "random", 8), tex("U", "clustered", 8), dict(op="copy", **{"as": "B"}, of="T"),
                 C("misorientation_index", "v0", system=name, texture="B"), C("misorientation_hist", "h0", system=name, texture="B"),
                 E("B", "assign", "U"),
                 C("misorientation_index", "v1", system=name, texture="B"), C("misorientation_index", system=name, texture="U"),
                 E("B", "assign", "T"),
                 C("misorientation_index", system=name, texture="B"), C("misorientation_hist", system=name, texture="B")]
        hs.append(dict(id=f"argument-buffer-reused/{name}", template="argument buffer reused", system=name, seed=int(seed), steps=steps))
    # quaternion buffers of misorientation_angles reused; a returned array of angles overwritten
    steps = [dict(op="quats", **{"as": "Q1"}, rows=7, cols=3, seed=[int(seed), 79, 1]), dict(op="quats", **{"as": "Q2"}, rows=7, cols=3, seed=[int(seed), 79, 2]),
             dict(op="quats", **{"as": "Q3"}, rows=7, cols=3, seed=[int(seed), 79, 3]),
             C("misorientation_angles", "a0", q1="Q1", q2="Q2"), C("misorientation_angles", "a1", q1="Q1", q2="Q3"), E("a1", "zero"),
             C("misorientation_angles", q1="Q1", q2="Q3"), E("Q3", "assign", "Q2"), C("misorientation_angles", q1="Q1", q2="Q3"),
             E("Q2", "assign", "Q1"), C("misorientation_angles", q1="Q1", q2="Q2")]
    hs.append(dict(id="angles-edited+buffers-reused", template="returned angles edited / quaternion buffers reused", system=None, seed=int(seed), steps=steps))
    # returned storage not shared between calls (argguard.fresh_result_probe), then the public calls again
    for name in (("monoclinic", "tetragonal") if tier == "quick" else SYSTEMS):
        steps = [tex("T", "clustered", 6), dict(op="probe", fn="symmetry_operations", system=name),
                 dict(op="probe", fn="misorientation_hist", system=name, texture="T"),
                 C("misorientation_hist", system=name, texture="T"), C("symmetry_operations", system=name)]
        if name != "rhombohedral":
            steps.append(C("misorientation_index", system=name, texture="T"))
        hs.append(dict(id=f"fresh-result-probe/{name}", template="fresh_result_probe then public calls", system=name, seed=int(seed), steps=steps))
    return hs


def _history_child(conn, H):
    import os as _os
    import traceback
    try:
        conn.send(run_history(H))
    except BaseException:  # noqa: BLE001
        try:
            conn.send(dict(id=H.get("id"), crash=traceback.format_exc()[-1200:]))
        except Exception:  # noqa: BLE001
            pass
    finally:
        try:
            conn.close()
        finally:
            _os._exit(0)


def forked_history_runs(hs, timeout=180.0):
    """every history in its own forked (non-daemonic: a history may open pools) child of this process, results in order"""
    import os as _os
    import time
    workers = int(_os.environ.get("VERIF_C14_WORKERS", min(6, _os.cpu_count() or 1)))
    ctx = multiprocessing.get_context("fork")
    results, pending, running = [None] * len(hs), list(enumerate(hs)), []
    while pending or running:
        while pending and len(running) < max(1, workers):
            i, H = pending.pop(0)
            rd, wr = ctx.Pipe(False)
            p = ctx.Process(target=_history_child, args=(wr, H))
            p.start()
            wr.close()
            running.append((i, p, rd, time.time()))
        for item in list(running):
            i, p, rd, t0 = item
            done = False
            if rd.poll(0.02):
                try:
                    results[i] = rd.recv()
                except (EOFError, OSError):
                    results[i] = dict(crash="the child process ended without a result")
                done = True
            elif not p.is_alive():
                results[i] = dict(crash=f"the child process ended without a result (exit code {p.exitcode})")
                done = True
            elif time.time() - t0 > timeout:
                p.kill()
                results[i] = dict(crash=f"no result after {timeout} s")
                done = True
            if done:
                p.join(5)
                rd.close()
                running.remove(item)
    return results


_HISTORY_SNIPPET = r"""
import sys, json
sys.path.insert(0, %r)
import common
common.use_repo_source()
from props import c14
H = json.load(sys.stdin)
try:
    rec = c14.run_history(H)
except BaseException:
    import traceback
    rec = dict(id=H.get("id"), crash=traceback.format_exc()[-1200:])
print("RESULT " + json.dumps(rec))
"""


def fresh_history_runs(hs, timeout=900):
    """every history as the ONLY thing a new interpreter does (started together), results in order"""
    import json
    import os as _os
    import subprocess
    harness = _os.path.dirname(_os.path.dirname(_os.path.abspath(__file__)))
    procs = []
    for H in hs:
        p = subprocess.Popen([common.PY, "-c", _HISTORY_SNIPPET % harness], stdin=subprocess.PIPE, stdout=subprocess.PIPE,
                             stderr=subprocess.PIPE, text=True)
        p.stdin.write(json.dumps(H))
        p.stdin.close()
        procs.append(p)
    out = []
    for p in procs:
        try:
            txt = p.stdout.read()
            err = p.stderr.read()
            p.wait(timeout=timeout)
        except Exception as e:  # noqa: BLE001
            p.kill()
            out.append(dict(crash=f"{type(e).__name__}: {e}"))
            continue
        m = re.search(r"^RESULT (.*)$", txt, re.M)
        out.append(json.loads(m.group(1)) if m else dict(crash="no RESULT line: " + err[-600:]))
    return out


def oracle_history(H):
    """history and reference each in a NEW interpreter (the calling process may be polluted on a changed tree)"""
    rec, ref = fresh_history_runs([H, reference_history(H)])
    return judge_history(H, rec, ref)


def call_histories(chk, tier):
    import time
    import pydrex.geometry as geo  # noqa: F401
    t0 = time.time()
    bad = []
    hs = gen_histories(chk.seed, tier)
    runs = forked_history_runs([x for H in hs for x in (H, reference_history(H))])
    cov = chk.cov.setdefault("call_histories", {"histories": 0, "template": {}, "system": {}, "edit": {}, "function": {},
                                                "judged_calls": 0, "with_pool": 0, "steps": {}, "disagreeing": 0})

    def bump(k, v):
        cov[k][str(v)] = cov[k].get(str(v), 0) + 1

    B = Batch()
    for j, H in enumerate(hs):
        rec, ref = runs[2 * j], runs[2 * j + 1]
        cov["histories"] += 1
        bump("template", H["template"]); bump("system", H["system"]); bump("steps", len(H["steps"]))
        cov["with_pool"] += int(any(s["op"] == "pool" for s in H["steps"]))
        for e in (rec or {}).get("edits_made", []):
            bump("edit", e)
        ncalls = 0
        for c in (rec or {}).get("calls", []):
            if c["fn"] in HISTORY_FUNCTIONS:
                bump("function", c["fn"])
                ncalls += 1
            if c["fn"] == "symmetry_operations" and c.get("system") in SYSTEMS:
                # the operator list a call INSIDE the history returns vs the extracted model table
                meta = dict(function="call_history", history=H, what=f"operators returned at step {c['step']} vs the model table")
                v = c["value"]
                if "l" not in v:
                    bad.append((meta, f"symmetry_operations({c['system']}) at step {c['step']}: {show_enc(v)}"))
                else:
                    fl = []
                    for o in v["l"]:
                        o = np.array(dec_floats(o) or [math.nan]).reshape(o.get("shape", [-1]))
                        fl += ([0.0] + list(o)) if o.shape == (4,) else ([1.0] + list(np.diag(o)) if o.ndim == 2 else [2.0] + list(o.reshape(-1)))
                    B.add("symops", [SYSTEMS.index(c["system"])], [], expect_vec(bad, meta, ("OK", fl), atol=1e-15, rtol=0))
        cov["judged_calls"] += ncalls
        fails = judge_history(H, rec, ref)
        chk.note_case(("history", H["id"], repr(H["steps"])), nontrivial=any(s["op"] in ("edit", "probe") for s in H["steps"]),
                      sample=dict(function="call_history", id=H["id"], steps=len(H["steps"]), public_calls=ncalls,
                                  edits=(rec or {}).get("edits_made", [])[:6]) if j == 0 else None)
        if fails:
            cov["disagreeing"] += 1
            bad.append((dict(function="call_history", history=H), f"{len(fails)} judgements fail; first: {fails[0]}"))
    B.run()
    cov["wall_s"] = round(time.time() - t0, 2)
    return bad


def search_histories(chk, extra, add):
    """candidates: the histories that disagreed in the correspondence, else the quick plan run in forked children of this
    process; every candidate is CONFIRMED with history and reference each in a new interpreter before it is reported"""
    cands, seen = [], set()
    for m in extra:
        H = m.get("history")
        if H is not None and H["id"] not in seen:
            seen.add(H["id"])
            cands.append(H)
    if not cands:
        hs = gen_histories(chk.seed, "quick")
        runs = forked_history_runs([x for H in hs for x in (H, reference_history(H))])
        cands = [H for j, H in enumerate(hs) if judge_history(H, runs[2 * j], runs[2 * j + 1])]
    # one candidate per template (templates in the order of the plan), the one with a pool opened before the edits if there
    # is one (it exercises the batched clause too), else the shortest
    best = {}
    for H in cands:
        k = (0 if any(s["op"] == "pool" for s in H["steps"]) else 1, len(H["steps"]))
        if H["template"] not in best or k < best[H["template"]][0]:
            best[H["template"]] = (k, H)
    cands = [H for _, H in best.values()][:4]
    if not cands:
        return
    res = fresh_history_runs([x for H in cands for x in (H, reference_history(H))])
    for j, H in enumerate(cands):
        fails = judge_history(H, res[2 * j], res[2 * j + 1])
        if fails:
            add(dict(call="call_history", history=H,
                     note="a sequence of public calls in one process; run in a NEW interpreter, next to a reference interpreter in which "
                          "the caller never edits a returned object"), fails[:12])


# --------------------------------------------------------------------------
# witnesses of the known findings (run on the implementation)
# --------------------------------------------------------------------------
TWOFOLD = np.array([np.diag(d) for d in ([1, 1, 1], [1, -1, -1], [-1, 1, -1], [-1, -1, 1])], dtype=float)


def witnesses():
    import pydrex.diagnostics as dg
    import pydrex.stats as st
    import pydrex.geometry as geo
    import pydrex.utils as ut
    rep = {}
    q = np.array(ut.quat_product(np.array([1., 0, 0, 0]), np.array([0., 1, 0, 0])), dtype=float)
    rep["C14:quat_product:cross(q1,q1)"] = (bool(np.allclose(q, 0) and not np.allclose(q, [0, 0, 1, 0])), f"quat_product((1,0,0,0),(0,1,0,0)) = {q.tolist()}")
    rng = np.random.default_rng(WITNESS_SEED)
    os = haar(rng, 60)
    Q = haar(rng, 1)[0]
    flips = TWOFOLD[rng.integers(0, 4, 60)]
    s = geo.LatticeSystem.orthorhombic
    with warnings.catch_warnings():
        warnings.simplefilter("ignore")
        m0 = float(dg.misorientation_index(os, s))
        m1 = float(dg.misorientation_index(os @ Q.T, s))
        m2 = float(dg.misorientation_index(flips @ os, s))
    rep["C14:misorientation_index:frame-dependent"] = (abs(m1 - m0) > 1e-3, f"M = {m0:.6f} -> {m1:.6f} under the rotation")
    rep["C14:misorientation_index:symmetry-relabelling"] = (abs(m2 - m0) > 1e-3, f"M = {m0:.6f} -> {m2:.6f} after the relabelling")
    for name in ("tetragonal", "hexagonal"):
        sy = lattice(geo, name)
        th = st._max_misorientation(sy)
        try:
            mass = float(sum(st.misorientations_random(i, i + 1, sy) for i in range(th)))
            rep[f"C14:misorientations_random:mass:{name}"] = (abs(mass - 1) > 1e-3, f"sum over the {th} unit bins = {mass:.6f}")
        except Exception as e:  # noqa: BLE001
            rep[f"C14:misorientations_random:mass:{name}"] = (False, f"raised {type(e).__name__}")
    from scipy.spatial.transform import Rotation
    v111 = np.array([1.0, 1.0, 1.0]) / np.sqrt(3.0)
    os2 = np.stack([np.eye(3), Rotation.from_rotvec(np.pi * v111).as_matrix()])
    with warnings.catch_warnings():
        warnings.simplefilter("ignore")
        try:
            mn = float(dg.misorientation_index(os2, geo.LatticeSystem.tetragonal))
            rep["C14:misorientation_index:nan:no-pair-in-range"] = (
                math.isnan(mn), f"misorientation_index([identity, half turn about (1,1,1)], tetragonal) = {mn!r}")
        except Exception as e:  # noqa: BLE001
            rep["C14:misorientation_index:nan:no-pair-in-range"] = (False, f"raised {type(e).__name__}")
    sy = geo.LatticeSystem.rhombohedral
    failing = []
    for i in range(120):
        try:
            st.misorientations_random(i, i + 1, sy)
        except AssertionError:
            failing.append(i)
        except Exception:  # noqa: BLE001
            pass
    rep["C14:misorientations_random:rhombohedral:AssertionError"] = (bool(failing), f"AssertionError for bins {failing[:1]}..{failing[-1:]} ({len(failing)} bins)")
    return rep


# --------------------------------------------------------------------------
# property oracle (only used to find a failing input after something broke);
# the known findings are excluded by key, everything else is reported
# --------------------------------------------------------------------------
def oracle_texture(dg, st, geo, os, name, rng):
    fails = []
    s = lattice(geo, name)
    if name == "rhombohedral":
        return fails  # known finding: always raises
    with warnings.catch_warnings():
        warnings.simplefilter("ignore")
        angs = None
        try:
            with Recorder() as rec:
                m = float(dg.misorientation_index(os, s))
                _, ac = rec.take()
            if len(ac) == 1:
                angs = np.asarray(ac[0][2], dtype=float)
        except Exception as e:  # noqa: BLE001
            return [f"raised {type(e).__name__}: {e}"]
        th = st._max_misorientation(s)
        if not math.isfinite(m):
            # NaN is not a number in [0, 1].  Recorded finding C14:misorientation_index:nan:no-pair-in-range: when NO pair
            # angle lies in [0, theta_max] np.histogram divides 0 by 0; everything else is reported.
            n_in = None if angs is None else in_range_count(angs, th)
            if n_in == 0:
                return fails
            return [f"M-index is {m!r}, not a number in [0, 1], although {n_in} of {None if angs is None else len(angs)} pair angles lie in [0, {th}]"
                    + (f" (pair angles {angs[:6].tolist()})" if angs is not None else "")]
        T = float(sum(st.misorientations_random(i, i + 1, s) for i in range(th)))
        upper = 1 + 1e-3 if name in GOOD_MASS else (1 + T) / 2 + 1e-9
        if not (-1e-12 <= m <= upper):
            fails.append(f"M-index {m!r} outside [0, {upper:.6f}]")
        if name in GOOD_MASS and abs(T - 1) > 1e-3:
            fails.append(f"theoretical density integrates to {T!r}")
        if name == "triclinic" and angs is not None and len(os) <= 40:
            # no symmetry operator but the identity (which the code's product applies correctly): every pair angle must be
            # the misorientation angle of the two orientation matrices, cos(theta) = (tr(A B^T) - 1) / 2, and must not
            # change under a rigid rotation of the sample frame
            import itertools
            pr = list(itertools.combinations(range(len(os)), 2))
            ct = np.array([(np.trace(os[a] @ os[b].T) - 1.0) / 2.0 for a, b in pr]).clip(-1, 1)
            d = np.abs(np.cos(np.radians(angs)) - ct)
            if len(angs) == len(pr) and d.max() > 1e-5:
                j = int(d.argmax())
                fails.append(f"triclinic pair {pr[j]}: the pair angle is {float(angs[j])!r} but the misorientation angle of the two orientation "
                             f"matrices is {float(np.degrees(np.arccos(ct[j])))!r}")
            for Q in (haar(rng, 1)[0], oblique_half_turns()[1], oblique_half_turns()[7]):
                with Recorder() as rec:
                    dg.misorientation_index(os @ Q.T, s)
                    _, ac2 = rec.take()
                if len(ac2) == 1 and len(ac2[0][2]) == len(angs):
                    a2 = np.asarray(ac2[0][2], dtype=float)
                    d2 = np.abs(np.cos(np.radians(a2 / 2)) - np.cos(np.radians(angs / 2)))
                    if d2.max() > 5e-6:
                        j = int(d2.argmax())
                        fails.append(f"triclinic pair angle {j} changes from {float(angs[j])!r} to {float(a2[j])!r} under a rigid rotation of the "
                                     f"sample frame (Q = {Q.tolist()})")
                        break
        m2 = float(dg.misorientation_index(os[rng.permutation(len(os))], s))
        if abs(m2 - m) > 1e-9:
            fails.append(f"M-index changes under a permutation of the grains: {m!r} -> {m2!r}")
        h, e = st.misorientation_hist(os, s)
        h = np.asarray(h, dtype=float)
        if abs(h.sum() - 1) > 1e-9 or np.any(h < 0):
            fails.append("observed misorientation density is not a probability density on unit bins")
        if angs is not None:
            # the observed distribution is the normalised histogram of ALL pair angles in [0, theta_max] (1-degree bins,
            # the last one closed: theta_max itself is an admissible angle)
            href = np.histogram(angs, bins=th, range=(0, th), density=True)[0]
            if h.shape != href.shape or not np.allclose(h, href, rtol=0, atol=1e-12, equal_nan=True):
                j = int(np.nanargmax(np.abs(h - href))) if h.shape == href.shape else -1
                fails.append(f"observed density differs from the normalised histogram of the {len(angs)} pair angles on [0, {th}] "
                             f"(bin {j}: {h[j] if j >= 0 else None!r} vs {href[j] if j >= 0 else None!r}; "
                             f"{int((angs == th).sum())} pair angles are exactly {th}, {in_range_count(angs, th)} lie in [0, {th}])")
        single = np.repeat(os[:1], max(2, len(os)), axis=0)
        ms = float(dg.misorientation_index(single, s))
        hs, _ = st.misorientation_hist(single, s)
        if hs[0] != 1.0 or np.any(hs[1:] != 0):
            fails.append("pair angles of a single-orientation texture are not all in the first bin")
        th0 = float(st.misorientations_random(0, 1, s))
        if abs(ms - (0.5 * (1 + T) - th0)) > 1e-9:   # C14_mindex_single_closed_form
            fails.append(f"M-index of a single-orientation texture is {ms!r}, not (1 + T) / 2 - theory[0] = {0.5 * (1 + T) - th0!r}")
        if name in GOOD_MASS and abs(ms - 1) > 1e-4 + 1e-9:   # C14_mindex_single
            fails.append(f"M-index of a single-orientation texture is {ms!r}, not within 1e-4 of 1")
    return fails


# call-sequence probe: the index of one texture for a SEQUENCE of lattice systems evaluated in
# one process must not depend on what was evaluated before (state kept between calls)
CALL_SEQUENCE = ["orthorhombic", "monoclinic", "triclinic", "monoclinic", "triclinic",
                 "hexagonal", "tetragonal", "hexagonal", "orthorhombic"]

_FRESH_SNIPPET = r"""
import sys, json, warnings
import numpy as np
d = json.load(sys.stdin)
import pydrex.diagnostics as dg, pydrex.geometry as geo
os_ = np.array([float.fromhex(x) for x in d["os"]]).reshape(-1, 3, 3)
with warnings.catch_warnings():
    warnings.simplefilter("ignore")
    try:
        print("RESULT", float(dg.misorientation_index(os_, getattr(geo.LatticeSystem, d["system"]))).hex())
    except Exception as e:
        print("RESULT", "ERR:" + type(e).__name__)
"""


def fresh_process_values(os, names):
    """misorientation_index(os, system) as the FIRST call of a new interpreter, one process per
    system (started together)"""
    import json
    import subprocess
    procs = {}
    for name in names:
        p = subprocess.Popen([common.PY, "-c", _FRESH_SNIPPET], stdin=subprocess.PIPE, stdout=subprocess.PIPE,
                             stderr=subprocess.DEVNULL, text=True)
        p.stdin.write(json.dumps({"os": [hx(x) for x in os.reshape(-1)], "system": name}))
        p.stdin.close()
        procs[name] = p
    out = {}
    for name, p in procs.items():
        txt = p.stdout.read()
        p.wait(timeout=600)
        m = re.search(r"RESULT (\S+)", txt)
        out[name] = None if not m else (m.group(1) if m.group(1).startswith("ERR:") else float.fromhex(m.group(1)))
    return out


def rebuilt_index(st, os, s):
    """the index recomputed from the public pieces (Skemer et al. 2005, eq. 2)"""
    h, e = st.misorientation_hist(os, s)
    th = st._max_misorientation(s)
    theory = np.array([st.misorientations_random(e[i], e[i + 1], s) for i in range(len(h))])
    return float(th / (2 * len(h)) * np.abs(theory - h).sum())


def same_value(a, b, tol=1e-12):
    """equal results of the same call: both the same error, both NaN, or floats within tol"""
    if isinstance(a, float) and isinstance(b, float):
        return (math.isnan(a) and math.isnan(b)) or abs(a - b) <= tol
    return a == b


def oracle_sequence(dg, st, geo, os, seq, fresh=True):
    fails, vals = [], []
    with warnings.catch_warnings():
        warnings.simplefilter("ignore")
        for pos, name in enumerate(seq):
            s = lattice(geo, name)
            try:
                v = float(dg.misorientation_index(os, s))
            except Exception as e:  # noqa: BLE001
                v = "ERR:" + type(e).__name__
            vals.append(v)
            if isinstance(v, float):
                try:
                    rb = rebuilt_index(st, os, s)
                    if not same_value(rb, v, 1e-9):
                        fails.append(f"call {pos} ({name}) of the sequence {seq}: misorientation_index = {v!r} but "
                                     f"misorientation_hist + misorientations_random give {rb!r}")
                except Exception:  # noqa: BLE001
                    pass
        for i, a in enumerate(seq):
            for j in range(i + 1, len(seq)):
                if seq[j] == a and not same_value(vals[i], vals[j]):
                    fails.append(f"the same call ({a}) gives {vals[i]!r} at position {i} and {vals[j]!r} at position {j} of the sequence {seq}")
        if fresh:
            ref = fresh_process_values(os, sorted(set(seq)))
            for pos, (name, v) in enumerate(zip(seq, vals)):
                r = ref.get(name)
                if r is None:
                    continue
                if not same_value(r, v):
                    fails.append(f"call {pos} ({name}) of the sequence {seq} in one process gives {v!r}, the same call as the "
                                 f"first call of a fresh process gives {r!r} (result depends on the call history)")
    return fails


def oracle_batched(dg, geo, stack, w):
    s = geo.LatticeSystem.orthorhombic
    with warnings.catch_warnings():
        warnings.simplefilter("ignore")
        seq = np.array([dg.misorientation_index(o, s) for o in stack])
        out = dg.misorientation_indices(stack, s, ncpus=w)
    if not np.array_equal(out, seq):
        return [f"misorientation_indices(ncpus={w}) = {out.tolist()} but the per-snapshot values are {seq.tolist()}"]
    return []


def search(chk, extra=()):
    import pydrex.diagnostics as dg
    import pydrex.stats as st
    import pydrex.geometry as geo
    rng = np.random.default_rng(chk.seed + 1)
    found, seen = [], set()

    def add(payload, fails):
        sig = re.sub(r"[-+\d.e\[\], ]+", "#", fails[0])[:40]
        if sig not in seen and len(found) < 3:
            seen.add(sig)
            found.append((payload, fails))

    pool = [(m["os"], m["system"]) for m in extra if "os" in m and "system" in m and len(m["os"]) <= 60]
    sp = special_rotations()
    for name in SYSTEMS:
        for kind in ("single", "tight", "random"):
            pool.append((texture(rng, kind, 6), name))
        for a, b in BOUNDARY_FIXED:   # pair angles at the ends of the admissible range: exactly 0, exactly theta_max
            pool.append((np.stack([sp[a], sp[b]]), name))
        pool.append((np.stack([sp["id"], sp["x180"], sp["xyz120"], sp["xy180"]]), name))
    obl = oblique_half_turns()
    rz90 = np.array([[0.0, -1.0, 0.0], [1.0, 0.0, 0.0], [0.0, 0.0, 1.0]])
    for name in SYSTEMS:                      # exact half turns about oblique axes (w = 0: axis signs not in the antisymmetric part)
        pool.append((np.stack([obl[1], obl[0]]), name))
        pool.append((np.stack([np.eye(3), rz90, obl[3]]) @ obl[1].T, name))
        pool.append((np.stack([obl[7], obl[6], np.eye(3)]), name))
    for os, name in pool:
        fails = oracle_texture(dg, st, geo, os, name, np.random.default_rng(chk.seed + 2))
        if fails:
            add(dict(call="misorientation_index", system=name, n_grains=len(os), orientations=[hx(x) for x in os.reshape(-1)]), fails)
    seq_os = next((o for o, _ in pool if 2 <= len(o) <= 60), texture(rng, "clustered", 6))
    fails = oracle_sequence(dg, st, geo, seq_os, CALL_SEQUENCE)
    if fails:
        add(dict(call="misorientation_index_sequence", sequence=CALL_SEQUENCE, n_grains=len(seq_os),
                 orientations=[hx(x) for x in seq_os.reshape(-1)]), fails)
    for m in extra:
        if "stack" in m:
            w = m.get("ncpus", 2)
            fails = oracle_batched(dg, geo, m["stack"], w)
            if fails:
                add(dict(call="misorientation_indices", ncpus=w, shape=list(m["stack"].shape),
                         stack=[hx(x) for x in m["stack"].reshape(-1)]), fails)
    search_histories(chk, extra, add)
    search_large(chk, extra, add, lambda: not found)
    return found


def run(chk):
    ok, br = proofs.prove(chk, FILES, PROP, groups=(GROUP,), gen_modules=(GROUP,))
    chk.cov["trusted_base"] = common.TRUSTED_COMMON + [
        "tie T (translator/specs_mindex.py -> coq/gen/Gen_mindex.v, every run): utils.quat_product, geometry.symmetry_operations (every member), misorientation_angles, LatticeSystem.value / _max_misorientation / np.histogram parameter tables, stats.misorientations_random per system with symbolic edges, misorientation_hist up to np.histogram (2 and 3 grains), diagnostics.misorientation_index, misorientation_indices; instance lemmas generated = Model_mindex for all inputs (Inst_mindex*.v).  Trusted there: the RotSym stand-in for scipy Rotation inside symmetry_operations (identity, from_rotvec of t e_axis = (e sin(t/2), cos(t/2)); the real values are compared with the table entry by entry), the exact-rational reading of int/int on the enum values, round() of closed constants as round_upto 400 0 (range / tie checked numerically by the translator), np.clip / np.min / np.sum(axis=1) / rad2deg / deg2rad semantics, NumPy division that never raises, float32 storage ignored, SeqPool (imap = map) for the process pool",
        "the generated k_quat_product, k_symmetry_operations_*, k_misorientations_random_*, k_misorientation_index_* are extracted too and run next to the model and the implementation (binary64: product 1e-12, tables 1e-15, densities 1e-13, index 1e-12), which checks the translator's reading of the source numerically",
        "hand-written Model_mindex.v is the generic (any number of grains, any lattice) model the instance lemmas target; np.histogram(bins=n, range=(0,n), density=True) = Model_mindex.hist_density is tied by this differential run (tie H) on every texture",
        "scipy Rotation.as_quat is an oracle: unit quaternion whose rotation matrix is the input (checked on every recorded call to 1e-10); the same hypothesis is checked on the float32 quaternions that ENTER misorientation_angles (first operator = identity), whichever routine produced them (2e-6)",
        "the code stores the operator-multiplied quaternions in float32; the binary64 model is compared at 2e-6 in cos(angle/2), and the index from the full model path up to the pairs whose bin differs (counted as near_discontinuity); histogram and index from the RECORDED angles are compared at 1e-10; a non-finite index is a violation unless no recorded pair angle lies in [0, theta_max] (known finding)",
        "large aggregates (513+ hexagonal ... 1171+ orthorhombic grains; the Python loop of misorientation_hist makes one call cost 10 s and more) are covered by the recorded-angle path only: the index is compared with the model index of the RECORDED angles, sampled rows of the recorded quaternion stacks with the model's row-wise minimum, the whole stack with geometry.misorientation_angles on pieces of its rows (1e-6 in cos(angle/2)), the angles of the same pairs under reorderings of the grains; the full model path (quaternions -> angles) is not run at these sizes",
        "process pools (misorientation_indices) are outside the model: C14_batched_iff / _positional / _chunks / _first_error are about the model of imap as an order-preserving map (any chunking of the stack), C14_gen_indices_positional about the generated code with a sequential pool; equality and order under 1..4 [thorough 1..16] workers and an external pool are measured at run time only",
    ]
    chk.cov["rule"] = ("textures: 120 [thorough 480] = 6 lattice systems x {random (Haar), clustered (sigma 0.5 rad), tight (0.08 rad), single orientation} x "
                       "n_grains in {2,3,5,10,20,40,80} and two textures of 200 grains [thorough: {2,...,120,200} for every system]; plus every unit bin and random / invalid (low, high) of misorientations_random for all systems, "
                       "operator tables, misorientation_angles on random binary64 quaternion arrays (incl. zero angles), 50 quaternion products, "
                       "boundary stream: per system 64 two-grain textures (identity, special rotation) + 30 [400] other pairs of special rotations (30..180 degrees about <100>, <110>, <111>) + 12 [120] rotated-frame copies + 6 [40] textures of symmetry-equivalent copies (pair angles exactly 0 / exactly theta_max / above); "
                       "oblique stream: per system 10 [45] pairs of exact half turns about oblique axes, 8 [10] aligned textures seen from a half-turned frame, 4 [24] signed-permutation textures; "
                       "batched stacks of 1..8 [thorough ..40] snapshots x worker counts; "
                       "large aggregates / size boundaries (coverage.large_aggregates): ordered heterogeneous textures (blocks of aligned / tight / random grains) with grain counts on both sides of "
                       "rows x n_sym^2 x 8 bytes = 2^k (k = 28 for the system with most operators: 513..553 hexagonal grains, a cheaper k for every system) [thorough: k = 24, 26, 27, 28 and 2^16 / 2^17 pair rows for every system, 2000 triclinic grains], "
                       "each evaluated as generated and reordered (reversed / random permutation / blocks swapped), and row stacks handed to geometry.misorientation_angles directly (float32 / float64, above / at / below 2^28, 2^27, 2^26 bytes, "
                       "multiples and non-multiples of block sizes, 1999000 rows) whose value is compared with its value on head / tail / boundary windows, a strided gather and random pieces of the rows and with the model on sampled rows.  "
                       "call histories (coverage.call_histories): 20 [thorough 40] sequences of 3..20 public calls in ONE process (symmetry_operations, misorientation_angles, misorientation_hist, misorientations_random, "
                       "misorientation_index, misorientation_indices with ncpus / a pool opened earlier) where between calls the caller edits in place what an earlier call RETURNED (operator list truncated / reversed / "
                       "entries dropped, duplicated, swapped, arrays rescaled / component-rolled / negated / zeroed / flipped; histogram + edges rescaled / zeroed; index / angle arrays zeroed) or reuses its own argument buffers, "
                       "every call through argguard.guarded, every later call judged on its own (range, reordering, rebuilt index, batched = per-snapshot, unedited results unchanged, equal arguments -> equal values, "
                       "value = the value of a reference process in which no result is edited; operator lists returned inside a history vs the model table); run in forked children, confirmed in new interpreters by the search.  "
                       "distinct = distinct (function, system, input bytes / recipe); "
                       "non-trivial = not a single-orientation texture / a result that is not an error")
    bad, variant = [], 0
    have_driver = br.drivers.get(GROUP, 1) is None
    if have_driver:
        bad, variant = correspondence(chk, chk.tier)
        bad += batched(chk, chk.tier)
        bad += call_histories(chk, chk.tier)
        bad += large_aggregates(chk, chk.tier)
    chk.cov["disagreements"] = len(bad)
    # findings files: compiled = the refutation still holds of the model
    br_f = common.build(targets=FINDINGS, groups=())   # not obligations: refutations of the faithful model
    chk.cov["findings_files"] = {f: (f in br_f.built_vo) for f in FINDINGS}
    chk.cov["findings_files_errors"] = {f: br_f.failed_vo.get(f, "")[:300] for f in FINDINGS if f not in br_f.built_vo}
    status = {f["key"]: f.get("status", "open") for f in common.load_known_findings() if f.get("property") == "C14"}
    if ok and not bad:
        rep = witnesses()
        chk.cov["known_finding_witnesses"] = {k: {"reproduces": v[0], "observed": v[1]} for k, v in rep.items()}
        regress = []
        for key, (repro, obs) in rep.items():
            if not repro:
                continue
            if str(status.get(key, "open")).startswith("fixed"):
                regress.append((key, obs))
            else:
                chk.known_finding(f"key={key} {KNOWN[key]}; observed: {obs}")
        if not regress:
            return
        for key, obs in regress:
            chk.replay({"kind": "property-violation", "input": {"call": "witness", "key": key}, "observed": [KNOWN[key] + "; " + obs],
                        "required": "C14; known_findings.json marks this finding as fixed"})
        return
    found = search(chk, extra=[m for m, _ in bad])
    dis = [{k: v for k, v in m.items() if k not in ("os", "stack", "q1", "q2", "large", "history")}
           | ({"history": m["history"].get("id")} if "history" in m else {}) | {"detail": d} for m, d in bad[:5]]
    if found:
        for payload, fails in found:
            chk.replay({"kind": "property-violation", "input": payload, "observed": fails, "required": "C14 (see properties.jsonl)",
                        "broken": chk.cov.get("broken_obligations", []), "disagreements": dis})
    else:
        chk.replay({"kind": "unproved", "broken": chk.cov.get("broken_obligations", []), "disagreements": dis,
                    "note": "proof obligation or correspondence no longer checks; no failing input found by the search"}, no_input=True)


def replay(d):
    common.use_repo_source()
    import pydrex.diagnostics as dg
    import pydrex.stats as st
    import pydrex.geometry as geo
    if d.get("kind") != "property-violation":
        print("replay file names a broken obligation; re-run the check itself")
        return 1
    i = d["input"]
    u = common.unhx
    if i["call"] == "misorientation_index":
        os = np.array([u(x) for x in i["orientations"]]).reshape(i["n_grains"], 3, 3)
        fails = oracle_texture(dg, st, geo, os, i["system"], np.random.default_rng(d.get("seed", 0) + 2))
    elif i["call"] == "misorientation_index_sequence":
        os = np.array([u(x) for x in i["orientations"]]).reshape(i["n_grains"], 3, 3)
        fails = oracle_sequence(dg, st, geo, os, i["sequence"])
    elif i["call"] == "misorientation_indices":
        stack = np.array([u(x) for x in i["stack"]]).reshape(i["shape"])
        fails = oracle_batched(dg, geo, stack, i["ncpus"])
    elif i["call"] == "call_history":      # history and reference each in a NEW process
        fails = oracle_history(i["history"])
    elif i["call"] in ("large_aggregate", "misorientation_angles_rowstack"):      # regenerated from the recipe
        fails = oracle_large(dg, st, geo, i)
    else:
        rep = witnesses()
        fails = [rep[i["key"]][1]] if rep.get(i["key"], (False,))[0] else []
    for f in fails:
        print("still fails:", f)
    return 1 if fails else 0
